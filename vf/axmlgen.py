"""Independent writer of Android binary XML (written from ResourceTypes.h; shares no code with androguard).

Document model
--------------
element = dict(tag, ns=None|uri, attrs=[attr...], text=None|str (one text chunk before the children), children=[element...])
attr    = dict(name, ns=None|uri, resid=None|int, type=int (Res_value dataType), data=int | value=str (for TYPE_STRING), raw=None|str)
namespaces declared on the root: list of (prefix, uri)
"""
import struct

RES_STRING_POOL = 0x0001
RES_XML = 0x0003
RES_XML_START_NAMESPACE = 0x0100
RES_XML_END_NAMESPACE = 0x0101
RES_XML_START_ELEMENT = 0x0102
RES_XML_END_ELEMENT = 0x0103
RES_XML_CDATA = 0x0104
RES_XML_RESOURCE_MAP = 0x0180
NONE = 0xFFFFFFFF
TYPE_STRING = 0x03


def _utf16_string(s):
    u = s.encode("utf-16-le", "surrogatepass")
    n = len(u) // 2
    if n >= 0x8000:
        head = struct.pack("<HH", 0x8000 | (n >> 16), n & 0xFFFF)
    else:
        head = struct.pack("<H", n)
    return head + u + b"\0\0"


def _len8(n):
    return bytes([0x80 | (n >> 8), n & 0xFF]) if n >= 0x80 else bytes([n])


def _utf8_string(s):
    b = s.encode("utf-8", "surrogatepass")
    nchars = len(s.encode("utf-16-le", "surrogatepass")) // 2
    return _len8(nchars) + _len8(len(b)) + b + b"\0"


def string_pool(strings, utf8=False):
    data = bytearray()
    offs = []
    for s in strings:
        offs.append(len(data))
        data += _utf8_string(s) if utf8 else _utf16_string(s)
    while len(data) % 4:
        data.append(0)
    header_size = 28
    strings_start = header_size + 4 * len(strings)
    size = strings_start + len(data)
    out = struct.pack("<HHIIIIII", RES_STRING_POOL, header_size, size, len(strings), 0, 0x100 if utf8 else 0, strings_start, 0)
    out += b"".join(struct.pack("<I", o) for o in offs)
    return out + bytes(data)


class Axml:
    def __init__(self, root, namespaces=(), utf8=False, extra_chunks=()):
        self.root = root
        self.namespaces = list(namespaces)
        self.utf8 = utf8
        self.extra_chunks = list(extra_chunks)          # raw chunks inserted after the resource map (e.g. unknown chunk types)

    def build(self):
        # strings with a resource id must come first, in resource-map order
        res_names, res_ids = [], []
        strings = []
        index = {}

        def intern(s, front=False):
            if s not in index:
                index[s] = len(strings)
                strings.append(s)
            return index[s]

        def collect_res(e):
            for a in e.get("attrs", []):
                if a.get("resid") is not None and (a["name"], a["resid"]) not in zip(res_names, res_ids):
                    res_names.append(a["name"])
                    res_ids.append(a["resid"])
            for c in e.get("children", []):
                collect_res(c)
        collect_res(self.root)
        # an attribute name with a resource id occupies its own pool slot (names without id may repeat a string elsewhere)
        self._res_index = {}
        for n_, id_ in zip(res_names, res_ids):
            self._res_index[(n_, id_)] = len(strings)          # pool slot k <-> resource map entry k
            strings.append(n_)

        body = bytearray()
        line = [1]

        def chunk(t, payload):
            head = struct.pack("<HHI", t, 16, 16 + len(payload)) + struct.pack("<II", line[0], NONE)
            line[0] += 1
            return head + payload

        def sidx(s):
            return NONE if s is None else intern(s)

        def emit(e):
            attrs = bytearray()
            for a in e.get("attrs", []):
                name_i = self._res_index[(a["name"], a["resid"])] if a.get("resid") is not None else intern(a["name"])
                if a["type"] == TYPE_STRING:
                    vi = intern(a["value"])
                    raw, data = vi, vi
                else:
                    raw = sidx(a.get("raw"))
                    data = a["data"] & 0xFFFFFFFF
                attrs += struct.pack("<IIIHBBI", sidx(a.get("ns")), name_i, raw, 8, 0, a["type"], data)
            n = len(e.get("attrs", []))
            payload = struct.pack("<IIHHHHHH", sidx(e.get("ns")), intern(e["tag"]), 0x14, 0x14, n, 0, 0, 0) + bytes(attrs)
            body.extend(chunk(RES_XML_START_ELEMENT, payload))
            if e.get("text") is not None:
                body.extend(chunk(RES_XML_CDATA, struct.pack("<IHBBI", intern(e["text"]), 8, 0, 0, 0)))
            for c in e.get("children", []):
                emit(c)
            body.extend(chunk(RES_XML_END_ELEMENT, struct.pack("<II", sidx(e.get("ns")), intern(e["tag"]))))

        for (p, u) in self.namespaces:
            body.extend(chunk(RES_XML_START_NAMESPACE, struct.pack("<II", intern(p), intern(u))))
        emit(self.root)
        for (p, u) in reversed(self.namespaces):
            body.extend(chunk(RES_XML_END_NAMESPACE, struct.pack("<II", intern(p), intern(u))))
        pool = string_pool(strings, self.utf8)
        resmap = b""
        if res_ids:
            resmap = struct.pack("<HHI", RES_XML_RESOURCE_MAP, 8, 8 + 4 * len(res_ids)) + b"".join(struct.pack("<I", i) for i in res_ids)
        extra = b"".join(self.extra_chunks)
        total = 8 + len(pool) + len(resmap) + len(extra) + len(body)
        self.strings = strings
        return struct.pack("<HHI", RES_XML, 8, total) + pool + resmap + extra + bytes(body)
