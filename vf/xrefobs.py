"""Shared machinery of C13-C16: abstract programs -> DEX files -> Analysis -> projected cross-references."""
import itertools
import random

from . import asm, tlc
from .dexgen import Dex

CLAUSES = {
    "C13": ("C13.callees-exact", "C13.callers-mirror", "C13.call-graph-edges", "C13.external-stubs"),
    "C14": ("C14.field-reads", "C14.field-writes", "C14.method-lists-field", "C14.one-analysis-per-field"),
    "C15": ("C15.strings", "C15.new-instance", "C15.const-class"),
    "C16": ("C16.same-as-single-dex",),
    "C40": ("C40.xref-offsets",),
}
OBJ = "Ljava/lang/Object;"


def parse_desc(d):
    """'(IJ)V' -> ('V', ['I','J'])"""
    import re
    m = re.match(r"\((.*)\)(.*)", d)
    return (m.group(2), re.findall(r"\[*(?:L[^;]+;|[ZBSCIJFDV])", m.group(1)))


def elem_class(t):
    e = t.lstrip("[")
    return e if e.startswith("L") else ""


def to_asm(ins):
    """ins: dict(op, cls, name[, how]) -> assembler instruction"""
    op, cls, name = ins["op"], ins["cls"], ins["name"]
    how = ins.get("how")
    if op == "inv":
        mname, desc = name.split("(", 1)
        ref = (cls, parse_desc("(" + desc), mname)
        how = how or "invoke-static"
        if how.endswith("/range"):
            return (how, 0, 0 if "static" in how else 1, ref)
        return (how, [] if "static" in how else [0], ref)
    if op in ("rd", "wr"):
        fname, ftype = name.split(":")
        how = how or ("sget" if op == "rd" else "sput")
        ref = (cls, ftype, fname)
        return (how, 0, ref) if how.startswith("s") else (how, 0, 0, ref)
    if op == "str":
        return (how or "const-string", 0, name)
    if op == "new":
        return ("new-instance", 0, cls)
    if op == "cls":
        return ("const-class", 0, cls)
    raise ValueError(op)


def method_code(code):
    body = [to_asm(i) for i in code] + [("return-void",)]
    offs, _, _ = asm.layout(body)
    return body, [2 * o for o in offs[:len(code)]]


def build_dexes(prog, split):
    """prog: dict(classes=[dict(name, fields=[(name, type)], methods=[dict(name(with desc), code=[ins])])]); split: list of lists of class indices.
    -> list of raw DEX (in add order)"""
    out = []
    for part in split:
        classes = []
        for ci in part:
            c = prog["classes"][ci]
            dm = []
            for m in c["methods"]:
                mname, desc = m["name"].split("(", 1)
                ret, params = parse_desc("(" + desc)
                body, _ = method_code(m["code"])
                dm.append(dict(name=mname, ret=ret, params=params, flags=9, code=dict(regs=2 + len(params) * 2, ins=sum(2 if p in "JD" else 1 for p in params), outs=2, insns=body)))
            # (the kind of class does not matter to cross-references: interfaces carry code too -- <clinit>, static and default methods)
            classes.append(dict(name=c["name"], super=OBJ, flags=c.get("flags", 1), sfields=[(fn, ft, 9) for (fn, ft) in c["fields"]], ifields=[], dmethods=dm, vmethods=[]))
        out.append(Dex(classes, extra_fields=prog.get("extra_fields", ())).build())
    return out


def mkey(m):
    return [m.get_class_name(), m.get_name() + str(m.get_descriptor()).replace(" ", "")]


def analyse(dexmod, raws):
    from androguard.core.analysis.analysis import Analysis
    dx = Analysis()
    for raw in raws:
        dx.add(dexmod.DEX(raw))
    dx.create_xref()
    return dx


def project(dx, ns=None):
    """Analysis -> observation dict (lists of JSON-able tuples); ns: optional class-name prefix filter for the *source* side"""
    keep = (lambda cn: True) if ns is None else (lambda cn: cn.lstrip("[").startswith(ns))
    o = dict(calls=[], callers=[], edges=[], stubs=[], reads=[], writes=[], reads_owner=[], writes_owner=[], mreads=[], mwrites=[], fields=[], strs=[], news=[], mnews=[], consts=[], mconsts=[],
             classes=[], methods=[], strings=[])
    stub_ids = {}
    shared = True
    all_methods = list(dx.get_methods())
    listed = {id(m) for m in all_methods}
    offsets_ok = True
    ins_offs = {}

    def offs_of(ma):
        k = id(ma)
        if k not in ins_offs:
            ins_offs[k] = None if ma.is_external() else {off for off, _ in ma.get_method().get_instructions_idx()}
        return ins_offs[k]
    for ma in all_methods:
        cn = ma.get_method().get_class_name()
        k = mkey(ma.get_method())
        if keep(cn):
            o["methods"].append(k + [bool(ma.is_external())])
        if not ma.is_external() and keep(cn):
            for (ca, callee, off) in ma.get_xref_to():
                ck = mkey(callee.get_method())
                o["calls"].append([k, ck, off])
                offsets_ok &= off in offs_of(ma)
                if callee.is_external():
                    prev = stub_ids.setdefault(tuple(ck), id(callee))
                    shared &= prev == id(callee) and id(callee) in listed
                    ca2 = dx.get_class_analysis(ck[0])
                    shared &= ca2 is not None and any(x is callee for x in ca2.get_methods())
            for (ca, fld, off) in ma.get_xref_read():
                o["mreads"].append([[fld.get_class_name(), fld.get_name() + ":" + fld.get_descriptor()], k, off])
                offsets_ok &= off in offs_of(ma)
            for (ca, fld, off) in ma.get_xref_write():
                o["mwrites"].append([[fld.get_class_name(), fld.get_name() + ":" + fld.get_descriptor()], k, off])
                offsets_ok &= off in offs_of(ma)
            for (ca, off) in ma.get_xref_new_instance():
                o["mnews"].append([ca.name, k, off])
                offsets_ok &= off in offs_of(ma)
            for (ca, off) in ma.get_xref_const_class():
                o["mconsts"].append([ca.name, k, off])
                offsets_ok &= off in offs_of(ma)
        # callers, read off the callee side
        for (ca, caller, off) in ma.get_xref_from():
            if keep(caller.get_method().get_class_name()):
                o["callers"].append([mkey(caller.get_method()), k, off])
    o["stubs"] = sorted(list(k) for k in stub_ids)
    o["stub_shared"] = bool(shared)
    o["offsets_ok"] = bool(offsets_ok)
    cg = dx.get_call_graph()
    for a, b in cg.edges():
        if keep(a.get_class_name()):
            o["edges"].append([mkey(a), mkey(b)])
    o["edges"] = [list(x) for x in sorted({(tuple(a), tuple(b)) for a, b in o["edges"]})]
    for fa in dx.get_fields():
        f = fa.get_field()
        fk = [f.get_class_name(), f.get_name() + ":" + f.get_descriptor()]
        if keep(f.get_class_name()):
            o["fields"].append(fk)
        for (ca, m, off) in fa.get_xref_read(with_offset=True):
            if keep(m.get_method().get_class_name()):
                o["reads"].append([fk, mkey(m.get_method()), off])
        for (ca, m, off) in fa.get_xref_write(with_offset=True):
            if keep(m.get_method().get_class_name()):
                o["writes"].append([fk, mkey(m.get_method()), off])
    # the FieldAnalysis *returned for* each defined field
    for vm in dx.vms:
        for f in vm.get_encoded_fields():
            if not keep(f.get_class_name()):
                continue
            fa = dx.get_field_analysis(f)
            fk = [f.get_class_name(), f.get_name() + ":" + f.get_descriptor()]
            if fa is None:
                o["reads_owner"].append([fk, ["<no FieldAnalysis>", ""], -1])
                continue
            for (ca, m, off) in fa.get_xref_read(with_offset=True):
                o["reads_owner"].append([fk, mkey(m.get_method()), off])
            for (ca, m, off) in fa.get_xref_write(with_offset=True):
                o["writes_owner"].append([fk, mkey(m.get_method()), off])
    for sa in dx.get_strings():
        for (ca, m, off) in sa.get_xref_from(with_offset=True):
            if keep(m.get_method().get_class_name()):
                o["strs"].append([sa.get_orig_value(), mkey(m.get_method()), off])
    for ca in dx.get_classes():
        if keep(ca.name):
            o["classes"].append([ca.name, bool(ca.is_external())])
        for (m, off) in ca.get_xref_new_instance():
            if keep(m.get_method().get_class_name()):
                o["news"].append([ca.name, mkey(m.get_method()), off])
        for (m, off) in ca.get_xref_const_class():
            if keep(m.get_method().get_class_name()):
                o["consts"].append([ca.name, mkey(m.get_method()), off])
    o["strings"] = sorted(s.get_orig_value() for s in dx.get_strings() if ns is None or s.get_orig_value().startswith(ns.strip("L/") + ":"))
    for k in list(o):
        if isinstance(o[k], list):
            o[k] = sorted(o[k], key=repr)
    return o


def strip_class(t):
    """class with array brackets removed; '' when nothing class-like remains ([I)"""
    e = t.lstrip("[")
    return e if e.startswith("L") else ""


def record_for(prog, obs, same, split=None):
    code = []
    defs_m, defs_f = [], []
    for c in prog["classes"]:
        for (fn, ft) in c["fields"]:
            defs_f.append([c["name"], fn + ":" + ft])
        for m in c["methods"]:
            defs_m.append([c["name"], m["name"]])
            _, offs = method_code(m["code"])
            code.append([[c["name"], m["name"]],
                         [[i["op"], i["cls"], i["name"], off, (strip_class(i["cls"]) if i["op"] in ("new", "cls", "inv") else "")] for i, off in zip(m["code"], offs)]])
    keys = ("calls", "callers", "edges", "stubs", "stub_shared", "reads", "writes", "reads_owner", "writes_owner", "mreads", "mwrites", "fields", "strs", "news", "mnews",
            "consts", "mconsts", "offsets_ok")
    if split is None:
        split = [list(range(len(prog["classes"])))]
    dexof = [[prog["classes"][ci]["name"], d] for d, part in enumerate(split) for ci in part]
    return dict(defs_m=defs_m, defs_f=defs_f, code=code, dexof=dexof, obs={k: obs[k] for k in keys}, same=same)


# ---- TLC universe -> concrete program ----------------------------------------------------------------------------
def concretise(tprog, i):
    """tprog: {('A','m'): (ins records...), ('B','n'): (...)} from the TLC dump; i: namespace number"""
    # every 5th universe: a package sorting before java/lang, so that (when no primitive type sorting before 'L' is used) one of the
    # program's own classes has type index 0
    ns = ("La%d/" if i % 5 == 0 else "Lq%d/") % i
    dims = "[" * (1 + i % 3)          # array classes of 1..3 dimensions, field opcodes of every type, static and instance forms: rotate with i
    cname = {"A": ns + "A;", "B": ns + "B;", "X": ns + "X;", "[A": dims + ns + "A;", "[B": dims + ns + "B;", "[I": dims + "IJ"[i % 2], "": ""}
    ftype = ["I", "J", "Ljava/lang/String;", "Z", "B", "C", "S"][i % 7]
    suffix = {"I": "", "J": "-wide", "Ljava/lang/String;": "-object", "Z": "-boolean", "B": "-byte", "C": "-char", "S": "-short"}[ftype]
    form = "si"[(i // 7) % 2]
    strs = sorted({x["name"] for v in tprog.values() for x in map(dict, v) if x["op"] == "str"})
    first_str = strs[0] if strs else None
    # same-named fields of other types next to the accessed ones (sorting before and after them): never accessed, must stay without xrefs
    decoys = [t for t in (("D", "[I") if i % 2 else ("[Z", "[I")) if t != ftype]

    def conv(ins):
        op, cls, name = ins["op"], ins["cls"], ins["name"]
        if op == "inv":
            if name == "clone":
                nm = ("clone%d" % i if cls == "[I" else "clone") + "()" + OBJ
            else:
                nm = name + "()V"
            return dict(op=op, cls=cname[cls], name=nm)
        if op in ("rd", "wr"):
            return dict(op=op, cls=cname[cls], name=name + ":" + ftype, how=form + ("get" if op == "rd" else "put") + suffix)
        if op == "str":
            return dict(op=op, cls="", name="q%d:%s" % (i, name))
        return dict(op=op, cls=cname[cls], name="")
    code = {k: [conv(dict(x)) for x in v] for k, v in tprog.items()}
    kinds = [(1, 1), (0x601, 1), (1, 0x411), (0x601, 0x4031)][(i // 3) % 4]       # public class / interface / abstract final-less class / enum
    return dict(ns=ns, classes=[dict(name=cname["A"], flags=kinds[0], fields=[("f", ftype)] + [("f", t) for t in decoys], methods=[dict(name="m()V", code=code[("A", "m")])]),
                                 dict(name=cname["B"], flags=kinds[1], fields=[("g", ftype)] + [("g", t) for t in decoys], methods=[dict(name="n()V", code=code[("B", "n")])])])


def random_program(rnd, i, max_classes):
    ns = "Lr%d/" % i
    nc = rnd.randrange(1, max_classes + 1)
    names = [ns + "C%d;" % k for k in range(nc)]
    classes = []
    for cn in names:
        fields = [("f%d" % k, rnd.choice(["I", "J", "Ljava/lang/String;", "Z", "B", "C", "S"])) for k in range(rnd.randrange(0, 3))]
        methods = []
        for k in range(rnd.randrange(1, 4)):
            methods.append(dict(name=rnd.choice(["m%d()V" % k, "m%d(I)V" % k, "run%d(J)I" % k]), code=[]))
        if rnd.random() < 0.3:
            methods.append(dict(name="m0(I)V" if methods[0]["name"] != "m0(I)V" else "m0()V", code=[]))      # overload: same name, other descriptor
        seen, ms = set(), []
        for m in methods:
            if m["name"] not in seen:
                seen.add(m["name"])
                ms.append(m)
        classes.append(dict(name=cn, flags=rnd.choice([1, 1, 1, 0x601, 0x401, 0x11, 0x4031, 0x2601]), fields=fields, methods=ms))
    allm = [(c["name"], m["name"]) for c in classes for m in c["methods"]]
    allf = [(c["name"], f) for c in classes for f in c["fields"]]
    inv_kinds = ["invoke-virtual", "invoke-super", "invoke-direct", "invoke-static", "invoke-interface"]
    for c in classes:
        for m in c["methods"]:
            for _ in range(rnd.randrange(0, 7)):
                r = rnd.random()
                if r < 0.4:
                    t = rnd.random()
                    if t < 0.55 and allm:
                        cls, nm = rnd.choice(allm)
                    elif t < 0.7:
                        cls, nm = rnd.choice(names), "undefined%d()V" % rnd.randrange(2)
                    elif t < 0.85:
                        cls, nm = ns + "Ext;", rnd.choice(["x()V", "x(I)V", "<init>()V"])
                    elif t < 0.93:
                        cls, nm = "[" * rnd.choice([1, 1, 2, 3]) + rnd.choice(names + ["Ljava/lang/String;"]), "clone()" + OBJ
                    else:
                        cls, nm = rnd.choice(["[I", "[[I", "[[J"]), "clone%d()%s" % (i, OBJ)
                    how = rnd.choice(inv_kinds) + rnd.choice(["", "/range"])
                    ins = dict(op="inv", cls=cls, name=nm, how=how)
                elif r < 0.65:
                    if rnd.random() < 0.8 and allf:
                        cls, (fn, ft) = rnd.choice(allf)
                    else:
                        cls, (fn, ft) = ns + "Ext;", ("h", "I")
                    rd = rnd.random() < 0.5
                    suffix = {"I": "", "J": "-wide", "Ljava/lang/String;": "-object", "Z": "-boolean", "B": "-byte", "C": "-char", "S": "-short"}[ft]
                    how = rnd.choice(["s", "i"]) + ("get" if rd else "put") + suffix
                    ins = dict(op="rd" if rd else "wr", cls=cls, name=fn + ":" + ft, how=how)
                elif r < 0.8:
                    ins = dict(op="str", cls="", name="" if rnd.random() < 0.15 else "r%d:s%d" % (i, rnd.randrange(3)), how=rnd.choice(["const-string", "const-string/jumbo"]))
                else:
                    t = rnd.choice(names + [ns + "Ext;", "[" + rnd.choice(names), "[I", "[[" + ns + "Ext;"])
                    op = "cls" if t.startswith("[") else rnd.choice(["new", "cls"])
                    ins = dict(op=op, cls=t, name="")
                m["code"].append(ins)
    return dict(ns=ns, classes=classes)


def compare_model(st, obs, prog):
    """S->C: expected sets of the TLC final state (namespaced) vs observation -> failing clauses"""
    ns = prog["ns"]
    cname = {"A": ns + "A;", "B": ns + "B;", "X": ns + "X;", "[A": "[" + ns + "A;", "[B": "[" + ns + "B;", "[I": "[I"}
    i = int(ns[2:-1])

    def mk(k):
        c, n = k
        if n == "clone":
            return (cname[c], ("clone%d" % i if c == "[I" else "clone") + "()" + OBJ)
        return (cname[c], n + "()V")

    def fk(k):
        return (cname[k[0]], k[1] + ":I")
    s = st
    want_calls = {(mk(e[0]), mk(e[1]), e[2]) for e in s["calls"]}
    bad = []
    T = lambda l: {tuple(tuple(y) if isinstance(y, list) else y for y in x) for x in l}
    if T(obs["calls"]) != want_calls:
        bad.append("C13.callees-exact")
    if T(obs["callers"]) != want_calls:
        bad.append("C13.callers-mirror")
    if T(obs["edges"]) != {(a, b) for a, b, _ in want_calls}:
        bad.append("C13.call-graph-edges")
    if {tuple(x) for x in obs["stubs"]} != {mk(k) for k in s["stubs"]} or not obs["stub_shared"]:
        bad.append("C13.external-stubs")
    wr = {(fk(e[0]), mk(e[1]), e[2]) for e in s["reads"]}
    ww = {(fk(e[0]), mk(e[1]), e[2]) for e in s["writes"]}
    if T(obs["reads"]) != wr:
        bad.append("C14.field-reads")
    if T(obs["writes"]) != ww:
        bad.append("C14.field-writes")
    if T(obs["mreads"]) != wr or T(obs["mwrites"]) != ww:
        bad.append("C14.method-lists-field")
    if sorted(map(tuple, obs["fields"])) != sorted([fk(("A", "f")), fk(("B", "g"))]):
        bad.append("C14.one-analysis-per-field")
    if T(obs["strs"]) != {("q%d:%s" % (i, e[0]), mk(e[1]), e[2]) for e in s["strs"]}:
        bad.append("C15.strings")
    wn = {(cname[e[0]], mk(e[1]), e[2]) for e in s["news"]}
    wc = {(cname[e[0]], mk(e[1]), e[2]) for e in s["consts"]}
    if T(obs["news"]) != wn or T(obs["mnews"]) != wn:
        bad.append("C15.new-instance")
    if T(obs["consts"]) != wc or T(obs["mconsts"]) != wc:
        bad.append("C15.const-class")
    if not obs["offsets_ok"]:
        bad.append("C40.xref-offsets")
    return bad


def features(prog):
    """signature features of a program: which special targets occur"""
    f = set()
    defined_f = {(c["name"], fn + ":" + ft) for c in prog["classes"] for (fn, ft) in c["fields"]}
    for c in prog["classes"]:
        for m in c["methods"]:
            for i in m["code"]:
                if i["op"] == "inv" and i["cls"].startswith("["):
                    f.add("invoke-on-array-class" + ("-primitive" if not elem_class(i["cls"]) else ""))
                if i["op"] in ("rd", "wr") and (i["cls"], i["name"]) in defined_f and i["cls"] != c["name"]:
                    f.add("field-of-other-class")
    return sorted(f)


def run_property(chk, pid):
    from androguard.core import dex
    quick = chk.tier == "quick"
    rnd = random.Random(chk.seed)
    mine = CLAUSES[pid]
    cfg = "XrefMC_quick.cfg" if quick else "XrefMC_thorough.cfg"
    stride = (12, chk.seed) if quick else (6, chk.seed)
    chk.bounds = dict(cfg=cfg, replay_stride=stride[0], alphabet="20 xref instructions (invoke internal/undefined/external/array-class/primitive-array, field get/put defined/external, "
                      "const-string, new-instance, const-class incl. array types)", splits="one DEX, A|B, B|A")
    r, states = tlc.dump_states("XrefMC", cfg, only={"prog", "dexes", "st", "phase"}, keep_if='"done"', stride=stride, timeout=3000, heap="8g")
    chk.model(r, "XrefMC/" + cfg)
    states = [s for s in states if s["phase"] == "done"]
    # group by split variant so that many programs share one Analysis
    groups = {}
    for n, st in enumerate(states):
        key = tuple(tuple(sorted(d)) for d in st["dexes"])
        groups.setdefault(key, []).append((n, st))
    recs, meta = [], []
    n_s2c = 0
    for key, items in groups.items():
        for b in range(0, len(items), 150):
            batch = items[b:b + 150]
            progs = [concretise(st["prog"], n) for n, st in batch]
            merged = dict(classes=[c for p in progs for c in p["classes"]])
            idx = {c["name"]: k for k, c in enumerate(merged["classes"])}
            split = [[idx[p["classes"][0 if cl == "A" else 1]["name"]] for p in progs for cl in part] for part in key]
            single = [list(range(len(merged["classes"])))]
            dx = analyse(dex, build_dexes(merged, split))
            dx1 = analyse(dex, build_dexes(merged, single)) if len(key) > 1 else dx
            for (n, st), p in zip(batch, progs):
                obs = project(dx, p["ns"])
                same = True
                if dx1 is not dx:
                    o1 = project(dx1, p["ns"])
                    same = o1 == obs
                bad = compare_model(dict(st["st"]), obs, p)
                if not same:
                    bad.append("C16.same-as-single-dex")
                rel = sorted(set(bad) & set(mine))
                if rel:
                    chk.violation("model:%s:%s:%s" % ("+".join(rel), "+".join(features(p)) or "plain", "multi-dex" if len(key) > 1 else "single-dex"),
                                  "Xref:" + "+".join(rel), dict(program=p, split=[sorted(d) for d in key], observed={k: obs[k] for k in ("calls", "stubs", "reads", "writes", "fields", "strs", "news", "consts")},
                                                               expected=dict(st["st"])))
                n_s2c += 1
                if n_s2c % 400 == 1:
                    chk.sample(dict(program={"%s.%s" % k: [dict(x) for x in v] for k, v in st["prog"].items()}, split=[sorted(d) for d in key], spec=dict(st["st"])), cap=3)
    chk.replayed(n_s2c)

    # ---- C->S: random programs, 1..4 DEX files, every add order ------------------------------------------------------
    nprog = 25 if quick else 400
    for i in range(nprog):
        p = random_program(rnd, i, 6 if quick else 30)
        nc = len(p["classes"])
        k = rnd.randrange(1, min(4, nc) + 1)
        assign = [rnd.randrange(k) for _ in range(nc)]
        parts = [[c for c in range(nc) if assign[c] == d] for d in range(k)]
        parts = [x for x in parts if x]
        single = project(analyse(dex, build_dexes(p, [list(range(nc))])), None)
        orders = list(itertools.permutations(range(len(parts))))
        if quick and len(orders) > 6:
            orders = rnd.sample(orders, 6)
        recs.append(record_for(p, single, True))
        meta.append((p, "single"))
        for order in orders:
            if len(parts) == 1:
                break
            obs = project(analyse(dex, build_dexes(p, [parts[o] for o in order])), None)
            recs.append(record_for(p, obs, obs == single))
            meta.append((p, "split %s" % ([parts[o] for o in order],)))
    res = tlc.validate("Xref_Trace", "Xref_Trace.cfg", recs, shards=16, heap="3g", timeout=3000)
    chk.trace_result(res, "Xref_Trace")
    for gi, why in res["rejects"]:
        rel = sorted(w for w in why[0] if w in mine)
        if not rel:
            continue
        p, how = meta[gi]
        chk.violation("random:%s:%s:%s" % ("+".join(rel), "+".join(features(p)) or "plain", "single-dex" if how == "single" else "multi-dex"),
                      "Xref_Trace:" + "+".join(rel), dict(split=how, record=_short(recs[gi])))
    chk.extra["records_rejected_for_other_properties"] = sum(1 for _, why in res["rejects"] if not any(w in mine for w in why[0]))
    chk.sample(_short(recs[0]), cap=5)
    rejected = {i for i, _ in res["rejects"]}
    k = next((i for i in range(len(recs)) if i not in rejected and recs[i]["obs"]["calls"] and recs[i]["obs"]["strs"] and recs[i]["obs"]["reads"]), None)
    if k is not None:
        import copy
        bad = copy.deepcopy(recs[k])
        if pid == "C13":
            bad["obs"]["calls"] = bad["obs"]["calls"][1:]
        elif pid == "C14":
            bad["obs"]["reads"] = bad["obs"]["reads"][1:]
        elif pid == "C15":
            bad["obs"]["strs"] = bad["obs"]["strs"][1:]
        elif pid == "C16":
            bad["same"] = False
        else:
            bad["obs"]["offsets_ok"] = False
        st = tlc.validate("Xref_Trace", "Xref_Trace.cfg", [bad], shards=1)
        if not st["rejects"]:
            raise tlc.TLCError("binding self-test failed")
        chk.extra["self_test_rejected"] = True
    chk.assumptions += ["for const-class on an array type the element class is 'that class' (androguard's documented behaviour); types without a class (e.g. [I) are not recorded",
                        "new-instance / const-class on the method's own class are not 'on another class'",
                        "method keys are (class, name, descriptor with blanks removed)"]


def _short(r):
    import json
    s = json.dumps(r)
    return r if len(s) < 3000 else dict(truncated=s[:3000])
