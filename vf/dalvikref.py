"""Integer Dalvik methods for C21: abstract instructions (as spec/DalvikMachine.tla reads them), conversion to the
assembler's tuples, a plain reference interpreter, and a generator of structured methods.

abstract instruction = dict(op, a, b, c, lit, bytes, t, keys, tgts); t / tgts are 1-based instruction indices.
"""
import struct

from .dalvik_table import BY_NAME

ALU = ["add", "sub", "mul", "div", "rem", "and", "or", "xor", "shl", "shr", "ushr"]
LIT16 = ["add", "mul", "div", "rem", "and", "or", "xor"]
LIT8 = LIT16 + ["shl", "shr", "ushr"]
TESTS = ["eq", "ne", "lt", "ge", "gt", "le"]
M32, M64 = (1 << 32) - 1, (1 << 64) - 1


def ins(op, a=0, b=0, c=0, lit=0, bytes_=(), t=0, keys=(), tgts=()):
    return dict(op=op, a=a, b=b, c=c, lit=lit, bytes=list(bytes_), t=t, keys=[list(k) for k in keys], tgts=list(tgts))


def le(v, n):
    return list((v & ((1 << (8 * n)) - 1)).to_bytes(n, "little"))


def from_le(bs, signed=True):
    return int.from_bytes(bytes(bs), "little", signed=signed)


def s32(v):
    v &= M32
    return v - (1 << 32) if v >> 31 else v


def s64(v):
    v &= M64
    return v - (1 << 64) if v >> 63 else v


# ---------------- abstract -> assembler tuples ----------------
def to_asm(prog):
    """list of abstract instructions -> list of vf.asm tuples (labels L<i> in front of instruction i, payloads at the end)"""
    out, payloads = [], []
    targets = set()
    for i in prog:
        if i["t"]:
            targets.add(i["t"])
        targets.update(i["tgts"])
    for k, i in enumerate(prog, 1):
        if k in targets or i["op"].endswith("-switch"):
            out.append(("label", "L%d" % k))
        op = i["op"]
        fmt = BY_NAME[op][1]
        if fmt == "10x":
            out.append((op,))
        elif fmt == "12x" or fmt in ("22x", "32x"):
            out.append((op, i["a"], i["b"]))
        elif fmt in ("11n", "21s", "21h"):
            out.append((op, i["a"], i["lit"]))
        elif fmt == "11x":
            out.append((op, i["a"]))
        elif fmt in ("10t", "20t", "30t"):
            out.append((op, "L%d" % i["t"]))
        elif fmt == "21t":
            out.append((op, i["a"], "L%d" % i["t"]))
        elif fmt == "23x":
            out.append((op, i["a"], i["b"], i["c"]))
        elif fmt in ("22b", "22s"):
            out.append((op, i["a"], i["b"], i["lit"]))
        elif fmt == "22t":
            out.append((op, i["a"], i["b"], "L%d" % i["t"]))
        elif fmt == "31i":
            out.append((op, i["a"], from_le(i["bytes"])))
        elif fmt == "51l":
            out.append((op, i["a"], from_le(i["bytes"])))
        elif fmt == "31t":
            out.append((op, i["a"], "P%d" % k))
            keys = [from_le(x) for x in i["keys"]]
            tg = ["L%d" % t for t in i["tgts"]]
            if op == "packed-switch":
                payloads.append([("align4",), ("label", "P%d" % k), ("packed-payload", keys[0], tg, "L%d" % k)])
            else:
                payloads.append([("align4",), ("label", "P%d" % k), ("sparse-payload", list(zip(keys, tg)), "L%d" % k)])
        else:
            raise ValueError("format %s of %s" % (fmt, op))
    for p in payloads:
        out.extend(p)
    return out


# ---------------- reference interpreter ----------------
class Arith(Exception):
    pass


def alu(name, p, q, bits):
    mask = (1 << bits) - 1
    sp = p - (1 << bits) if p >> (bits - 1) else p
    sq = q - (1 << bits) if q >> (bits - 1) else q
    if name == "add":
        return (p + q) & mask
    if name == "sub":
        return (p - q) & mask
    if name == "mul":
        return (p * q) & mask
    if name in ("div", "rem"):
        if sq == 0:
            raise Arith()
        quo = abs(sp) // abs(sq)
        if (sp < 0) != (sq < 0):
            quo = -quo
        return (quo if name == "div" else sp - quo * sq) & mask
    if name == "and":
        return p & q
    if name == "or":
        return p | q
    if name == "xor":
        return p ^ q
    d = q & (bits - 1)
    if name == "shl":
        return (p << d) & mask
    if name == "shr":
        return (sp >> d) & mask
    if name == "ushr":
        return p >> d
    raise ValueError(name)


def holds(t, p, q):
    p, q = s32(p), s32(q)
    return dict(eq=p == q, ne=p != q, lt=p < q, ge=p >= q, gt=p > q, le=p <= q)[t]


def interpret(prog, nregs, first, argbytes, fuel=20000):
    """-> (outcome dict(kind, bytes, name), steps)"""
    regs = [0] * nregs
    for k in range(len(argbytes) // 4):
        regs[first + k] = from_le(argbytes[4 * k:4 * k + 4], signed=False)

    def gl(r):
        return regs[r] | (regs[r + 1] << 32)

    def sl(r, v):
        regs[r], regs[r + 1] = v & M32, (v >> 32) & M32
    pc, steps = 1, 0
    while True:
        if steps >= fuel:
            return dict(kind="fuel", bytes=[], name=""), steps
        i = prog[pc - 1]
        steps += 1
        op, a, b, c = i["op"], i["a"], i["b"], i["c"]
        nxt = pc + 1
        try:
            if op == "nop":
                pass
            elif op in ("move", "move/from16", "move/16"):
                regs[a] = regs[b]
            elif op in ("move-wide", "move-wide/from16", "move-wide/16"):
                sl(a, gl(b))
            elif op in ("const/4", "const/16"):
                regs[a] = i["lit"] & M32
            elif op == "const":
                regs[a] = from_le(i["bytes"], False)
            elif op == "const/high16":
                regs[a] = (i["lit"] << 16) & M32
            elif op == "const-wide/16":
                sl(a, i["lit"] & M64)
            elif op == "const-wide/32":
                sl(a, from_le(i["bytes"]) & M64)
            elif op == "const-wide":
                sl(a, from_le(i["bytes"], False))
            elif op == "const-wide/high16":
                sl(a, (i["lit"] << 48) & M64)
            elif op in ("rsub-int", "rsub-int/lit8"):
                regs[a] = (i["lit"] - regs[b]) & M32
            elif op.endswith("-int") and op[:-4] in ALU:
                regs[a] = alu(op[:-4], regs[b], regs[c], 32)
            elif op.endswith("-int/2addr"):
                regs[a] = alu(op[:-10], regs[a], regs[b], 32)
            elif op.endswith("-int/lit16"):
                regs[a] = alu(op[:-10], regs[b], i["lit"] & M32, 32)
            elif op.endswith("-int/lit8"):
                regs[a] = alu(op[:-9], regs[b], i["lit"] & M32, 32)
            elif op.endswith("-long") and op[:-5] in ALU:
                nm = op[:-5]
                sl(a, alu(nm, gl(b), regs[c] if nm in ("shl", "shr", "ushr") else gl(c), 64))
            elif op.endswith("-long/2addr"):
                nm = op[:-11]
                sl(a, alu(nm, gl(a), regs[b] if nm in ("shl", "shr", "ushr") else gl(b), 64))
            elif op == "neg-int":
                regs[a] = (-regs[b]) & M32
            elif op == "not-int":
                regs[a] = regs[b] ^ M32
            elif op == "neg-long":
                sl(a, (-gl(b)) & M64)
            elif op == "not-long":
                sl(a, gl(b) ^ M64)
            elif op == "int-to-long":
                sl(a, s32(regs[b]) & M64)
            elif op == "long-to-int":
                regs[a] = gl(b) & M32
            elif op == "int-to-byte":
                v = regs[b] & 0xFF
                regs[a] = (v - 256 if v >> 7 else v) & M32
            elif op == "int-to-short":
                v = regs[b] & 0xFFFF
                regs[a] = (v - 65536 if v >> 15 else v) & M32
            elif op == "int-to-char":
                regs[a] = regs[b] & 0xFFFF
            elif op == "cmp-long":
                p, q = s64(gl(b)), s64(gl(c))
                regs[a] = (0 if p == q else (-1 if p < q else 1)) & M32
            elif op.startswith("if-") and op.endswith("z"):
                if holds(op[3:-1], regs[a], 0):
                    nxt = i["t"]
            elif op.startswith("if-"):
                if holds(op[3:], regs[a], regs[b]):
                    nxt = i["t"]
            elif op in ("goto", "goto/16", "goto/32"):
                nxt = i["t"]
            elif op in ("packed-switch", "sparse-switch"):
                for kbytes, tg in zip(i["keys"], i["tgts"]):
                    if from_le(kbytes, False) == regs[a]:
                        nxt = tg
                        break
            elif op == "return":
                return dict(kind="value", bytes=le(regs[a], 4), name=""), steps
            elif op == "return-wide":
                return dict(kind="value", bytes=le(gl(a), 8), name=""), steps
            elif op == "return-void":
                return dict(kind="value", bytes=[], name=""), steps
            else:
                raise ValueError(op)
        except Arith:
            return dict(kind="exc", bytes=[], name="java.lang.ArithmeticException"), steps
        pc = nxt


# ---------------- generator of structured methods ----------------
class Gen:
    """One random structured static method over int / long locals.

    Registers: int locals, long locals (pairs), int temps, long temps, then the parameters (last registers).
    Every local is initialised before the body; loop counters are dedicated locals that the body never assigns."""

    def __init__(self, rnd, size=6):
        self.rnd = rnd
        self.size = size
        self.prog = []
        self.fix = []           # (instruction index, field, label)
        self.labels = {}
        self.nlabel = 0
        r = rnd
        self.sig = [r.choice("IIJ") for _ in range(r.randrange(0, 4))]
        self.ret = r.choice("IIJ")
        nI, nJ = r.randrange(1, 3), r.randrange(0, 2)
        while nI + 2 + 2 * nJ + 6 + sum(2 if t == "J" else 1 for t in self.sig) > 16:      # every register fits 4 bits
            self.sig.pop()
        nloops = 2
        reg = 0
        self.ivars, self.jvars, self.counters = [], [], []
        for _ in range(nI):
            self.ivars.append(reg)
            reg += 1
        for _ in range(nloops):
            self.counters.append(reg)
            reg += 1
        for _ in range(nJ):
            self.jvars.append(reg)
            reg += 2
        self.itmp = [reg, reg + 1]
        reg += 2
        self.jtmp = [reg, reg + 2]
        reg += 4
        self.first = reg
        self.iparams, self.jparams = [], []
        for t in self.sig:
            if t == "I":
                self.iparams.append(reg)
                reg += 1
            else:
                self.jparams.append(reg)
                reg += 2
        self.nregs = reg
        self.free_counters = list(self.counters)

    # -- emission helpers
    def emit(self, *a, **k):
        self.prog.append(ins(*a, **k))
        return len(self.prog)

    def label(self):
        self.nlabel += 1
        return self.nlabel

    def place(self, lb):
        self.labels[lb] = len(self.prog) + 1

    def branch(self, op, lb, a=0, b=0):
        k = self.emit(op, a=a, b=b)
        self.fix.append((k - 1, "t", lb))

    def const_i(self, reg, v):
        v = s32(v)
        if -8 <= v <= 7 and reg < 16 and self.rnd.random() < 0.7:
            self.emit("const/4", a=reg, lit=v)
        elif -32768 <= v <= 32767 and self.rnd.random() < 0.7:
            self.emit("const/16", a=reg, lit=v)
        elif v & 0xFFFF == 0 and self.rnd.random() < 0.8:
            self.emit("const/high16", a=reg, lit=s32(v) >> 16)
        else:
            self.emit("const", a=reg, bytes_=le(v, 4))

    def const_j(self, reg, v):
        v = s64(v)
        if -32768 <= v <= 32767 and self.rnd.random() < 0.7:
            self.emit("const-wide/16", a=reg, lit=v)
        elif -(1 << 31) <= v < (1 << 31) and self.rnd.random() < 0.7:
            self.emit("const-wide/32", a=reg, bytes_=le(v, 4))
        elif v & ((1 << 48) - 1) == 0 and self.rnd.random() < 0.8:
            self.emit("const-wide/high16", a=reg, lit=v >> 48)
        else:
            self.emit("const-wide", a=reg, bytes_=le(v, 8))

    def rand_i(self):
        r = self.rnd
        return r.choice([0, 1, -1, 2, 3, 5, 7, 10, 31, 32, 33, 100, 255, 256, -128, 127, 65535, -32768, 0x7FFFFFFF, -0x80000000, 0x12345678, r.randrange(-1000, 1000)])

    def rand_j(self):
        r = self.rnd
        return r.choice([0, 1, -1, 2, 63, 64, 65, 0xFFFFFFFF, 0x100000000, -0x80000000, 0x7FFFFFFFFFFFFFFF, -0x8000000000000000, 0x123456789ABCDEF, r.randrange(-10 ** 6, 10 ** 6)])

    # -- operands
    def int_operand(self, tmp):
        """a register holding an int value (variable, parameter, counter or a constant loaded into tmp)"""
        r = self.rnd
        pool = self.ivars + self.iparams + [c for c in self.counters if c not in self.free_counters]
        if pool and r.random() < 0.75:
            return r.choice(pool)
        self.const_i(tmp, self.rand_i())
        return tmp

    def long_operand(self, tmp):
        r = self.rnd
        pool = self.jvars + self.jparams
        if pool and r.random() < 0.7:
            return r.choice(pool)
        if r.random() < 0.4:
            self.emit("int-to-long", a=tmp, b=self.int_operand(self.itmp[0]))
            return tmp
        self.const_j(tmp, self.rand_j())
        return tmp

    # -- statements
    def assign_int(self, dst):
        r = self.rnd
        k = r.random()
        if k < 0.35:
            x, y = self.int_operand(self.itmp[0]), self.int_operand(self.itmp[1])
            self.emit(r.choice(ALU) + "-int", a=dst, b=x, c=y)
        elif k < 0.5:
            y = self.int_operand(self.itmp[1])
            if dst < 16 and y < 16:
                self.emit(r.choice(ALU) + "-int/2addr", a=dst, b=y)
            else:
                self.emit(r.choice(ALU) + "-int", a=dst, b=dst, c=y)
        elif k < 0.62:
            x = self.int_operand(self.itmp[0])
            nm = r.choice(LIT8 + ["rsub"])
            lit = r.choice([-128, -1, 0, 1, 2, 3, 7, 8, 31, 32, 33, 100, 127, r.randrange(-128, 128)])
            self.emit("rsub-int/lit8" if nm == "rsub" else nm + "-int/lit8", a=dst, b=x, lit=lit)
        elif k < 0.72:
            x = self.int_operand(self.itmp[0])
            nm = r.choice(LIT16 + ["rsub"])
            lit = r.choice([-32768, 32767, 255, 256, 1000, -1000, r.randrange(-32768, 32768)])
            if dst < 16 and x < 16:
                self.emit("rsub-int" if nm == "rsub" else nm + "-int/lit16", a=dst, b=x, lit=lit)
            else:
                self.emit("add-int", a=dst, b=x, c=x)
        elif k < 0.82:
            x = self.int_operand(self.itmp[0])
            op = r.choice(["neg-int", "not-int", "int-to-byte", "int-to-short", "int-to-char"])
            if dst < 16 and x < 16:
                self.emit(op, a=dst, b=x)
            else:
                self.emit("move/from16", a=dst, b=x)
        elif k < 0.9:
            x = self.long_operand(self.jtmp[0])
            if dst < 16 and x < 16:
                self.emit("long-to-int", a=dst, b=x)
            else:
                self.const_i(dst, self.rand_i())
        elif k < 0.95:
            x, y = self.long_operand(self.jtmp[0]), self.long_operand(self.jtmp[1])
            self.emit("cmp-long", a=dst, b=x, c=y)
        else:
            self.const_i(dst, self.rand_i())

    def assign_long(self, dst):
        r = self.rnd
        k = r.random()
        if k < 0.45:
            nm = r.choice(ALU)
            x = self.long_operand(self.jtmp[0])
            y = self.int_operand(self.itmp[1]) if nm in ("shl", "shr", "ushr") else self.long_operand(self.jtmp[1])
            self.emit(nm + "-long", a=dst, b=x, c=y)
        elif k < 0.65:
            nm = r.choice(ALU)
            y = self.int_operand(self.itmp[1]) if nm in ("shl", "shr", "ushr") else self.long_operand(self.jtmp[1])
            if dst < 16 and y < 16:
                self.emit(nm + "-long/2addr", a=dst, b=y)
            else:
                self.emit(nm + "-long", a=dst, b=dst, c=y)
        elif k < 0.8:
            x = self.long_operand(self.jtmp[0])
            if dst < 16 and x < 16:
                self.emit(r.choice(["neg-long", "not-long"]), a=dst, b=x)
            else:
                self.emit("move-wide/from16", a=dst, b=x)
        elif k < 0.9:
            x = self.int_operand(self.itmp[0])
            if dst < 16 and x < 16:
                self.emit("int-to-long", a=dst, b=x)
            else:
                self.const_j(dst, self.rand_j())
        else:
            self.const_j(dst, self.rand_j())

    def assign(self):
        if self.jvars and self.rnd.random() < 0.35:
            self.assign_long(self.rnd.choice(self.jvars))
        else:
            self.assign_int(self.rnd.choice(self.ivars))

    def simple_cond(self, false_lb, negate=False):
        """emit a test that jumps to false_lb when the condition is false (negate: when it is true)"""
        r = self.rnd
        t = r.choice(TESTS)
        inv = dict(eq="ne", ne="eq", lt="ge", ge="lt", gt="le", le="gt")
        jump_test = t if negate else inv[t]
        k = r.random()
        if k < 0.45:
            x, y = self.int_operand(self.itmp[0]), self.int_operand(self.itmp[1])
            if x < 16 and y < 16:
                self.branch("if-" + jump_test, false_lb, a=x, b=y)
                return
            self.branch("if-" + jump_test + "z", false_lb, a=x)
        elif k < 0.75:
            x = self.int_operand(self.itmp[0])
            self.branch("if-" + jump_test + "z", false_lb, a=x)
        else:
            x, y = self.long_operand(self.jtmp[0]), self.long_operand(self.jtmp[1])
            self.emit("cmp-long", a=self.itmp[0], b=x, c=y)
            self.branch("if-" + jump_test + "z", false_lb, a=self.itmp[0])

    def cond(self, false_lb):
        """simple, conjunction or disjunction, falling through when true"""
        k = self.rnd.random()
        if k < 0.55:
            self.simple_cond(false_lb)
        elif k < 0.8:                       # c1 && c2
            self.simple_cond(false_lb)
            self.simple_cond(false_lb)
        else:                               # c1 || c2
            true_lb = self.label()
            self.simple_cond(true_lb, negate=True)
            self.simple_cond(false_lb)
            self.place(true_lb)

    def ret_stmt(self):
        if self.ret == "I":
            self.emit("return", a=self.int_operand(self.itmp[0]))
        else:
            self.emit("return-wide", a=self.long_operand(self.jtmp[0]))

    def block(self, depth, n):
        for _ in range(n):
            self.stmt(depth)

    def stmt(self, depth):
        r = self.rnd
        k = r.random()
        if depth >= 2 or k < 0.5:
            self.assign()
        elif k < 0.7:
            else_lb, end_lb = self.label(), self.label()
            self.cond(else_lb)
            self.block(depth + 1, r.randrange(1, 3))
            if r.random() < 0.2:
                self.ret_stmt()
                self.place(else_lb)
                if r.random() < 0.5:
                    self.block(depth + 1, 1)
                self.place(end_lb)
                self.assign()
                return
            if r.random() < 0.5:
                self.branch("goto", end_lb)
                self.place(else_lb)
                self.block(depth + 1, r.randrange(1, 3))
                self.place(end_lb)
            else:
                self.place(else_lb)
                self.place(end_lb)
            self.assign()
        elif k < 0.87 and self.free_counters:
            c = self.free_counters.pop()
            top, end = self.label(), self.label()
            bound = r.randrange(1, 5)
            self.emit("const/4", a=c, lit=0)
            self.place(top)
            self.const_i(self.itmp[0], bound)
            self.branch("if-ge", end, a=c, b=self.itmp[0])
            self.block(depth + 1, r.randrange(1, 3))
            self.emit("add-int/lit8", a=c, b=c, lit=1)
            self.branch("goto", top)
            self.place(end)
            self.free_counters.append(c)
            self.assign()
        else:
            x = self.rnd.choice(self.ivars + self.iparams)
            ncase = r.randrange(2, 4)
            packed = r.random() < 0.5
            base = r.choice([0, 1, -1, 10])
            keys = [base + j for j in range(ncase)] if packed else sorted(r.sample([-5, 0, 3, 7, 100, 1000, -1000], ncase))
            case_lbs = [self.label() for _ in keys]
            end = self.label()
            sw = self.emit("packed-switch" if packed else "sparse-switch", a=x, keys=[le(kv, 4) for kv in keys])
            for lb in case_lbs:
                self.fix.append((sw - 1, "tgts", lb))
            self.block(depth + 1, 1)        # default
            self.branch("goto", end)
            for lb in case_lbs:
                self.place(lb)
                self.block(depth + 1, 1)
                self.branch("goto", end)
            self.place(end)
            self.assign()

    def build(self):
        for v in self.ivars:
            self.const_i(v, self.rand_i())
        for c in self.counters:
            self.emit("const/4", a=c, lit=0)
        for v in self.jvars:
            self.const_j(v, self.rand_j())
        self.block(0, self.size)
        self.ret_stmt()
        for k, field, lb in self.fix:
            if field == "t":
                self.prog[k]["t"] = self.labels[lb]
            else:
                self.prog[k]["tgts"].append(self.labels[lb])
        return dict(prog=self.prog, nregs=self.nregs, first=self.first, sig=self.sig, ret=self.ret)
