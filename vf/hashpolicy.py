"""Deterministic stand-in for 'memory layout': objects of the decompiler that hash by identity (nodes, intervals, IR
variables) get a hash derived from (seed, creation serial) while a policy is active.  Different seeds produce different
iteration orders of every set / dict keyed by such objects, exactly what different allocation addresses do across processes."""
import contextlib
import itertools

_state = dict(seed=None, counter=None)
MASK = (1 << 61) - 1


def _policy_hash(self):
    s = _state["seed"]
    if s is None:
        return object.__hash__(self)
    d = self.__dict__
    n = d.get("_vh_serial")
    if n is None:
        n = d["_vh_serial"] = next(_state["counter"])
    # an odd multiplier depending on the seed scrambles the low bits that index hash tables
    return ((n + 1) * (2 * s * 0x9E3779B97F4A7C15 + 0x632BE59BD9B4E019 | 1) ^ (s * 0x5851F42D4C957F2D)) & MASK


def classes():
    from androguard.decompiler import basic_blocks, instruction, node
    out = [node.Node, node.Interval, instruction.IRForm]
    return out


@contextlib.contextmanager
def policy(seed):
    cls = classes()
    old = [(c, c.__dict__.get("__hash__")) for c in cls]
    for c in cls:
        c.__hash__ = _policy_hash
    _state["seed"] = seed
    _state["counter"] = itertools.count()
    try:
        yield
    finally:
        _state["seed"] = None
        for c, h in old:
            if h is None:
                del c.__hash__
            else:
                c.__hash__ = h
