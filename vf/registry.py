"""Per-property metadata -> MANIFEST.json.  Run: /venv/bin/python -m vf.registry"""
import json
import os

ROOT = os.path.dirname(os.path.dirname(os.path.abspath(__file__)))

# pid -> dict(spec=[modules], text=level text, note=trusted base, technique=..., ref=DESIGN section)
CLAIMED = {
    "C01": dict(
        spec=["DalvikFormat", "DalvikFormatMC", "DalvikFormat_Trace", "DalvikTable"],
        text="DalvikFormat.tla defines, from the Dalvik documents, length/mnemonic/registers/literal (sign-extended, high16 shifted)/branch offset/"
             "pool indices of every instruction format and the inverse Encode; TLC checks Encode(Decode(u)) = u and shape invariants on every opcode x "
             "boundary (thorough: every) high byte x 15 operand tails; each enumerated state is replayed into get_instruction and compared field by field "
             "(get_length, get_name, get_raw, get_operands, get_literals, get_ref_off, get_ref_kind, InvalidInstruction for unused opcodes); "
             "all 65536 first code units with random tails are decoded by the real code and validated record by record by DalvikFormat_Trace.",
        note="Trusted: the harness' transcription of the opcode table (vf/dalvik_table.py, generated into DalvikTable.tla), TLC, the projection of Instruction objects. "
             "Stub ClassManager: pool contents are placeholders. Argument counts 6..15 of 35c/45cc and a non-zero 00 byte are out of domain.",
        technique="TLA+ spec of the Dalvik formats model-checked with TLC; enumerated states replayed into the decoder; decoder records validated by a TLA+ trace spec",
        ref="4/C01"),
    "C02": dict(
        spec=["LinearSweep", "LinearSweepMC", "LinearSweep_Trace", "DalvikFormat"],
        text="LinearSweep.tla is the sweep loop as a transition system (cursor, emitted items, status; payload lengths from their headers). TLC checks "
             "Inside/Tiling/CursorRight invariants, strict progress and termination (liveness under weak fairness) on every code array of <= 4 (thorough: 5) units "
             "over a 15-unit alphabet, and Sweep(Assemble(l)) = l on every list of <= 3 (4) descriptors out of 17 valid instructions/payloads; every final state "
             "is replayed into LinearSweepAlgorithm and DCode; real executions (generated valid streams over all opcodes incl. 0xfe/0xff with any register byte "
             "and random payloads, their mutations and truncations, random buffers, methods of the shipped DEX files) are validated event by event "
             "(begin/emit/end, offsets, lengths, re-encoding, off_to_pos, get_ins_off) by LinearSweep_Trace.",
        note="Trusted: the opcode table transcription, TLC, the event logger in vf/props/c02.py. Non-ODEX only. First units with a non-zero 00 byte / argument count > 5 may be emitted or rejected.",
        technique="TLA+ transition-system spec model-checked with TLC (safety + liveness); final states replayed into the code; execution traces validated by a TLA+ trace spec",
        ref="4/C02"),
    "C04": dict(
        spec=["EncodedValue", "EncodedValueMC", "EncodedValue_Trace"],
        text="EncodedValue.tla defines the value of an encoded_value from its type and its value_arg+1 little-endian bytes (sign extension for BYTE/SHORT/INT/LONG, "
             "zero extension for CHAR and pool indices, BOOLEAN in value_arg); TLC checks range/sign invariants on every integer type x legal width x boundary "
             "byte patterns; every enumerated case is placed in generated DEX files both as a static-field initialiser and as an annotation element and compared with "
             "EncodedField.get_init_value().get_value(), the annotation element value and the initialiser printed by the decompiler (DvClass.get_source); "
             "random nested arrays/annotations/references/booleans/nulls are validated leaf by leaf by EncodedValue_Trace.",
        note="Trusted: the independent DEX writer vf/dexgen.py, TLC, the leaf flattening of the harness. FLOAT/DOUBLE are outside the statement.",
        technique="TLA+ definitions model-checked with TLC; enumerated cases replayed through generated DEX files; parsed leaves validated by a TLA+ trace spec",
        ref="4/C04"),
    "C05": dict(
        spec=["DexModel", "DexModelMC", "DexModel_Trace"],
        text="DexModel.tla computes what a DEX file declares from an abstract class model: sorted field/method id tables (defined and merely referenced members), "
             "class_data member lists with their index differences, the running-sum decoder (shaped like _load_elements), and the expected result of every lookup helper. "
             "TLC checks layout invariants (sortedness, first diff >= 0, later diffs > 0, decode = ids) and lookup consistency on every member set within the bounds; "
             "sampled (thorough: all of a medium instance) states are realised by the independent writer, cross-checked with the spec's layout, parsed by DEX and compared "
             "(classes, super, interfaces, flags, source, fields, methods, code presence, register counts, code bytes, idx diffs, 7 lookup helpers); random models with up to 40 "
             "classes are validated by DexModel_Trace (reported sets and lookups recomputed by the spec).",
        note="Trusted: vf/dexgen.py (its id tables are cross-checked against the spec's), TLC, the projection. Generated files are well formed.",
        technique="TLA+ model of the declared structure checked with TLC; states replayed as generated DEX files; parser reports validated by a TLA+ trace spec",
        ref="4/C05"),
    "C06": dict(
        spec=["Mutf8", "Mutf8MC", "Mutf8_Trace"],
        text="Mutf8.tla defines MUTF-8 encoding/decoding per code unit; Mutf8MC checks Dec(Enc(s)) = s, absence of NUL bytes, a byte-wise decoder machine, and the 128-byte chunked "
             "NUL scan (read_null_terminated_string) as a transition system with exact length/cursor and termination; enumerated strings are placed in generated DEX files "
             "(pool, field names, const-string) and compared through get_strings / ClassManager.get_string / get_raw_string / utf16_size; every scan state is replayed into "
             "the real function; random strings over the full code-point range (lone surrogates, non-BMP, U+0000) are validated by Mutf8_Trace.",
        note="Trusted: vf/dexgen.py's MUTF-8 encoder (checked equal to the spec's Enc on the enumerated strings), TLC. The EOF-without-NUL case belongs to C35.",
        technique="TLA+ codec + scan state machine model-checked with TLC; states replayed into the code; decoded strings validated by a TLA+ trace spec",
        ref="4/C06"),
    "C07": dict(
        spec=["MapLoad", "MapLoad_Trace"],
        text="MapLoad.tla is the map-list scheduler (stable sort by load rank, parse one entry at a time, consults of other tables) as a transition system. The harness injects the "
             "implementation's own determine_load_order() and the consult relation observed on the running parser, and TLC checks, for all 7! permutations of a generated file's "
             "entries, ConsultOnlyLoaded, SameSequence, RankInjective and termination. Every permutation is also parsed end to end (result must equal the unpermuted parse); "
             "rotations, swaps, reversal and random permutations of rich generated and shipped files are parsed with MapItem.parse / add_type_item / the ClassManager tables "
             "instrumented from the harness, and the begin/parse/consult/loaded/end traces are validated by MapLoad_Trace.",
        note="Trusted: the harness-side instrumentation (LogDict), the projection used for 'same parse', TLC.",
        technique="TLA+ scheduler spec instantiated with the implementation's constants and model-checked with TLC; permuted files parsed; parser traces validated by a TLA+ trace spec",
        ref="4/C07"),
    "C08": dict(
        spec=["TryTable", "TryTableMC", "TryTable_Trace"],
        text="TryTable.tla defines the layout of try_items and the encoded_catch_handler_list (sleb size, uleb pairs, byte offsets, padding for odd instruction counts) and the "
             "exception table to be reported; TLC checks alignment/offset/shape invariants on all tables with 1-2 (3) tries x 1-2 handler lists x typed/catch-all variants x odd/even "
             "code sizes; sampled states are realised in generated DEX files and compared with determineException, get_tries and get_handlers; random larger tables are validated by TryTable_Trace.",
        note="Trusted: vf/dexgen.py, TLC. Order between ranges is not part of the property (bag comparison).",
        technique="TLA+ layout/report definitions model-checked with TLC; states replayed as generated code items; reports validated by a TLA+ trace spec",
        ref="4/C08"),
    "C09": dict(
        spec=["DexHeader", "DexHeaderMC", "DexHeader_Trace"],
        text="DexHeader.tla gives the verdict for every combination of corruption classes (length, endian tag, magic shape, checksum, header size) and defines Adler-32; TLC checks the "
             "single-byte lemma (any one-byte change changes the checksum) on all short buffers and that only clean headers are accepted; each class vector is realised on generated files "
             "and DEX(...) must raise before MapList is entered; every offset >= 12 of three generated files is changed (5 alternatives, thorough: all 255) and random magic/endian/"
             "header-size values are tried; all constructor outcomes are validated by DexHeader_Trace.",
        note="Trusted: zlib.adler32 equals the spec's Adler (checked on the enumerated buffers), the MapList.__init__ wrapper as 'before any structure is parsed'. Version digits are not part of the magic shape.",
        technique="TLA+ decision procedure + Adler-32 lemma model-checked with TLC; corruption classes and byte sweeps replayed into the constructor; outcomes validated by a TLA+ trace spec",
        ref="4/C09"),
    "C03": dict(
        spec=["Leb", "LebReader", "LebExpect", "Leb_Trace"],
        text="TLC checks on the bounded LebReader model (all byte sequences of length 1-2 over a byte alphabet, boundary bytes for lengths 3-5, "
             "every in-domain fifth byte) that the byte-by-byte reader yields the value defined by the payload bits, that two independent "
             "definitions agree, that canonical encoders round-trip and are minimal, and that the reader terminates; every enumerated state is "
             "replayed into readuleb128/readuleb128p1/readsleb128 (value and bytes consumed), and random decode/encode calls of the real "
             "functions are validated record by record by the trace specification Leb_Trace.",
        note="Trusted: TLC, the TLA+ value parser of the harness, the projection int -> 16-bit limbs. Five-byte inputs with overflow bits are out of domain.",
        technique="TLA+ spec (Leb) model-checked with TLC; spec states replayed into the code; code records validated by a TLA+ trace spec",
        ref="4/C03"),
}

_CFG_NOTE = ("Trusted: the harness' own decoder (vf/dalvik_table.py, vf/cfgobs.py abstract_from_units) and bytecode realiser, TLC, the block projection. "
             "Branches into the middle of an instruction and payload references that are not payloads are out of domain (skipped, counted).")
_CFG_TECH = "TLA+ spec of block construction (actions) with the property as invariants, model-checked with TLC; enumerated methods realised as bytecode; reported blocks validated by a TLA+ trace spec"


def _cfg(pid, what):
    return dict(
        spec=["MethodCFG", "MethodCFGMC", "MethodCFG_Trace"],
        text="MethodCFG.tla states " + what + " as predicates over (method, block list) and gives the block-construction algorithm as actions (leaders, one block per Scan step, "
             "wire, attach); TLC checks the predicates as invariants of the algorithm's final state on every method of <= 3 abstract instructions (plain, goto, if, packed-switch, "
             "fill-array-data, return, throw; every target assignment) x every single try range (thorough: 4 instructions, two adjacent ranges), with termination. The enumerated methods "
             "are realised as bytecode in generated DEX files; MethodAnalysis' blocks (start, end, instruction offsets, childs, fathers, exception analysis, special_ins) of those, of "
             "random longer methods (sparse switches, goto/32, several handlers, mis-aligned payloads) and of the methods of shipped DEX files are judged by TLC evaluating the same predicates "
             "in MethodCFG_Trace.",
        note=_CFG_NOTE, technique=_CFG_TECH, ref="4/C10-C12,C40")


CLAIMED["C10"] = _cfg("C10", "the partition / leader / only-last-instruction-branches rules")
CLAIMED["C11"] = _cfg("C11", "successor exactness (fall-through, taken branch, every switch case, none after return/throw) and predecessor = inverse")
CLAIMED["C12"] = _cfg("C12", "exception coverage (a block reports a try range iff the range covers one of its instructions, with the handler blocks)")
CLAIMED["C40"] = _cfg("C40", "agreement of block, child/father and payload-link offsets with the disassembler's instruction offsets and the exact payload-link rule")
CLAIMED["C40"]["spec"] = ["MethodCFG", "MethodCFGMC", "MethodCFG_Trace", "Xref_Trace"]
CLAIMED["C40"]["text"] += " Cross-reference offsets (method, field, string, class xrefs) are checked to be instruction offsets of the referencing method by the xref driver (Xref_Trace clause C40.xref-offsets)."

_XREF_NOTE = ("Trusted: vf/dexgen.py + vf/asm.py (independent writer/assembler), TLC, the projection of Analysis objects. Known findings are recognised only when the observation "
              "equals the specification evaluated under a named deviation (D1/D2 in Xref_Trace.tla).")
_XREF_TECH = "TLA+ transition system of add()/create_xref() model-checked with TLC (all instruction choices x DEX splits x add orders); final states replayed as generated DEX files; Analysis output validated by a TLA+ trace spec"


def _xref(what):
    return dict(
        spec=["Xref", "XrefMC", "Xref_Trace"],
        text="Xref.tla models Analysis.add / create_xref as actions (Add per DEX, XrefMethod per method) over a universe with internal, undefined, external, array-class and primitive-array "
             "targets and defines by set comprehension what the properties demand (" + what + "); TLC checks exactness and order independence (final state = canonical state for every split "
             "and add order) and termination. Sampled (thorough: 1/6 of a larger instance) final states are realised as DEX files (one or two files, both add orders), analysed by the real Analysis "
             "and compared with the TLC state; those records and random programs (<= 30 classes, overloads, all invoke kinds and /range forms, i/s get/put variants, jumbo strings, 1-4 DEX files, "
             "every add order) are validated by Xref_Trace, which recomputes every expected set; the two oracles must agree record by record.",
        note=_XREF_NOTE, technique=_XREF_TECH, ref="4/C13-C16")


CLAIMED["C13"] = _xref("callee edges with offsets, the mirror-image caller lists, call-graph edges, one shared external stub per (class, name, descriptor)")
CLAIMED["C14"] = _xref("reads/writes recorded on the FieldAnalysis returned for the accessed field, listed by the accessing method, one FieldAnalysis per defined field")
CLAIMED["C15"] = _xref("const-string xrefs per string, new-instance and const-class lists per class and per method")
CLAIMED["C16"] = _xref("the projection of classes, methods, fields, strings and all xrefs being identical to the single-DEX analysis for every split and add order")


def _simple(spec, text, note, tech, ref):
    return dict(spec=spec, text=text, note=note, technique=tech, ref=ref)


CLAIMED["C17"] = _simple(["Rename", "Rename_Trace"],
    "Rename.tla holds two models advanced by the same actions: RenameDict (the property: a dictionary item -> last name given to that very item, constants untouched) and "
    "RenameHook (shaped like the code: hook table keyed by string id, id-item and encoded-item caches, reload cascade of a class rename). TLC checks the dictionary invariants and that the "
    "hook model deviates only through shared string ids on all histories of <= 3 (4) operations, and produces the refinement counterexample. Every enumerated history is replayed on fresh DEX "
    "objects of a generated universe (two methods, a field and a const-string sharing one string id, a class descriptor shared with a const-string); after each operation the names of all items "
    "are observed and the histories (plus long random ones on the generated universe and on the shipped classes.dex) are validated step by step by Rename_Trace against the dictionary model.",
    "Trusted: vf/dexgen.py, TLC, the projection of names to (original / k-th new name). The recorded known finding is matched only when the observed name was assigned through another item sharing the string id.",
    "TLA+ dictionary model vs implementation-shaped hook model checked with TLC (refinement counterexample); histories replayed on real objects; per-step trace validation", "4/C17")
CLAIMED["C18"] = _simple(["Dominators", "DominatorsMC", "Dominators_Trace"],
    "Dominators.tla defines dominance by path removal and the immediate dominator; TLC checks on every rooted digraph with <= 3 (thorough: 4, 38 912 graphs) nodes incl. self loops that the "
    "definition yields a tree, is antisymmetric and agrees with a second formulation; each enumerated graph is given to the decompiler's Graph (normal and catch edges) and dom_lt's result compared; "
    "all 1-2-node graphs, 4-node graphs (sampled in quick), 5-node random graphs (thorough) and random graphs of 6-300 nodes (irreducible, self loops, dense/sparse) are validated by Dominators_Trace, "
    "which recomputes the dominator tree by definition.",
    "Trusted: TLC, the Node/Graph construction of the harness. Rooted = every node reachable.",
    "TLA+ definition of dominators model-checked with TLC; enumerated graphs replayed into dom_lt; results validated by a TLA+ trace spec", "4/C18")
CLAIMED["C19"] = _simple(["Dominators", "DominatorsMC", "Dominators_Trace"],
    "Dominators.tla defines the set of back-edge sets of all depth-first searches of a graph (DfsStep) and ValidRPO: entry = 1, a bijection onto 1..n and some search whose non-back edges all go "
    "upwards (the statement read literally); TLC checks that a search exists for every enumerated graph; compute_rpo's numbering of every enumerated / sampled graph with <= 5 nodes is judged by "
    "ValidRPO in Dominators_Trace, larger random graphs by the search-independent consequence (edges between different strongly connected components go upwards).",
    "Trusted: TLC, the harness' graph construction. Another correct numbering scheme is accepted (no particular search is demanded).",
    "TLA+ definition (exists a DFS explaining the numbering) evaluated by TLC on the implementation's numbering of enumerated and random graphs", "4/C19")
CLAIMED["C20"] = _simple(["ReachDef", "ReachDefMC", "ReachDef_Trace"],
    "ReachDef.tla defines use-def chains by paths without an intervening redefinition (parameters as definitions before the entry); ReachDefMC runs the worklist algorithm of BasicReachDef "
    "(R, A, DB, kill sets) as TLC actions and checks that its fixpoint equals the path definition and that it terminates, on every rooted digraph of 2 nodes x <= 2 statements (thorough: 3 nodes) over 6 "
    "statement kinds and 2 registers. Sampled final states are rebuilt as real Graphs with statement nodes and given to dataflow.build_def_use (UD compared, DU must be its inverse); those, random graphs "
    "(<= 30 nodes, catch edges, 4 registers) and the graphs of shipped methods captured at the decompiler's own call of build_def_use are validated by ReachDef_Trace.",
    "Trusted: TLC, the mock statement objects, the capture wrapper (registers renumbered).",
    "TLA+ path definition + worklist algorithm as actions model-checked with TLC; graphs replayed into build_def_use; chains validated by a TLA+ trace spec", "4/C20")
CLAIMED["C22"] = _simple(["Intervals", "Determinism_Trace"],
    "Intervals.tla models interval partition, Interval.compute_end, the derived graph and the latch of second-level loops with the iteration order of the identity-hashed set as nondeterministic choice; "
    "TLC computes for every rooted CFG on 4 (5) nodes the set of possible latch maps: with set order it is not a singleton (counterexample graphs), with iteration by reverse-post-order number it is. "
    "The order-sensitive graphs of the model (and a sample of the others) are realised as bytecode and decompiled under 8 (24) identity-hash policies (vf/hashpolicy.py gives nodes, intervals and IR variables "
    "a seed-dependent hash, i.e. a deterministic stand-in for memory layout); shipped methods are decompiled under the policies and in fresh processes with different PYTHONHASHSEED, allocation offsets and "
    "method orders; all digests per method must be equal (Determinism_Trace).",
    "Trusted: the hash policy as a faithful stand-in for allocation-address variation; TLC. The model covers compute_end / latch selection; the other iteration sites are covered differentially only.",
    "TLA+ model with iteration order as nondeterminism (TLC enumerates order-sensitive graphs); those graphs and real methods decompiled under controlled identity hashes and in fresh processes", "4/C22")
CLAIMED["C23"] = _simple(["JavaLiteral", "JavaLiteralMC", "JavaLiteral_Trace"],
    "JavaLiteral.tla is Java's reading of a string literal (Unicode-escape pre-pass with backslash parity and multiple u, escape sequences incl. octal, raw line terminators and early quotes as errors) and a "
    "reference writer; TLC checks Lex(Write(s)) = s on unit strings over boundary units, totality on all texts of <= 5 (6) characters over a lexically interesting alphabet, and spot checks. writer.string() is "
    "called for the enumerated strings, all 65 536 one-unit strings and random strings over the full range (pairs, lone surrogates); JavaLiteral_Trace demands Lex(literal) = code units of the string. "
    "In every run the lexer specification itself is validated against javac 17 + the JVM on a sample of androguard's literals and hand-made escape torture literals.",
    "Trusted: TLC; javac/JVM as the ground truth that validates the lexer spec.",
    "TLA+ lexer specification (validated against javac) evaluated by TLC on the literals the implementation writes", "4/C23")
CLAIMED["C24"] = _simple(["TypeName", "TypeNameMC", "TypeName_Trace"],
    "TypeName.tla defines the set of admissible Java names of a descriptor (primitive keywords, dotted class names, the java.lang. prefix optional only for direct members, [] per dimension); TLC enumerates "
    "all class descriptors of <= 3 (4) segments over {java, lang, language, javax, annotation, invoke, Foo, a} x 0-2 (3) dimensions and the primitives; every state is replayed into decompiler.util.get_type and "
    "dex.get_type and a sample into DvClass.get_source() (field, parameter and return types of a generated class); random descriptors are validated by TypeName_Trace.",
    "Trusted: TLC string concatenation, vf/dexgen.py, the regular expressions reading types out of the printed class.",
    "TLA+ definition of admissible names; TLC-enumerated descriptors replayed into the renderers; renderings validated by a TLA+ trace spec", "4/C24")
CLAIMED["C25"] = _simple(["ShortCircuit", "ShortCircuit_Trace"],
    "ShortCircuit.tla models condition graphs with expression objects shaped like Condition / CondBlock (isand, isnot, neg()), the four merge rules of short_circuit_struct with their side conditions and the "
    "writer's negate-and-swap as actions, and the printed form (isnot negates cond1 while printing); TLC checks on all chain graphs of 2 and 3 condition nodes over 3 exits, for every sequence of actions, that "
    "the exit reached for every truth assignment never changes (28 035 states for 3 nodes). The same graphs (4-node chains in thorough) are built from real CondBlocks, merged by short_circuit_struct and printed "
    "by Writer with every (quick: sampled) subset of nodes negated while writing; the parsed printed conditions are routed by ShortCircuit_Trace for all assignments against the original chain.",
    "Trusted: TLC, the mock comparison instructions, the parser of the printed condition.",
    "TLA+ rewriting system with semantic-invariance invariant model-checked with TLC; same graphs run through the real merger and writer; printed conditions evaluated by a TLA+ trace spec", "4/C25")
CLAIMED["C36"] = _simple(["SessionDB", "SessionDB_Trace"],
    "SessionDB.tla models processes x {Count, Insert} on a table with a primary key; TLC explores all interleavings of 2 and 3 sessions: with the retrying insert AllCreated, DistinctIds and EveryoneFinishes "
    "(liveness under weak fairness) hold, the count-then-insert variant yields the counterexample schedule. Every complete schedule of 2 sessions and 80 sampled (thorough: all) of 3 sessions is imposed on real "
    "forked processes creating Session objects on one SQLite file (dataset's row count and insert of table 'session' gated by the parent); the event traces are validated by SessionDB_Trace, which advances the "
    "model's table and evaluates the property at the end of each schedule.",
    "Trusted: the gating of dataset.Table.__len__/insert as the linearization points, TLC. Table creation on an empty database is outside the modelled steps.",
    "TLA+ interleaving model checked with TLC (safety + liveness); every schedule replayed with real OS processes; event traces validated by a TLA+ trace spec", "4/C36")
CLAIMED["C37"] = _simple(["PathSandbox", "PathSandbox_Trace"],
    "PathSandbox.tla models POSIX resolution of relative paths and the exporter's naming of class directories, .java files and method files in two modes (unchecked split, guarded); TLC shows the unchecked naming "
    "leaves the output directory (counterexample) and the guarded one never does, on all class names of <= 4 segments over {a, .., ., '', long} x method names of <= 2 pieces. Sampled enumerated names and sharp "
    "hand-picked ones are put into generated DEX files and exported by the real export_apps_to_format into a sandbox seven directory levels deep; every created path is collected by tree comparison and validated by PathSandbox_Trace.",
    "Trusted: vf/dexgen.py, the directory-tree comparison, TLC. An export stopping with an exception is judged on what it created.",
    "TLA+ path-resolution model checked with TLC; enumerated names exported by the real command in a sandbox; created paths validated by a TLA+ trace spec", "4/C37")
CLAIMED["C38"] = _simple(["CleanName", "CleanNameMC", "CleanName_Trace"],
    "CleanName.tla states the clauses of the property as predicates over run-length encoded names (character classes reserved / control / separator / space / dot / plain) and a reference cleaner; TLC checks on all "
    "names of <= 3 (4) runs with lengths at the 230 boundary that the clauses are jointly satisfiable and clean names are kept. Sampled enumerated names (with and without uniqueness, with colliding files present) and "
    "random names of 0..600 characters are passed to clean_file_name in a scratch directory; each result is judged clause by clause by CleanName_Trace.",
    "Trusted: the classification of characters, the scratch-directory set-up, TLC. Control = U+0000..U+001F.",
    "TLA+ predicates + reference cleaner model-checked with TLC; enumerated and random names replayed into the function; results validated by a TLA+ trace spec", "4/C38")
CLAIMED["C39"] = _simple(["ApiLevels", "ApiLevels_Trace"],
    "ApiLevels.tla defines Pick / PickMapping and the loader's re-request chain as an action; TLC checks for every non-empty level set within 1..8 and every request in -2..10 that the chain loads exactly the Pick in "
    "at most one hop, that Pick is available and monotone, and termination. Every request -5..100 as int and as str is sent to load_permissions (permissions, groups) and load_api_specific_resource_module "
    "(permissions, mappings); the returned data are identified with the level file(s) of equal content and validated by ApiLevels_Trace against the real directory listing.",
    "Trusted: identification of loaded data by file content, TLC.",
    "TLA+ fallback definition + loader action model-checked with TLC; every request replayed; loaded level validated by a TLA+ trace spec", "4/C39")

try:                                    # later batches live in their own module
    from . import registry2 as _r2
    CLAIMED.update(_r2.CLAIMED)
except ImportError:
    pass

NOT_YET = "check not built yet in this session (planned in DESIGN.md section 4)"


def build():
    ids = []
    with open(os.path.join(ROOT, "properties.jsonl")) as f:
        for line in f:
            if line.strip():
                ids.append(json.loads(line)["id"])
    checks = []
    engines = []
    for pid in ids:
        if pid not in CLAIMED:
            continue
        c = CLAIMED[pid]
        checks.append(dict(
            property_id=pid,
            quick_cmd="./check %s --tier quick" % pid,
            thorough_cmd="./check %s --tier thorough" % pid,
            evidence_file="/verif/evidence/%s.json" % pid,
            replay_cmd_template="./check %s --replay {path}" % pid,
            engine="tlc+" + "+".join(c["spec"][:2]),
            level_claimed=dict(category=c.get("category", "model_checking"), text=c["text"], design_ref=c.get("ref", "4")),
            level_note=c["note"],
            technique=c["technique"]))
        engines.append(dict(name="tlc+" + "+".join(c["spec"][:2]), path="/verif/spec/%s.tla" % c["spec"][0], serves_properties=[pid],
                            kind_free_text="TLA+ modules %s checked by TLC 1.8; bound to /repo by vf/props/%s.py" % (", ".join(c["spec"]), pid.lower())))
    try:                                    # specification modules beyond the listed properties (run with ./check Xnn; never a VIOLATION line)
        from . import registry2 as _r2x
        for e in getattr(_r2x, "EXTENSIONS", []):
            engines.append(dict(name=e["name"], path=e["path"], serves_properties=[], kind_free_text=e["text"]))
    except ImportError:
        pass
    na = [dict(property_id=p, reason=NA.get(p, NOT_YET)) for p in ids if p not in CLAIMED]
    m = dict(
        version=1,
        setup_cmd="mkdir -p /verif/evidence /verif/replay && /venv/bin/python -c \"import sys; sys.path.insert(0,'/verif'); import vf.cli\"",
        hooks=dict(guard="ANDROGUARD_VERIF",
                   enable="environment variable ANDROGUARD_VERIF=1 (exported by ./check); androguard is imported from /repo's working tree via PYTHONPATH, nothing is built or cached",
                   baseline_off_cmd="cd /repo && env -u ANDROGUARD_VERIF /venv/bin/python -m pytest -ra -q -p no:cacheprovider --timeout=900 --continue-on-collection-errors",
                   source_commits=HOOK_COMMITS, add_only=True),
        engines=engines,
        checks=checks,
        notes="Every check is `./check Cxx --tier quick|thorough`: TLC model-checks the bounded TLA+ instance, spec states/behaviours are replayed into androguard "
              "(S->C) and records of real executions are validated by a TLA+ trace specification (C->S). Exit 0 = held, 1 = VIOLATION line, 2 = machinery failure. "
              "known_findings.json lists recorded genuine defects (KNOWN-FINDING lines) and fixed: entries.",
        not_applicable=na)
    with open(os.path.join(ROOT, "MANIFEST.json"), "w") as f:
        json.dump(m, f, indent=1)
    return m


NA = {}
HOOK_COMMITS = []

if __name__ == "__main__":
    m = build()
    print("claimed", len(m["checks"]), "not_applicable", len(m["not_applicable"]))
