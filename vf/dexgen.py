"""Independent DEX writer (written from the DEX format specification; shares no code with androguard).

Model
-----
classes: list of dict(name, super=None|str, ifaces=[...], flags=int, src=None|str,
                      sfields=[(name, type, flags)], ifields=[...],
                      dmethods=[method], vmethods=[method],
                      static_values=None|[encoded value ...]   (aligned with the *sorted* static field list)
                      annotations=None|[(visibility, type, [(elem_name, encoded value)])])
method : dict(name, ret, params=[...], flags, code=None|dict(regs, ins, outs, insns=bytes | list of asm instructions,
                      tries=[(start_units, count_units, handler_index)], handlers=[([(type, addr_units)], catch_all_addr|None)]))
encoded value: ('byte'|'short'|'char'|'int'|'long', v[, nbytes]) | ('float'|'double', raw_bits[, nbytes]) | ('string', s) | ('type', t)
               | ('field'|'enum', (cls, type, name)) | ('method', (cls, (ret, params), name)) | ('array', [..])
               | ('annotation', (type, [(name, value)])) | ('null',) | ('boolean', bool)
"""
import hashlib
import struct
import zlib

from . import asm as _asm

NO_INDEX = 0xFFFFFFFF

VT = dict(byte=0x00, short=0x02, char=0x03, int=0x04, long=0x06, float=0x10, double=0x11, method_type=0x15, method_handle=0x16,
          string=0x17, type=0x18, field=0x19, method=0x1a, enum=0x1b, array=0x1c, annotation=0x1d, null=0x1e, boolean=0x1f)


def uleb(v):
    out = bytearray()
    while True:
        b = v & 0x7f
        v >>= 7
        if v:
            out.append(b | 0x80)
        else:
            out.append(b)
            return bytes(out)


def sleb(v):
    out = bytearray()
    more = True
    while more:
        b = v & 0x7f
        v >>= 7
        if (v == 0 and not b & 0x40) or (v == -1 and b & 0x40):
            more = False
        else:
            b |= 0x80
        out.append(b)
    return bytes(out)


def mutf8(units_):
    out = bytearray()
    for u in units_:
        if u == 0:
            out += b'\xc0\x80'
        elif u < 0x80:
            out.append(u)
        elif u < 0x800:
            out += bytes([0xc0 | u >> 6, 0x80 | u & 0x3f])
        else:
            out += bytes([0xe0 | u >> 12, 0x80 | (u >> 6) & 0x3f, 0x80 | u & 0x3f])
    return bytes(out)


def units(s):
    b = s.encode('utf-16-le', 'surrogatepass')
    return [b[i] | b[i + 1] << 8 for i in range(0, len(b), 2)]


def from_units(us):
    return b''.join(struct.pack('<H', u) for u in us).decode('utf-16-le', 'surrogatepass')


def shorty(t):
    return 'L' if t[0] in 'L[' else t


def min_signed_bytes(v):
    n = 1
    while not (-(1 << (8 * n - 1)) <= v < (1 << (8 * n - 1))):
        n += 1
    return n


def min_unsigned_bytes(v):
    n = 1
    while v >= (1 << (8 * n)):
        n += 1
    return n


class Dex:
    def __init__(self, classes, extra_strings=(), extra_types=(), extra_methods=(), extra_fields=(), version=b'035'):
        self.classes = classes
        self.extra_strings = list(extra_strings)
        self.extra_types = list(extra_types)
        self.extra_methods = list(extra_methods)
        self.extra_fields = list(extra_fields)
        self.version = version
        self.idx = None
        self.layout = {}

    # ------------------------------------------------------------------------------------------------------------
    def _collect_value(self, v, S, T, F, M, P):
        k = v[0]
        if k == 'string':
            S.add(v[1])
        elif k == 'type':
            T(v[1])
        elif k in ('field', 'enum'):
            F(v[1])
        elif k == 'method':
            M(v[1])
        elif k == 'array':
            for x in v[1]:
                self._collect_value(x, S, T, F, M, P)
        elif k == 'annotation':
            T(v[1][0])
            for n, x in v[1][1]:
                S.add(n)
                self._collect_value(x, S, T, F, M, P)

    def build(self, map_perm=None, fix_checksum=True):
        strings, types, protos, fields, methods = set(self.extra_strings), set(), set(), set(), set()

        def T(t):
            types.add(t)
            strings.add(t)

        def P(ret, params):
            protos.add((ret, tuple(params)))
            T(ret)
            for p in params:
                T(p)
            strings.add(shorty(ret) + ''.join(shorty(p) for p in params))

        def F(f):
            cl, t, n = f
            fields.add((cl, t, n))
            T(cl)
            T(t)
            strings.add(n)

        def M(m):
            cl, (ret, params), n = m
            methods.add((cl, (ret, tuple(params)), n))
            T(cl)
            P(ret, params)
            strings.add(n)

        for t in self.extra_types:
            T(t)
        for c in self.classes:
            T(c['name'])
            if c.get('super'):
                T(c['super'])
            for i in c.get('ifaces', []):
                T(i)
            if c.get('src'):
                strings.add(c['src'])
            for (n, t, fl) in c.get('sfields', []) + c.get('ifields', []):
                F((c['name'], t, n))
            for m in c.get('dmethods', []) + c.get('vmethods', []):
                M((c['name'], (m['ret'], tuple(m['params'])), m['name']))
                cd = m.get('code')
                if cd:
                    for hl, ca in cd.get('handlers', []):
                        for t, a in hl:
                            T(t)
                    if not isinstance(cd['insns'], (bytes, bytearray)):
                        for kind, ref in _asm.refs(cd['insns']):
                            if kind == 'string':
                                strings.add(ref)
                            elif kind == 'type':
                                T(ref)
                            elif kind == 'field':
                                F(ref)
                            elif kind == 'method':
                                M(ref)
                            elif kind == 'proto':
                                P(ref[0], ref[1])
            for v in c.get('static_values') or []:
                self._collect_value(v, strings, T, F, M, P)
            for (vis, at, elems) in c.get('annotations') or []:
                self._collect_value(('annotation', (at, elems)), strings, T, F, M, P)
        for m in self.extra_methods:
            M(m)
        for f in self.extra_fields:
            F(f)

        S = sorted(strings, key=units)
        si = {s: i for i, s in enumerate(S)}
        Ty = sorted(types, key=lambda t: si[t])
        ti = {t: i for i, t in enumerate(Ty)}
        Pr = sorted(protos, key=lambda p: (ti[p[0]], [ti[x] for x in p[1]]))
        pi = {p: i for i, p in enumerate(Pr)}
        Fi = sorted(fields, key=lambda f: (ti[f[0]], si[f[2]], ti[f[1]]))
        fi = {f: i for i, f in enumerate(Fi)}
        Me = sorted(methods, key=lambda m: (ti[m[0]], si[m[2]], pi[m[1]]))
        mi = {m: i for i, m in enumerate(Me)}
        self.idx = dict(s=si, t=ti, p=pi, f=fi, m=mi)
        self.tables = dict(S=S, T=Ty, P=Pr, F=Fi, M=Me)
        n_s, n_t, n_p, n_f, n_m, n_c = len(S), len(Ty), len(Pr), len(Fi), len(Me), len(self.classes)
        off = 0x70
        off_s = off
        off += 4 * n_s
        off_t = off
        off += 4 * n_t
        off_p = off
        off += 12 * n_p
        off_f = off
        off += 8 * n_f
        off_m = off
        off += 8 * n_m
        off_c = off
        off += 32 * n_c
        data_off = off
        data = bytearray()

        def align(n):
            while (data_off + len(data)) % n:
                data.append(0)

        def here():
            return data_off + len(data)

        maps = []
        # ---- type lists --------------------------------------------------------------------------------------
        tl = {}
        lists = sorted({tuple(p[1]) for p in Pr if p[1]} | {tuple(c.get('ifaces', [])) for c in self.classes if c.get('ifaces')},
                       key=lambda l: [ti[x] for x in l])
        if lists:
            align(4)
            start = here()
            for l in lists:
                align(4)
                tl[l] = here()
                data += struct.pack('<I', len(l)) + b''.join(struct.pack('<H', ti[x]) for x in l)
            maps.append((0x1001, len(lists), start))
        # ---- code items --------------------------------------------------------------------------------------
        code_off = {}
        ncode = 0
        code_start = None
        self.layout['code'] = {}
        for c in self.classes:
            for m in c.get('dmethods', []) + c.get('vmethods', []):
                cd = m.get('code')
                if not cd:
                    continue
                align(4)
                if code_start is None:
                    code_start = here()
                code_off[id(m)] = here()
                ncode += 1
                insns = cd['insns']
                if not isinstance(insns, (bytes, bytearray)):
                    insns = _asm.assemble(insns, self.idx)
                tries = cd.get('tries', [])
                handlers = cd.get('handlers', [])
                self.layout['code'][(c['name'], m['name'], (m['ret'], tuple(m['params'])))] = (here(), bytes(insns))
                data += struct.pack('<4H2I', cd['regs'], cd['ins'], cd['outs'], len(tries), 0, len(insns) // 2) + insns
                if tries:
                    if (len(insns) // 2) % 2:
                        data += b'\0\0'
                    hb = bytearray(uleb(len(handlers)))
                    hoffs = []
                    for hl, ca in handlers:
                        hoffs.append(len(hb))
                        hb += sleb(-len(hl) if ca is not None else len(hl))
                        for t, a in hl:
                            hb += uleb(ti[t]) + uleb(a)
                        if ca is not None:
                            hb += uleb(ca)
                    for (st, cnt, h) in tries:
                        data += struct.pack('<IHH', st, cnt, hoffs[h])
                    data += hb
        if ncode:
            maps.append((0x2001, ncode, code_start))
        # ---- annotation items, sets, directories -------------------------------------------------------------
        ann_item_off = {}
        n_ai = 0
        ai_start = None
        for ci, c in enumerate(self.classes):
            for k, (vis, at, elems) in enumerate(c.get('annotations') or []):
                if ai_start is None:
                    ai_start = here()
                ann_item_off[(ci, k)] = here()
                n_ai += 1
                data += bytes([vis]) + self._enc_annotation(at, elems)
        if n_ai:
            maps.append((0x2004, n_ai, ai_start))
        set_off = {}
        n_set = 0
        set_start = None
        for ci, c in enumerate(self.classes):
            anns = c.get('annotations') or []
            if not anns:
                continue
            align(4)
            if set_start is None:
                set_start = here()
            set_off[ci] = here()
            n_set += 1
            order = sorted(range(len(anns)), key=lambda k: ti[anns[k][1]])
            data += struct.pack('<I', len(anns)) + b''.join(struct.pack('<I', ann_item_off[(ci, k)]) for k in order)
        if n_set:
            maps.append((0x1003, n_set, set_start))
        dir_off = {}
        n_dir = 0
        dir_start = None
        for ci, c in enumerate(self.classes):
            if ci not in set_off:
                continue
            align(4)
            if dir_start is None:
                dir_start = here()
            dir_off[ci] = here()
            n_dir += 1
            data += struct.pack('<4I', set_off[ci], 0, 0, 0)
        if n_dir:
            maps.append((0x2006, n_dir, dir_start))
        # ---- encoded arrays (static values) ------------------------------------------------------------------
        sv_off = {}
        n_sv = 0
        sv_start = None
        for ci, c in enumerate(self.classes):
            sv = c.get('static_values')
            if not sv:
                continue
            if sv_start is None:
                sv_start = here()
            sv_off[ci] = here()
            n_sv += 1
            data += uleb(len(sv)) + b''.join(self.enc_value(v) for v in sv)
        if n_sv:
            maps.append((0x2005, n_sv, sv_start))
        # ---- class data ----------------------------------------------------------------------------------------
        cdoff = {}
        ncd = 0
        cd_start = None
        for c in self.classes:
            fkey = lambda f: fi[(c['name'], f[1], f[0])]
            sf = sorted(c.get('sfields', []), key=fkey)
            inf = sorted(c.get('ifields', []), key=fkey)
            key = lambda m: mi[(c['name'], (m['ret'], tuple(m['params'])), m['name'])]
            dm = sorted(c.get('dmethods', []), key=key)
            vm = sorted(c.get('vmethods', []), key=key)
            if not (sf or inf or dm or vm):
                continue
            if cd_start is None:
                cd_start = here()
            cdoff[c['name']] = here()
            ncd += 1
            data += uleb(len(sf)) + uleb(len(inf)) + uleb(len(dm)) + uleb(len(vm))
            for lst in (sf, inf):
                prev = 0
                for f in lst:
                    i = fkey(f)
                    data += uleb(i - prev) + uleb(f[2])
                    prev = i
            for lst in (dm, vm):
                prev = 0
                for m in lst:
                    i = key(m)
                    data += uleb(i - prev) + uleb(m['flags']) + uleb(code_off.get(id(m), 0))
                    prev = i
        if ncd:
            maps.append((0x2000, ncd, cd_start))
        # ---- string data ---------------------------------------------------------------------------------------
        sd_start = here()
        # (a string_id_item only stores an offset: the data may be laid out in any order; layout['string_data_order'] = 'reverse' | 'interleave')
        order = list(range(len(S)))
        if self.layout.get('string_data_order') == 'reverse':
            order.reverse()
        elif self.layout.get('string_data_order') == 'interleave':
            order = order[1::2] + order[0::2]
        sdoff = [0] * len(S)
        for k in order:
            sdoff[k] = here()
            u = units(S[k])
            # (layout['utf16_size_inflate']: string indices whose declared utf16_size is larger than the data -- written by obfuscators; the
            #  terminator alone ends the data)
            data += uleb(len(u) + (3 if k in self.layout.get('utf16_size_inflate', ()) else 0)) + mutf8(u) + b'\0'
        self.layout['string_data'] = list(sdoff)
        self.layout['string_data_pos'] = {k: n for n, k in enumerate(order)}       # string index -> position in the file
        if n_s:
            maps.append((0x2002, n_s, sd_start))
        data += b'\0' * self.layout.get('tail_pad', 0)
        align(4)
        map_off = here()
        head = [(0, 1, 0)]
        if n_s:
            head.append((1, n_s, off_s))
        if n_t:
            head.append((2, n_t, off_t))
        if n_p:
            head.append((3, n_p, off_p))
        if n_f:
            head.append((4, n_f, off_f))
        if n_m:
            head.append((5, n_m, off_m))
        if n_c:
            head.append((6, n_c, off_c))
        allmaps = head + sorted(maps, key=lambda x: x[2]) + [(0x1000, 1, map_off)]
        self.layout['map'] = list(allmaps)
        if map_perm is not None:
            allmaps = [allmaps[i] for i in map_perm]
        data += struct.pack('<I', len(allmaps)) + b''.join(struct.pack('<HHII', t, 0, n, o) for t, n, o in allmaps)
        ids = bytearray()
        ids += b''.join(struct.pack('<I', o) for o in sdoff)
        ids += b''.join(struct.pack('<I', si[t]) for t in Ty)
        for (ret, params) in Pr:
            ids += struct.pack('<III', si[shorty(ret) + ''.join(shorty(p) for p in params)], ti[ret], tl.get(tuple(params), 0))
        for (cl, t, n) in Fi:
            ids += struct.pack('<HHI', ti[cl], ti[t], si[n])
        for (cl, p, n) in Me:
            ids += struct.pack('<HHI', ti[cl], pi[p], si[n])
        for ci, c in enumerate(self.classes):
            ids += struct.pack('<8I', ti[c['name']], c.get('flags', 1), ti[c['super']] if c.get('super') else NO_INDEX,
                               tl.get(tuple(c.get('ifaces', [])), 0), si[c['src']] if c.get('src') else NO_INDEX,
                               dir_off.get(ci, 0), cdoff.get(c['name'], 0), sv_off.get(ci, 0))
        size = 0x70 + len(ids) + len(data)
        hdr = struct.pack('<8sI20s20I', b'dex\n' + self.version + b'\0', 0, b'\0' * 20, size, 0x70, 0x12345678, 0, 0, map_off,
                          n_s, off_s if n_s else 0, n_t, off_t if n_t else 0, n_p, off_p if n_p else 0, n_f, off_f if n_f else 0,
                          n_m, off_m if n_m else 0, n_c, off_c if n_c else 0, len(data), data_off)
        buf = bytearray(hdr + ids + data)
        self.layout['size'] = size
        if fix_checksum:
            fix(buf)
        return bytes(buf)

    # ---- encoded values ----------------------------------------------------------------------------------------
    def _enc_annotation(self, at, elems):
        si, ti = self.idx['s'], self.idx['t']
        out = bytearray(uleb(ti[at]) + uleb(len(elems)))
        for n, v in sorted(elems, key=lambda e: si[e[0]]):
            out += uleb(si[n]) + self.enc_value(v)
        return bytes(out)

    def enc_value(self, v):
        k = v[0]
        if k in ('byte', 'short', 'int', 'long'):
            val = v[1]
            n = v[2] if len(v) > 2 else min_signed_bytes(val)
            raw = (val & ((1 << (8 * n)) - 1)).to_bytes(n, 'little')
            return bytes([(n - 1) << 5 | VT[k]]) + raw
        if k == 'char':
            val = v[1]
            n = v[2] if len(v) > 2 else min_unsigned_bytes(val)
            return bytes([(n - 1) << 5 | VT[k]]) + val.to_bytes(n, 'little')
        if k in ('float', 'double'):
            full = 4 if k == 'float' else 8
            raw = v[1].to_bytes(full, 'little')
            n = v[2] if len(v) > 2 else full
            return bytes([(n - 1) << 5 | VT[k]]) + raw[full - n:]     # zero-extended to the right: keep the high-order bytes
        if k in ('string', 'type', 'field', 'method', 'enum'):
            table = {'string': 's', 'type': 't', 'field': 'f', 'enum': 'f', 'method': 'm'}[k]
            ref = v[1]
            if k == 'method':
                ref = (ref[0], (ref[1][0], tuple(ref[1][1])), ref[2])
            i = self.idx[table][ref]
            n = max(v[2], min_unsigned_bytes(i)) if len(v) > 2 else min_unsigned_bytes(i)     # requested width is a lower bound
            return bytes([(n - 1) << 5 | VT[k]]) + i.to_bytes(n, 'little')
        if k == 'array':
            return bytes([VT[k]]) + uleb(len(v[1])) + b''.join(self.enc_value(x) for x in v[1])
        if k == 'annotation':
            return bytes([VT[k]]) + self._enc_annotation(v[1][0], v[1][1])
        if k == 'null':
            return bytes([VT[k]])
        if k == 'boolean':
            return bytes([(1 if v[1] else 0) << 5 | VT[k]])
        raise ValueError(k)


def fix(buf):
    """Recompute SHA-1 signature and Adler-32 checksum in place."""
    buf[12:32] = hashlib.sha1(bytes(buf[32:])).digest()
    buf[8:12] = struct.pack('<I', zlib.adler32(bytes(buf[12:])) & 0xFFFFFFFF)
    return buf
