"""Independent writer of resources.arsc (written from ResourceTypes.h; shares no code with androguard).

Model
-----
table    = dict(packages=[package...])
package  = dict(id, name, types=[rtype...])                       type ids are 1, 2, ... in list order
rtype    = dict(name, keys=[key name per entry index], configs=[cfg...])
cfg      = dict(locale=(lang, region) | None, density=int, flags=set of {'sparse', 'offset16'}, entries={index: entry})
entry    = ('simple', dataType, data | str)        str for TYPE_STRING (interned into the global pool)
         | ('compact', dataType, data | str)
         | ('complex', parent_ref, [(name_ref, dataType, data | str)...])
entry flags may be added as a 4th element of simple/complex: set of {'public', 'weak'}
"""
import struct

from .axmlgen import string_pool

RES_TABLE = 0x0002
RES_TABLE_PACKAGE = 0x0200
RES_TABLE_TYPE = 0x0201
RES_TABLE_TYPE_SPEC = 0x0202
TYPE_STRING = 3
NO_ENTRY = 0xFFFFFFFF


def pack_lang(code, base):
    if not code:
        return b"\0\0"
    if len(code) == 2:
        return code.encode("ascii")
    f, s, t = (ord(c) - base for c in code)
    return bytes([0x80 | (t << 2) | (s >> 3), ((s << 5) | f) & 0xFF])


def config_bytes(cfg, size=64):
    loc = cfg.get("locale")
    lang, region = loc if loc else ("", "")
    b = bytearray(size)
    struct.pack_into("<I", b, 0, size)
    b[8:10] = pack_lang(lang, ord("a"))
    b[10:12] = pack_lang(region, ord("0"))
    struct.pack_into("<H", b, 14, cfg.get("density", 0))          # screenType: orientation u8, touchscreen u8, density u16
    if size >= 28:
        struct.pack_into("<H", b, 24, cfg.get("sdk", 0))          # version: sdkVersion u16, minorVersion u16
    if cfg.get("round"):
        assert size >= 52, "screenLayout2 needs a ResTable_config of at least 52 bytes"
        b[48] = cfg["round"]                                      # screenConfig2: screenLayout2 u8, colorMode u8, pad u16
    return bytes(b)


class Arsc:
    def __init__(self, table, utf8=False, config_size=64):
        self.table = table
        self.utf8 = utf8
        self.config_size = config_size

    def build(self):
        gstrings, gindex = [], {}

        def gs(s):
            if s not in gindex:
                gindex[s] = len(gstrings)
                gstrings.append(s)
            return gindex[s]

        def value(t, d):
            if t == TYPE_STRING and isinstance(d, str):
                d = gs(d)
            return struct.pack("<HBBI", 8, 0, t, d & 0xFFFFFFFF)

        pkgs = []
        for p in self.table["packages"]:
            type_names = [t["name"] for t in p["types"]]
            keys, kindex = [], {}

            def ks(s):
                if s not in kindex:
                    kindex[s] = len(keys)
                    keys.append(s)
                return kindex[s]
            chunks = bytearray()
            for tid, t in enumerate(p["types"], 1):
                n = len(t["keys"])
                for k in t["keys"]:
                    ks(k)
                chunks += struct.pack("<HHI", RES_TABLE_TYPE_SPEC, 16, 16 + 4 * n) + struct.pack("<BBHI", tid, 0, 0, n) + b"\0\0\0\0" * n
                for cfg in t["configs"]:
                    flags = cfg.get("flags", set())
                    cb = config_bytes(cfg, self.config_size)
                    header_size = 20 + len(cb)
                    ent_data = bytearray()
                    offs = {}
                    for idx in sorted(cfg["entries"]):
                        e = cfg["entries"][idx]
                        offs[idx] = len(ent_data)
                        kidx = kindex[t["keys"][idx]]
                        ef = e[3] if len(e) > 3 else set()
                        fl = (2 if "public" in ef else 0) | (4 if "weak" in ef else 0)
                        if e[0] == "simple":
                            ent_data += struct.pack("<HHI", 8, fl, kidx) + value(e[1], e[2])
                        elif e[0] == "compact":
                            d = e[2]
                            if e[1] == TYPE_STRING and isinstance(d, str):
                                d = gs(d)
                            ent_data += struct.pack("<HHI", kidx, 0x0008 | (e[1] << 8) | fl, d & 0xFFFFFFFF)
                        else:
                            items = e[2]
                            ent_data += struct.pack("<HHI", 16, 1 | fl, kidx) + struct.pack("<II", e[1] & 0xFFFFFFFF, len(items))
                            for (name_ref, it, idata) in items:
                                ent_data += struct.pack("<I", name_ref & 0xFFFFFFFF) + value(it, idata)
                    if "sparse" in flags:
                        table = b"".join(struct.pack("<HH", idx, offs[idx] // 4) for idx in sorted(offs))
                        count, fbyte = len(offs), 0x01
                    elif "offset16" in flags:
                        table = b"".join(struct.pack("<H", offs[i] // 4 if i in offs else 0xFFFF) for i in range(n))
                        if len(table) % 4:
                            table += b"\0\0"
                        count, fbyte = n, 0x02
                    else:
                        table = b"".join(struct.pack("<I", offs.get(i, NO_ENTRY)) for i in range(n))
                        count, fbyte = n, 0x00
                    entries_start = header_size + len(table)
                    size = entries_start + len(ent_data)
                    chunks += struct.pack("<HHI", RES_TABLE_TYPE, header_size, size) + struct.pack("<BBHII", tid, fbyte, 0, count, entries_start) + cb + table + bytes(ent_data)
            tpool = string_pool(type_names, self.utf8)
            kpool = string_pool(keys, self.utf8)
            hsize = 288
            name16 = p["name"].encode("utf-16-le")[:254].ljust(256, b"\0")
            head = struct.pack("<I", p["id"]) + name16 + struct.pack("<IIIII", hsize, len(type_names), hsize + len(tpool), len(keys), 0)
            body = tpool + kpool + bytes(chunks)
            pkgs.append(struct.pack("<HHI", RES_TABLE_PACKAGE, hsize, hsize + len(body)) + head + body)
        gpool = string_pool(gstrings, self.utf8)
        payload = gpool + b"".join(pkgs)
        return struct.pack("<HHII", RES_TABLE, 12, 12 + len(payload), len(pkgs)) + payload
