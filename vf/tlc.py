"""TLC runner: bounded model checking, state dumps, sharded linear trace validation."""
from __future__ import annotations

import concurrent.futures as cf
import json
import os
import re
import shutil
import subprocess
import tempfile
import time

from . import tlaval

SPEC_DIR = os.path.join(os.path.dirname(os.path.dirname(os.path.abspath(__file__))), "spec")
JAR = "/opt/veriftools/tla/tla2tools.jar:/opt/veriftools/tla/CommunityModules-deps.jar"


class TLCError(Exception):
    """Machinery failure (exit status 2 of ./check)."""


class TLCResult:
    def __init__(self):
        self.ok = False
        self.generated = 0
        self.distinct = 0
        self.depth = 0
        self.errors = []
        self.stdout = ""
        self.coverage = {}
        self.wall = 0.0
        self.rc = None
        self.prints = []

    def brief(self):
        return dict(ok=self.ok, generated=self.generated, distinct=self.distinct, depth=self.depth,
                    errors=self.errors[:3], wall=round(self.wall, 2))


_RE_STATES = re.compile(r"(\d+) states generated, (\d+) distinct states found, (\d+) states left on queue")
_RE_DEPTH = re.compile(r"The depth of the complete state graph search is (\d+)")
_RE_COV = re.compile(r"^<(\w+) line \d+, col \d+ to line \d+, col \d+ of module (\w+)>: (\d+):(\d+)", re.M)
_RE_ERR = re.compile(r"^Error: (.*)$", re.M)


def scratch_dir(prefix="vf_"):
    base = os.environ.get("VERIF_TMP") or tempfile.gettempdir()
    return tempfile.mkdtemp(prefix=prefix, dir=base)


def run(module, cfg, *, workers=None, dump=None, coverage=False, env=None, timeout=3600, heap="4g",
        extra=(), simulate=None, deadlock=True, cwd=None):
    """Run TLC on spec/<module>.tla with config spec/<cfg>.  Returns TLCResult."""
    meta = scratch_dir("tlcmeta_")
    cmd = ["java", "-XX:+UseParallelGC", "-Xmx" + heap, "-Xss16m", "-Djava.io.tmpdir=" + meta, "-DTLA-Library=" + SPEC_DIR, "-cp", JAR, "tlc2.TLC", "-metadir", meta, "-noGenerateSpecTE",
           "-config", cfg if os.path.isabs(cfg) else os.path.join(SPEC_DIR, cfg),
           "-workers", str(workers or "auto")]
    if dump:
        cmd += ["-dump", dump]
    if coverage:
        cmd += ["-coverage", "1"]
    if simulate:
        cmd += ["-simulate", simulate]
    if not deadlock:
        cmd += ["-deadlock"]
    cmd += list(extra)
    cmd.append(module if os.path.isabs(module) else os.path.join(SPEC_DIR, module + ".tla"))
    e = dict(os.environ)
    if env:
        e.update({k: str(v) for k, v in env.items()})
    t0 = time.time()
    try:
        p = subprocess.run(cmd, capture_output=True, text=True, env=e, timeout=timeout, cwd=cwd or SPEC_DIR)
    except subprocess.TimeoutExpired as ex:
        shutil.rmtree(meta, ignore_errors=True)
        raise TLCError("TLC timed out after %ss on %s" % (timeout, module)) from ex
    finally:
        shutil.rmtree(meta, ignore_errors=True)
    r = TLCResult()
    r.wall = time.time() - t0
    r.rc = p.returncode
    out = p.stdout + "\n" + p.stderr
    r.stdout = out
    ms = _RE_STATES.findall(out)
    if ms:
        r.generated, r.distinct = int(ms[-1][0]), int(ms[-1][1])
    md = _RE_DEPTH.findall(out)
    if md:
        r.depth = int(md[-1])
    r.errors = _RE_ERR.findall(out)
    for m in _RE_COV.finditer(out):
        r.coverage[m.group(1)] = r.coverage.get(m.group(1), 0) + int(m.group(4))
    r.ok = (p.returncode == 0 and not r.errors)
    return r


def require_clean(r, what):
    """Raise TLCError when TLC itself failed (parse error, evaluation error) as opposed to a property verdict."""
    bad = [e for e in r.errors if not _is_verdict(e)]
    if r.rc not in (0, 12, 13) and not any(_is_verdict(e) for e in r.errors):
        raise TLCError("%s: TLC rc=%s\n%s" % (what, r.rc, r.stdout[-3000:]))
    if bad and r.rc not in (0, 12, 13):
        raise TLCError("%s: TLC error %s\n%s" % (what, bad[:2], r.stdout[-3000:]))


def _is_verdict(e):
    return ("is violated" in e) or ("violated" in e and "ostcondition" in e) or ("Temporal properties were violated" in e) \
        or ("Deadlock reached" in e) or ("Action property" in e)


def check_model(module, cfg, *, need_actions=(), workers=None, timeout=3600, env=None, heap="4g", deadlock=True, extra=()):
    """Bounded exhaustive run that must pass; coverage gate on need_actions.  Returns TLCResult; raises TLCError."""
    r = run(module, cfg, workers=workers, coverage=bool(need_actions), timeout=timeout, env=env, heap=heap, deadlock=deadlock, extra=extra)
    if not r.ok:
        raise TLCError("model %s/%s does not satisfy its properties or failed: %s\n%s" % (module, cfg, r.errors[:3], r.stdout[-4000:]))
    for a in need_actions:
        if r.coverage.get(a, 0) == 0:
            raise TLCError("vacuity: action %s of %s has zero coverage (%s)" % (a, module, r.coverage))
    return r


def dump_states(module, cfg, *, only=None, workers=None, timeout=3600, env=None, heap="4g", must_pass=True, skip_if=None, stride=None, keep_if=None):
    """Run TLC with -dump and yield parsed states (dict var -> value).  Returns (TLCResult, list_of_states)."""
    d = scratch_dir("tlcdump_")
    try:
        path = os.path.join(d, "st")
        r = run(module, cfg, workers=workers, dump=path, timeout=timeout, env=env, heap=heap)
        if must_pass and not r.ok:
            raise TLCError("dump run %s/%s failed: %s\n%s" % (module, cfg, r.errors[:3], r.stdout[-4000:]))
        states = list(tlaval.parse_dump(path + ".dump", only=only, skip_if=skip_if, stride=stride, keep_if=keep_if))
        return r, states
    finally:
        shutil.rmtree(d, ignore_errors=True)


_RE_REJ = re.compile(r'^<<"REJECT", .*>>$', re.M)


def _trace_shard(args):
    module, cfg, path, env, timeout, heap = args
    e = {"TRACE_FILE": path}
    e.update(env or {})
    r = run(module, cfg, workers=1, env=e, timeout=timeout, heap=heap)
    rej = []
    out = r.stdout
    pos = 0
    rx = re.compile(r'<<\s*"REJECT"\s*,')
    expected = out.count('"REJECT"')
    while True:
        mm = rx.search(out, pos)
        if mm is None:
            if len(rej) != expected:
                raise TLCError("REJECT lines: %d printed, %d parsed" % (expected, len(rej)))
            break
        i = mm.start()
        # TLC wraps long values over several lines: match the closing >> by bracket counting
        depth, j, instr = 0, i, False
        while j < len(out):
            c = out[j]
            if instr:
                if c == "\\":
                    j += 1
                elif c == '"':
                    instr = False
            elif c == '"':
                instr = True
            elif out.startswith("<<", j):
                depth += 1
                j += 1
            elif out.startswith(">>", j):
                depth -= 1
                j += 1
                if depth == 0:
                    break
            j += 1
        text = out[i:j + 1]
        pos = j + 1
        try:
            v = tlaval.parse(text)
            rej.append((v[1], v[2:]))
        except Exception as ex:
            raise TLCError("cannot parse REJECT line %r: %s" % (text[:200], ex))
    return r, rej


def validate(module, cfg, records, *, shards=8, boundary=None, env=None, timeout=3600, heap="3g", keep=None, weight=None):
    """Validate a list of JSON-able records against a linear trace spec.

    The trace spec reads ndJsonDeserialize(IOEnv.TRACE_FILE), consumes one record per step (variable l),
    prints <<"REJECT", l, why...>> for a record the specification does not allow (and keeps going), and its
    POSTCONDITION demands that every line was consumed.  Records are sharded over several TLC processes; a shard
    boundary is only placed where boundary(record) is true (default: anywhere).

    Returns dict(accepted, rejects=[(global_index, why)], states, transitions, wall, shards).
    Raises TLCError if some shard did not consume all of its lines for a reason other than a REJECT.
    """
    n = len(records)
    if n == 0:
        return dict(accepted=0, rejects=[], states=0, transitions=0, wall=0.0, shards=0)
    shards = max(1, min(shards, n))
    cuts = [0]
    target = n / shards
    for k in range(1, shards):
        i = max(int(k * target), cuts[-1] + 1)
        if boundary is not None:
            while i < n and not boundary(records[i]):
                i += 1
        if i >= n:
            break
        if i > cuts[-1]:
            cuts.append(i)
    cuts.append(n)
    d = keep or scratch_dir("tlctrace_")
    t0 = time.time()
    try:
        jobs = []
        for k in range(len(cuts) - 1):
            path = os.path.join(d, "shard%d.ndjson" % k)
            with open(path, "w") as f:
                for rec in records[cuts[k]:cuts[k + 1]]:
                    f.write(json.dumps(rec, separators=(",", ":")))
                    f.write("\n")
            jobs.append((module, cfg, path, env, timeout, heap))
        with cf.ThreadPoolExecutor(max_workers=min(16, len(jobs))) as ex:
            results = list(ex.map(_trace_shard, jobs))
    finally:
        if keep is None:
            shutil.rmtree(d, ignore_errors=True)
    rejects = []
    states = trans = 0
    for k, (r, rej) in enumerate(results):
        # weight(record): number of TLC steps the trace spec takes for that record (default: one)
        nlines = cuts[k + 1] - cuts[k] if weight is None else sum(weight(rec) for rec in records[cuts[k]:cuts[k + 1]])
        states += r.distinct
        trans += r.generated
        for (li, why) in rej:
            rejects.append((cuts[k] + li - 1, why))
        if r.depth - 1 != nlines or r.rc != 0:
            raise TLCError("trace shard %d of %s: consumed %d of %d lines, rc=%s, errors=%s\n%s"
                           % (k, module, r.depth - 1, nlines, r.rc, r.errors[:3], r.stdout[-3000:]))
    return dict(accepted=n - len({i for i, _ in rejects}), rejects=sorted(rejects), states=states, transitions=trans,
                wall=time.time() - t0, shards=len(results))
