"""Running androguard's parsers on arbitrary bytes under a deterministic work budget (C35).

Work = number of Python-level call events (functions and C functions) counted with sys.setprofile: independent of the
machine's load.  A run whose work exceeds the budget is aborted ("budget"); should the abort be swallowed by the
parser, a wall-clock alarm ends the worker process ("timeout").  Inputs are parsed in forked workers; the parent
collects one result line per input and restarts a worker that died.
"""
import json
import os
import signal
import sys
import tempfile


class BudgetExceeded(BaseException):
    pass


# Budget(parser, size) = BASE + PER_BYTE * size  call events (mirrored in spec/ParseRun_Trace.tla)
BASE = dict(dex=400000, axml=200000, arsc=200000, apk=900000)
PER_BYTE = dict(dex=4000, axml=2000, arsc=2000, apk=4000)
ALARM_S = 120


def budget(parser, size):
    return BASE[parser] + PER_BYTE[parser] * size


def parse(parser, data):
    if parser == "dex":
        from androguard.core import dex
        return dex.DEX(data)
    if parser == "axml":
        from androguard.core import axml
        p = axml.AXMLPrinter(data)
        return p.get_xml() if p.is_valid() else None
    if parser == "arsc":
        from androguard.core import axml
        return axml.ARSCParser(data)
    from androguard.core import apk
    return apk.APK(data, raw=True)


def run_one(parser, data, limit=None):
    """-> dict(outcome = result | error | budget, calls, exc)"""
    limit = limit if limit is not None else budget(parser, len(data))
    n = [0]

    def prof(frame, event, arg):
        if event == "call" or event == "c_call":
            n[0] += 1
            if n[0] > limit:
                sys.setprofile(None)
                raise BudgetExceeded()
    outcome, exc = "result", ""
    sys.setprofile(prof)
    try:
        parse(parser, data)
    except BudgetExceeded:
        outcome = "budget"
    except RecursionError:
        outcome, exc = "error", "RecursionError"
    except MemoryError:
        outcome, exc = "error", "MemoryError"
    except Exception as e:
        outcome, exc = "error", type(e).__name__
    finally:
        sys.setprofile(None)
    if n[0] > limit:
        outcome = "budget"
    return dict(outcome=outcome, calls=n[0], exc=exc)


def _worker(items, first, path):
    from .core import quiet_androguard
    quiet_androguard()
    import logging
    logging.disable(logging.CRITICAL)
    import androguard.core.apk, androguard.core.axml, androguard.core.dex  # noqa: E401,F401  (imports are not the parsers' work)
    out = open(path, "a")
    cur = [first]

    def on_alarm(sig, frm):
        out.write(json.dumps(dict(i=cur[0], outcome="timeout", calls=-1, exc="")) + "\n")
        out.flush()
        os._exit(3)
    signal.signal(signal.SIGALRM, on_alarm)
    for k in range(first, len(items)):
        cur[0] = k
        parser, data = items[k]
        signal.alarm(ALARM_S)
        r = run_one(parser, data)
        signal.alarm(0)
        r["i"] = k
        out.write(json.dumps(r) + "\n")
        out.flush()
    os._exit(0)


def run_many(items, workers=12):
    """items: list of (parser, bytes) -> list of result dicts in order"""
    results = [None] * len(items)
    slices = [list(range(w, len(items), workers)) for w in range(workers)]
    tmp = tempfile.mkdtemp(prefix="vf_parserun_")
    try:
        pending = []
        for w, idx in enumerate(slices):
            if idx:
                pending.append((w, idx, 0))
        while pending:
            procs = []
            for w, idx, first in pending:
                path = os.path.join(tmp, "w%d.jsonl" % w)
                pid = os.fork()
                if pid == 0:
                    try:
                        _worker([items[i] for i in idx], first, path)
                    finally:
                        os._exit(4)
                procs.append((pid, w, idx, path))
            pending = []
            for pid, w, idx, path in procs:
                os.waitpid(pid, 0)
                done = -1
                if os.path.exists(path):
                    for line in open(path):
                        try:
                            r = json.loads(line)
                        except ValueError:
                            continue
                        results[idx[r["i"]]] = r
                        done = max(done, r["i"])
                if done + 1 < len(idx):
                    if results[idx[done + 1]] is None and done + 1 < len(idx):
                        # the worker died without reporting on its current input (killed, crashed interpreter)
                        results[idx[done + 1]] = dict(i=done + 1, outcome="died", calls=-1, exc="")
                        done += 1
                    if done + 1 < len(idx):
                        pending.append((w, idx, done + 1))
        return results
    finally:
        import shutil
        shutil.rmtree(tmp, ignore_errors=True)
