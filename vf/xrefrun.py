"""Driver of C13-C16 (and the xref-offset clause of C40): model checking, S->C replay, C->S trace validation, classification."""
import copy
import itertools
import random

from . import tlc
from . import xrefobs as X

# signature of a violation that is *exactly* explained by a named deviation of Xref_Trace (see the module header there)
KNOWN_SIG = {
    "C13": "C13:D1:invoke-on-array-class-retargeted-or-dropped",
    "C14": "C14:D2:field-access-recorded-on-accessing-class-same-dex-only",
    "C16": "C16:D2:field-of-another-dex-dropped",
}


def run_property(chk, pid):
    from androguard.core import dex
    quick = chk.tier == "quick"
    rnd = random.Random(chk.seed)
    mine = X.CLAUSES[pid]
    cfg = "XrefMC_quick.cfg" if quick else "XrefMC_thorough.cfg"
    stride = (12, chk.seed) if quick else (6, chk.seed)
    chk.bounds = dict(cfg=cfg, replay_stride=stride[0], alphabet="20 xref instructions (invoke internal/undefined/external/array-class/primitive-array, field get/put defined/external, "
                      "const-string, new-instance, const-class incl. array types)", splits="one DEX, A|B, B|A")
    r, states = tlc.dump_states("XrefMC", cfg, only={"prog", "dexes", "st", "phase"}, keep_if='"done"', stride=stride, timeout=3000, heap="8g")
    chk.model(r, "XrefMC/" + cfg)
    states = [s for s in states if s["phase"] == "done"]
    groups = {}
    for n, st in enumerate(states):
        key = tuple(tuple(sorted(d)) for d in st["dexes"])
        groups.setdefault(key, []).append((n, st))
    recs, meta, model_fail = [], [], []
    for key, items in groups.items():
        for b in range(0, len(items), 150):
            batch = items[b:b + 150]
            progs = [X.concretise(st["prog"], n) for n, st in batch]
            merged = dict(classes=[c for p in progs for c in p["classes"]])
            idx = {c["name"]: k for k, c in enumerate(merged["classes"])}
            split = [[idx[p["classes"][0 if cl == "A" else 1]["name"]] for p in progs for cl in part] for part in key]
            single = [list(range(len(merged["classes"])))]
            dx = X.analyse(dex, X.build_dexes(merged, split))
            dx1 = X.analyse(dex, X.build_dexes(merged, single)) if len(key) > 1 else dx
            for (n, st), p in zip(batch, progs):
                obs = X.project(dx, p["ns"])
                same = True
                if dx1 is not dx:
                    same = X.project(dx1, p["ns"]) == obs
                psplit = [[0 if cl == "A" else 1 for cl in part] for part in key]
                recs.append(X.record_for(p, obs, same, psplit))
                meta.append((p, "model", [sorted(d) for d in key], dict(st["st"])))
                model_fail.append(set(X.compare_model(dict(st["st"]), obs, p)) | (set() if same else {"C16.same-as-single-dex"}))
    n_s2c = len(recs)
    chk.sample(dict(program={"%s.%s" % k: [dict(x) for x in v] for k, v in states[0]["prog"].items()} if states else None,
                    spec_final_state=dict(states[0]["st"]) if states else None), cap=2)

    # ---- C->S: random programs, 1..4 DEX files, every add order ------------------------------------------------------
    nprog = 25 if quick else 400
    for i in range(nprog):
        p = X.random_program(rnd, i, 6 if quick else 30)
        nc = len(p["classes"])
        k = rnd.randrange(1, min(4, nc) + 1)
        assign = [rnd.randrange(k) for _ in range(nc)]
        parts = [x for x in ([c for c in range(nc) if assign[c] == d] for d in range(k)) if x]
        single = X.project(X.analyse(dex, X.build_dexes(p, [list(range(nc))])), None)
        recs.append(X.record_for(p, single, True))
        meta.append((p, "random", "single", None))
        model_fail.append(None)
        orders = list(itertools.permutations(range(len(parts))))
        if quick and len(orders) > 6:
            orders = rnd.sample(orders, 6)
        for order in orders:
            if len(parts) == 1:
                break
            sp = [parts[o] for o in order]
            obs = X.project(X.analyse(dex, X.build_dexes(p, sp)), None)
            recs.append(X.record_for(p, obs, obs == single, sp))
            meta.append((p, "random", sp, None))
            model_fail.append(None)
    # programs whose own classes occupy the first indices of the type / string / method tables (no primitive type, a package sorting
    # before java/lang, member names sorting first): index 0 is a valid index.  Analysed alone, as one file and split both ways.
    for tag in ("a0", "a1"):
        nsx = "L%s/" % tag
        pa, pb = nsx + "A;", nsx + "B;"
        p = dict(ns=nsx, classes=[
            dict(name=pa, fields=[], methods=[dict(name="aa()V", code=[dict(op="new", cls=pb, name=""), dict(op="cls", cls=pb, name=""), dict(op="inv", cls=pb, name="aa()V"),
                                                                          dict(op="str", cls="", name="")])]),
            dict(name=pb, fields=[], methods=[dict(name="aa()V", code=[dict(op="new", cls=pa, name=""), dict(op="cls", cls=pa, name=""), dict(op="cls", cls="[[" + pa, name=""),
                                                                          dict(op="inv", cls=pa, name="aa()V"), dict(op="str", cls="", name="")])]),
            # a third class referring to B: in a file holding only B and C, B has index 0 (in the single file A has)
            dict(name=nsx + "C;", fields=[], methods=[dict(name="aa()V", code=[dict(op="new", cls=pb, name=""), dict(op="cls", cls=pb, name=""), dict(op="inv", cls=pb, name="aa()V")])])])
        single = X.project(X.analyse(dex, X.build_dexes(p, [[0, 1, 2]])), None)
        recs.append(X.record_for(p, single, True))
        meta.append((p, "random", "single", None))
        model_fail.append(None)
        for sp in ([[0], [1, 2]], [[1, 2], [0]], [[0, 1], [2]], [[2], [1], [0]]):
            obs = X.project(X.analyse(dex, X.build_dexes(p, sp)), None)
            recs.append(X.record_for(p, obs, obs == single, sp))
            meta.append((p, "random", sp, None))
            model_fail.append(None)
    # a file with more than 32768 field ids: the fields of the accessing class have indices >= 0x8000 (16-bit operands are unsigned)
    nsx = "Lbig/"
    pz = nsx + "Z;"
    code = []
    for fn, ft, sfx in (("x", "I", ""), ("y", "J", "-wide"), ("z", "Ljava/lang/String;", "-object")):
        for how in ("iget", "iput", "sget", "sput"):
            code.append(dict(op="rd" if how.endswith("get") else "wr", cls=pz, name=fn + ":" + ft, how=how + sfx))
    p = dict(ns=nsx, classes=[dict(name=pz, fields=[("x", "I"), ("y", "J"), ("z", "Ljava/lang/String;")], methods=[dict(name="m()V", code=code)])],
             extra_fields=[(nsx + "P;", "I", "f%05d" % k) for k in range(32780)])
    obs = X.project(X.analyse(dex, X.build_dexes(p, [[0]])), None)
    recs.append(X.record_for(p, obs, True))
    meta.append((p, "random", "single", None))
    model_fail.append(None)
    res = tlc.validate("Xref_Trace", "Xref_Trace.cfg", recs, shards=16, heap="3g", timeout=3000)
    chk.trace_result(res, "Xref_Trace")
    verdict = {gi: (set(why[0]), set(why[1])) for gi, why in res["rejects"]}
    covered_by_model = set(c for cl in X.CLAUSES.values() for c in cl) - {"C14.field-reads", "C14.field-writes"}
    for gi in range(len(recs)):
        strict, dev = verdict.get(gi, (set(), set()))
        if model_fail[gi] is not None:
            # the TLC-computed final state (S->C) and the trace spec's recomputation (C->S) must agree on every record
            a = (model_fail[gi] & covered_by_model) - {"C14.one-analysis-per-field", "C14.method-lists-field"}
            b = (strict & covered_by_model) - {"C14.one-analysis-per-field", "C14.method-lists-field"}
            if a != b:
                raise tlc.TLCError("oracles disagree on record %d: XrefMC state says %s, Xref_Trace says %s" % (gi, sorted(a), sorted(b)))
        rel = sorted(strict & set(mine))
        if not rel:
            continue
        p, src, how, exp = meta[gi]
        explained = [c for c in rel if c not in dev]
        unexplained = [c for c in rel if c in dev]
        detail = dict(source=src, split=how, record=_short(recs[gi]))
        if explained and pid in KNOWN_SIG:
            chk.violation(KNOWN_SIG[pid], "Xref_Trace:" + "+".join(explained), detail)
        elif explained:
            unexplained += explained
        if unexplained:
            chk.violation("%s:unexplained:%s" % (pid, "+".join(unexplained)), "Xref_Trace:" + "+".join(unexplained), detail)
    rej_idx = set(verdict)
    # records examined (accepted, or rejected and classified above); trace_result() already added the accepted ones to c2s
    chk.c2s -= res["accepted"]
    chk.s2c += n_s2c
    chk.c2s += len(recs) - n_s2c
    chk.extra["records_total"] = len(recs)
    chk.extra["records_rejected_for_other_properties"] = sum(1 for gi, (s, d) in verdict.items() if not (s & set(mine)))
    chk.sample(_short(recs[n_s2c]) if len(recs) > n_s2c else None, cap=3)
    k = next((i for i in range(len(recs)) if i not in rej_idx and recs[i]["obs"]["calls"] and recs[i]["obs"]["strs"] and recs[i]["obs"]["reads"]), None)
    if k is not None:
        bad = copy.deepcopy(recs[k])
        if pid == "C13":
            bad["obs"]["calls"] = bad["obs"]["calls"][1:]
        elif pid == "C14":
            bad["obs"]["reads"] = bad["obs"]["reads"][1:]
        elif pid == "C15":
            bad["obs"]["strs"] = bad["obs"]["strs"][1:]
        elif pid == "C16":
            bad["same"] = False
        else:
            bad["obs"]["offsets_ok"] = False
        st = tlc.validate("Xref_Trace", "Xref_Trace.cfg", [bad], shards=1)
        if not st["rejects"]:
            raise tlc.TLCError("binding self-test failed")
        chk.extra["self_test_rejected"] = True
    chk.assumptions += ["for const-class on an array type the element class is 'that class' (androguard's documented behaviour); types without a class (e.g. [I) are not recorded",
                        "new-instance / const-class on the method's own class are not 'on another class'",
                        "method keys are (class, name, descriptor with blanks removed)",
                        "a violation is attributed to a recorded known finding only when the observation equals the specification evaluated under the named deviation (D1 / D2 of Xref_Trace)"]


def _short(r):
    import json
    s = json.dumps(r)
    return r if len(s) < 3000 else dict(truncated=s[:3000])
