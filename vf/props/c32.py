"""C32 v1 (JAR) signature verification: spec V1Verify / V1VerifyMC / V1Verify_Trace.

The abstract block of the spec (certificates [issuer, serial, key], signer infos [sid, alg, attrs, sig = [key, over]])
is realised with real keys (RSA / EC / DSA), real digests and real PKCS#7 structures; the realisation is cross-checked
by verifying every (certificate, signer info) pair directly with `cryptography`.
"""
import copy
import datetime
import hashlib
import io
import random
import zipfile

from .. import tlc
from ..axmlgen import Axml
from . import c31

KINDS = ["RSA", "EC", "DSA"]
NOATTRS = dict(present=False, ctype="", digest=["", ""], order="")
ABSENT = ["absent", ""]
SF0 = (b"Signature-Version: 1.0\r\nCreated-By: 1.0 (Android)\r\nSHA-256-Digest-Manifest: 3nRWZ6JEbZ1qXrwDFdXpWnsAjzaOCvbTMW5dL0cYzsE=\r\n\r\n"
       b"Name: classes.dex\r\nSHA-256-Digest: 47DEQpj8HBSa+/TImW+5JCeuQeRkm5NMpJWZG3hSuFU=\r\n\r\n")
_keys = {}
_certs = {}


def hashes_mod():
    from cryptography.hazmat.primitives import hashes
    return hashes


def key(kind, name):
    from cryptography.hazmat.primitives.asymmetric import dsa, ec, rsa
    if (kind, name) not in _keys:
        if kind == "RSA":
            _keys[kind, name] = rsa.generate_private_key(public_exponent=65537, key_size=2048)
        elif kind == "EC":
            _keys[kind, name] = ec.generate_private_key(ec.SECP256R1())
        else:
            if "DSAparams" not in _keys:
                _keys["DSAparams"] = dsa.generate_parameters(key_size=2048)
            _keys[kind, name] = _keys["DSAparams"].generate_private_key()
    return _keys[kind, name]


def cert_der(kind, c):
    from cryptography import x509
    from cryptography.hazmat.primitives import serialization
    from cryptography.x509.oid import NameOID
    k = (kind, c["issuer"], c["serial"], c["key"])
    if k not in _certs:
        name = x509.Name([x509.NameAttribute(NameOID.COMMON_NAME, c["issuer"]), x509.NameAttribute(NameOID.ORGANIZATION_NAME, "verif")])
        priv = key(kind, c["key"])
        cert = (x509.CertificateBuilder().subject_name(name).issuer_name(name).public_key(priv.public_key()).serial_number(c["serial"])
                .not_valid_before(datetime.datetime(2020, 1, 1)).not_valid_after(datetime.datetime(2040, 1, 1)).sign(priv, hashes_mod().SHA256()))
        _certs[k] = cert.public_bytes(serialization.Encoding.DER)
    return _certs[k]


def issuer_name(issuer):
    """the Name exactly as the certificates of that issuer carry it"""
    from asn1crypto import x509 as ax
    return ax.Certificate.load(cert_der("EC", dict(issuer=issuer, serial=77, key="k1")))["tbs_certificate"]["issuer"]


def sf_bytes(sfid):
    """'sf0' is the signed file; any other id 'sf1' / 'sf@<pos>' is the file with one byte altered"""
    if sfid == "sf0":
        return SF0
    pos = int(sfid.split("@")[1]) if "@" in sfid else 30
    return SF0[:pos] + bytes([SF0[pos] ^ 0x20 if SF0[pos] ^ 0x20 != SF0[pos] else SF0[pos] ^ 1]) + SF0[pos + 1:]


def hasher(alg):
    return getattr(hashes_mod(), alg.upper())()


def cms_attrs(a):
    from asn1crypto import cms
    out = []
    if a["ctype"] != "absent":
        out.append(cms.CMSAttribute({"type": "content_type", "values": ["data" if a["ctype"] == "data" else "signed_data"]}))
    if a["digest"] != ABSENT:
        out.append(cms.CMSAttribute({"type": "message_digest", "values": [hashlib.new(a["digest"][0], sf_bytes(a["digest"][1])).digest()]}))
    der = cms.CMSAttributes(out)
    if a.get("order") != "swapped" or len(out) < 2:
        return der
    # the same attributes in the reverse of their DER order, byte for byte as a signer not sorting the SET OF would store them
    parts = sorted((x.dump() for x in out), reverse=True)
    body = b"".join(parts)
    head = bytes([0x31, len(body)]) if len(body) < 128 else bytes([0x31, 0x81, len(body)])
    return cms.CMSAttributes.load(head + body)


def attrs_bytes(a):
    """the bytes a verifier presents for signed attributes: as stored, with the universal SET tag"""
    d = cms_attrs(a).dump()
    return b"\x31" + d[1:]


def message(over):
    return sf_bytes(over["sf"]) if over["kind"] == "sf" else attrs_bytes(over["attrs"])


def sign(kind, keyname, msg, alg):
    from cryptography.hazmat.primitives.asymmetric import ec, padding
    garbage = keyname.startswith("garbage")
    priv = key(kind, "k1" if garbage else keyname)
    if kind == "RSA":
        sig = priv.sign(msg, padding.PKCS1v15(), hasher(alg))
    elif kind == "EC":
        sig = priv.sign(msg, ec.ECDSA(hasher(alg)))
    else:
        sig = priv.sign(msg, hasher(alg))
    if garbage and "+" in keyname:
        # the same numbers in other bytes: an altered signature value although (r, s) of a DSA / ECDSA signature are unchanged
        how = keyname.split("+")[1]
        if how == "append":
            sig = sig + b"\x00"
        elif kind == "RSA":
            sig = b"\x00" + sig
        elif how == "ber":                       # SEQUENCE length in long form: 30 LL ... -> 30 81 LL ...
            sig = sig[:1] + b"\x81" + sig[1:] if sig[1] < 0x80 else sig[:1] + b"\x82\x00" + sig[2:]
        else:                                    # "pad": the first INTEGER gets a leading zero byte
            body = b"\x02" + bytes([sig[3] + 1]) + b"\x00" + sig[4:]
            sig = b"\x30" + bytes([len(body)]) + body if len(body) < 0x80 else b"\x30\x81" + bytes([len(body)]) + body
    elif garbage:
        pos = int(keyname.split("@")[1]) % len(sig) if "@" in keyname else len(sig) // 2
        sig = sig[:pos] + bytes([sig[pos] ^ 0x01]) + sig[pos + 1:]
    return sig


def verify_direct(kind, cert, sig, msg, alg):
    """independent of androguard: the certificate's key verifies sig over msg"""
    from cryptography import x509
    from cryptography.exceptions import InvalidSignature
    from cryptography.hazmat.primitives.asymmetric import ec, padding
    pub = x509.load_der_x509_certificate(cert).public_key()
    try:
        if kind == "RSA":
            pub.verify(sig, msg, padding.PKCS1v15(), hasher(alg))
        elif kind == "EC":
            pub.verify(sig, msg, ec.ECDSA(hasher(alg)))
        else:
            pub.verify(sig, msg, hasher(alg))
        return True
    except (InvalidSignature, ValueError):
        return False


SIGALG = {"RSA": lambda alg: "rsassa_pkcs1v15", "EC": lambda alg: alg + "_ecdsa", "DSA": lambda alg: alg + "_dsa" if alg in ("sha1", "sha224", "sha256") else "dsa"}


def realise(b, kind):
    """abstract block -> (pkcs7 bytes, sf bytes, [cert DER], abstract-vs-concrete consistency)"""
    from asn1crypto import cms
    certs = [cert_der(kind, c) for c in b["certs"]]
    sf = sf_bytes(b["sf"])
    infos, consistent = [], True
    for si in b["sis"]:
        sig = sign(kind, si["sig"]["key"], message(si["sig"]["over"]), si["alg"])
        d = {"version": "v1", "sid": cms.SignerIdentifier({"issuer_and_serial_number": cms.IssuerAndSerialNumber({"issuer": issuer_name(si["sid"][0]), "serial_number": si["sid"][1]})}),
             "digest_algorithm": {"algorithm": si["alg"]}, "signature_algorithm": {"algorithm": SIGALG[kind](si["alg"])}, "signature": sig}
        if si["attrs"]["present"]:
            d["signed_attrs"] = cms_attrs(si["attrs"])
        infos.append(cms.SignerInfo(d))
        # cross-check of the abstraction: SigOK of the spec <=> the real signature verifies over what a verifier presents
        presented = attrs_bytes(si["attrs"]) if si["attrs"]["present"] else sf
        for c, der in zip(b["certs"], certs):
            abstract = si["sig"] == dict(key=c["key"], over=(dict(kind="attrs", sf="", attrs=si["attrs"]) if si["attrs"]["present"] else dict(kind="sf", sf=b["sf"], attrs=NOATTRS)))
            if abstract != verify_direct(kind, der, sig, presented, si["alg"]):
                consistent = False
    sd = cms.SignedData({"version": "v1", "digest_algorithms": [{"algorithm": a} for a in sorted({si["alg"] for si in b["sis"]})],
                         # (b["embed"]: the non-detached variant -- the signed .SF travels inside the block; the file in the archive still decides)
                         "encap_content_info": ({"content_type": "data", "content": sf_bytes("sf0")} if b.get("embed") else {"content_type": "data"}), "certificates": [cms.CertificateChoices.load(c) for c in certs], "signer_infos": infos})
    return cms.ContentInfo({"content_type": "signed_data", "content": sd}).dump(), sf, certs, consistent


def make_apk(b, kind):
    p7, sf, certs, consistent = realise(b, kind)
    m = dict(pkg=["com", "x"], vcode=1, vname="1", perms=[], features=[], libraries=[], acts=[], svcs=[], rcvs=[], prvs=[], minsdk=b["minsdk"], target=0)
    manifest = Axml(c31.manifest_doc(m), [("android", c31.U)], False).build()
    bio = io.BytesIO()
    with zipfile.ZipFile(bio, "w", zipfile.ZIP_DEFLATED) as z:
        z.writestr("AndroidManifest.xml", manifest)
        z.writestr("classes.dex", b"dex\n035\0" + b"\0" * 104)
        z.writestr("META-INF/MANIFEST.MF", b"Manifest-Version: 1.0\r\n\r\n")
        z.writestr("META-INF/CERT.SF", sf)
        z.writestr("META-INF/CERT." + kind, p7)
    return bio.getvalue(), certs, consistent


def observe(apkmod, b, kind):
    raw, certs, consistent = make_apk(b, kind)
    a = apkmod.APK(raw, raw=True)
    try:
        der = a.get_certificate_der("META-INF/CERT." + kind)
        raised = ""
    except Exception as e:          # nothing is reported
        der, raised = None, type(e).__name__
    reported = 0 if der is None else (certs.index(der) + 1 if der in certs else 99)
    try:
        lst = [c.dump() for c in a.get_certificates_v1()]
    except Exception:
        lst = []
    listed = 0 if not lst else (certs.index(lst[0]) + 1 if len(lst) == 1 and lst[0] in certs else 99)
    return dict(b=b, reported=reported, listed=listed), consistent, raised


def observe_multi(apkmod, blocks, order):
    """several signature blocks in one APK (META-INF/CERT<i>.<kind> + CERT<i>.SF), queried on one APK object in the given order
    (after get_certificates_v1() has walked all of them): one record per block -- what is reported for a block must not depend on the others"""
    m = dict(pkg=["com", "x"], vcode=1, vname="1", perms=[], features=[], libraries=[], acts=[], svcs=[], rcvs=[], prvs=[], minsdk=blocks[0][0]["minsdk"], target=0)
    manifest = Axml(c31.manifest_doc(m), [("android", c31.U)], False).build()
    bio = io.BytesIO()
    parts, consistent = [], True
    with zipfile.ZipFile(bio, "w", zipfile.ZIP_DEFLATED) as z:
        z.writestr("AndroidManifest.xml", manifest)
        z.writestr("classes.dex", b"dex\n035\0" + b"\0" * 104)
        z.writestr("META-INF/MANIFEST.MF", b"Manifest-Version: 1.0\r\n\r\n")
        for i, (b, kind) in enumerate(blocks):
            p7, sf, certs, cons = realise(dict(b, minsdk=blocks[0][0]["minsdk"]), kind)
            consistent &= cons
            z.writestr("META-INF/CERT%d.SF" % i, sf)
            z.writestr("META-INF/CERT%d.%s" % (i, kind), p7)
            parts.append(("META-INF/CERT%d.%s" % (i, kind), certs))
    a = apkmod.APK(bio.getvalue(), raw=True)
    try:
        a.get_certificates_v1()
    except Exception:
        pass
    out = [None] * len(blocks)
    for i in order:
        name, certs = parts[i]
        try:
            der = a.get_certificate_der(name)
        except Exception:
            der = None
        rep = 0 if der is None else (certs.index(der) + 1 if der in certs else 99)
        out[i] = dict(b=dict(blocks[i][0], minsdk=blocks[0][0]["minsdk"]), reported=rep, listed=rep)
    return out, consistent


def to_py(v):
    if isinstance(v, dict):
        return {k: to_py(x) for k, x in v.items()}
    if isinstance(v, tuple):
        return [to_py(x) for x in v]
    return v


C1 = dict(issuer="i1", serial=1, key="k1")
C2 = dict(issuer="i2", serial=2, key="k2")
C1B = dict(issuer="i1", serial=1, key="k3")


def attrs(ctype, digest, order="der"):
    return dict(present=True, ctype=ctype, digest=digest, order=order)


def over(a, sf="sf0"):
    return dict(kind="attrs", sf="", attrs=a) if a["present"] else dict(kind="sf", sf=sf, attrs=NOATTRS)


def signer(alg, wa, sid=("i1", 1), keyname="k1", shown=None, signed=None):
    good = attrs("data", [alg, "sf0"]) if wa else NOATTRS
    return dict(sid=list(sid), alg=alg, attrs=shown or good, sig=dict(key=keyname, over=over(signed or shown or good)))


def base_block(alg, wa, minsdk=21, sf="sf0", bag=None):
    return dict(sf=sf, certs=bag or [C1], sis=[signer(alg, wa)], minsdk=minsdk)


def random_block(rnd):
    alg = rnd.choice(["sha1", "sha256", "sha512"])
    sis = []
    for _ in range(rnd.randrange(1, 4)):
        wa = rnd.random() < 0.5
        t = rnd.choice(["none", "none", "sig", "sid_serial", "sid_other", "other_key", "attr_digest", "attr_digest_resigned", "attr_ctype", "attr_noctype", "attr_nodigest",
                        "attr_reordered", "attr_reordered", "attr_reordered_signed"])
        s = signer(alg, wa)
        if t == "sig":
            s["sig"]["key"] = "garbage@%d" % rnd.randrange(300)
        elif t == "sid_serial":
            s["sid"] = ["i1", 9]
        elif t == "sid_other":
            s["sid"] = ["i2", 2]
        elif t == "other_key":
            s["sig"]["key"] = "k2"
        elif wa and t == "attr_digest":
            s["attrs"] = attrs("data", [alg, "sf@%d" % rnd.randrange(len(SF0))])
        elif wa and t == "attr_digest_resigned":
            s = signer(alg, True, shown=attrs("data", [alg, "sf@%d" % rnd.randrange(len(SF0))]))
        elif wa and t == "attr_ctype":
            s = signer(alg, True, shown=attrs("other", [alg, "sf0"]))
        elif wa and t == "attr_noctype":
            s = signer(alg, True, shown=attrs("absent", [alg, "sf0"]))
        elif wa and t == "attr_nodigest":
            s = signer(alg, True, shown=attrs("data", ABSENT))
        elif wa and t == "attr_reordered":           # stored in another order than the one that was signed
            s = signer(alg, True, shown=attrs("data", [alg, "sf0"], "swapped"), signed=attrs("data", [alg, "sf0"]))
        elif wa and t == "attr_reordered_signed":    # signed in the order it is stored in
            s = signer(alg, True, shown=attrs("data", [alg, "sf0"], "swapped"))
        sis.append(s)
    bag = rnd.choice([[C1], [C1, C2], [C2, C1], [C1B, C1], [C2], [C1, C1B, C2]])
    return dict(sf=rnd.choice(["sf0", "sf0", "sf0", "sf@%d" % rnd.randrange(len(SF0))]), certs=bag, sis=sis, minsdk=rnd.choice([0, 21, 24, 30]))


def feats(b):
    f = []
    if b["sf"] != "sf0":
        f.append("sf-altered")
    for si in b["sis"]:
        if si["sig"]["key"].startswith("garbage"):
            f.append("signature-altered")
        if si["attrs"]["present"] and si["attrs"]["digest"] not in (ABSENT, [si["alg"], "sf0"]):
            f.append("digest-attribute-altered")
        if si["attrs"]["present"] and si["attrs"]["ctype"] != "data":
            f.append("content-type-" + si["attrs"]["ctype"])
        if si["sid"] != ["i1", 1]:
            f.append("reference-altered")
    if len(b["sis"]) > 1:
        f.append("several-signers")
    return "+".join(sorted(set(f))) or "intact"


def run(chk):
    from androguard.core import apk
    quick = chk.tier == "quick"
    rnd = random.Random(chk.seed)
    for c, name in (("V1VerifyMC_nodigest.cfg", "digest_attribute_not_compared"), ("V1VerifyMC_anycert.cfg", "first_certificate_of_the_bag_used")):
        ru = tlc.run("V1VerifyMC", c, timeout=600)
        chk.extra["counterexample_" + name] = any("ReportedVerifies" in e for e in ru.errors)
        if not chk.extra["counterexample_" + name]:
            raise tlc.TLCError("variant %s no longer yields its counterexample" % c)
    cfg = "V1VerifyMC_quick.cfg" if quick else "V1VerifyMC_thorough.cfg"
    r, states = tlc.dump_states("V1VerifyMC", cfg, timeout=3000, heap="8g")
    chk.model(r, "V1VerifyMC/" + cfg)
    recs, metas, inconsistent = [], [], 0
    seen = set()
    finals = [st for st in states if st["pc"] in ("done", "abort")]
    if quick:
        finals = finals[chk.seed % 2::2]
    else:
        finals = finals[chk.seed % 6::6]
    for n, st in enumerate(finals):
        b = to_py(dict(st["b"]))
        kind = KINDS[n % 3]
        rec, consistent, raised = observe(apk, b, kind)
        inconsistent += not consistent
        if rec["reported"] != st["result"] and C1B not in b["certs"] and len(b["sis"]) == 1:      # (SET OF certificates / signer infos have no order of their own: 'first' is determined only here)
            # the property decides; the procedure's result is informative (a sound implementation may try more certificates)
            chk.extra.setdefault("differs_from_procedure", []).append(dict(features=feats(b), got=rec["reported"], procedure=st["result"]))
        recs.append(rec)
        metas.append((b, kind, raised))
    n_s2c = len(recs)
    # byte sweeps over the .SF and the signature value of intact blocks
    for kind in KINDS:
        for alg in ("sha1", "sha256"):
            for wa in (False, True):
                ok, consistent, raised = observe(apk, base_block(alg, wa), kind)
                inconsistent += not consistent
                if ok["reported"] != 1:
                    chk.violation("intact-block-not-reported:%s" % kind, "V1Verify.IntactReported", dict(kind=kind, alg=alg, signed_attrs=wa, reported=ok["reported"], raised=raised))
                recs.append(ok)
                metas.append((ok["b"], kind, raised))
                siglen = len(sign(kind, "k1", b"x", alg))
                sfpos = range(len(SF0)) if not quick else rnd.sample(range(len(SF0)), 10)
                sgpos = range(siglen) if not quick else rnd.sample(range(siglen), 10)
                for n_, p in enumerate(list(sfpos) + [None, None]):
                    bb = base_block(alg, wa, minsdk=rnd.choice([21, 24]), sf=("sf@%d" % p) if p is not None else "sf0")
                    if n_ % 2 or p is None:
                        bb["embed"] = True
                    rec, consistent, raised = observe(apk, bb, kind)
                    inconsistent += not consistent
                    recs.append(rec)
                    metas.append((rec["b"], kind, raised))
                for p in list(sgpos) + ["+append", "+ber", "+pad"]:
                    b = base_block(alg, wa, minsdk=rnd.choice([21, 24]))
                    b["sis"][0]["sig"]["key"] = ("garbage@%d" % p) if isinstance(p, int) else "garbage" + p
                    rec, consistent, raised = observe(apk, b, kind)
                    inconsistent += not consistent
                    recs.append(rec)
                    metas.append((b, kind, raised))
    # several signature blocks in one archive (intact and altered ones mixed, same and different digest algorithms), both query orders
    for _ in range(40 if quick else 600):
        alg = rnd.choice(["sha1", "sha256"])
        blocks = []
        for _i in range(rnd.choice([2, 2, 3])):
            wa = rnd.random() < 0.7
            b = base_block(alg if rnd.random() < 0.7 else "sha256", wa, sf=rnd.choice(["sf0", "sf0", "sf@%d" % rnd.randrange(len(SF0))]))
            if rnd.random() < 0.2:
                b["sis"][0]["sig"]["key"] = "garbage@%d" % rnd.randrange(300)
            blocks.append((b, rnd.choice(KINDS)))
        order = list(range(len(blocks)))
        if rnd.random() < 0.5:
            order.reverse()
        out, consistent = observe_multi(apk, blocks, order)
        inconsistent += not consistent
        for rec, (b, kind) in zip(out, blocks):
            recs.append(rec)
            metas.append((rec["b"], kind, "multi-block archive"))
    for _ in range(120 if quick else 3000):
        b = random_block(rnd)
        kind = rnd.choice(KINDS)
        rec, consistent, raised = observe(apk, b, kind)
        inconsistent += not consistent
        recs.append(rec)
        metas.append((b, kind, raised))
    if inconsistent:
        raise tlc.TLCError("harness: abstract signature validity disagrees with direct verification on %d blocks" % inconsistent)
    chk.bounds = dict(cfg=cfg, model="1 (thorough: 2) signer infos x 10 alterations x 4 certificate bags x intact/altered .SF x minSdk 21/24 x signed attributes on/off",
                      sweeps="RSA-2048 / EC P-256 / DSA-2048 x sha1/sha256 x signed attributes on/off: %s single-byte alterations of the .SF and of the signature value" % ("10 sampled" if quick else "all"),
                      random="1..3 signer infos with one alteration each, 6 certificate bags, sha1/sha256/sha512")
    res = tlc.validate("V1Verify_Trace", "V1Verify_Trace.cfg", recs, shards=16, heap="3g", timeout=3000)
    chk.trace_result(res, "V1Verify_Trace")
    chk.c2s -= res["accepted"]
    chk.s2c += n_s2c
    chk.c2s += len(recs) - n_s2c
    for gi, why in res["rejects"]:
        b, kind, raised = metas[gi]
        cl = "+".join(sorted(w.split(".", 1)[1] for w in why[0]))
        chk.violation("%s:%s" % (cl, feats(b)), "V1Verify_Trace:" + cl, dict(kind=kind, block=b, reported=recs[gi]["reported"], listed=recs[gi]["listed"], raised=raised))
    chk.extra["raised_instead_of_none"] = sorted({m[2] for m in metas if m[2]})
    chk.sample(dict(kind=metas[0][1], block=metas[0][0], reported=recs[0]["reported"]))
    rejected = {i for i, _ in res["rejects"]}
    k = next((i for i in range(len(recs)) if i not in rejected and recs[i]["reported"] == 1 and recs[i]["b"]["sf"] == "sf0"), None)
    if k is None:
        raise tlc.TLCError("vacuous: no accepted record reports a certificate")
    bad = copy.deepcopy(recs[k])
    bad["b"]["sf"] = "sf1"
    st = tlc.validate("V1Verify_Trace", "V1Verify_Trace.cfg", [bad], shards=1)
    if not st["rejects"]:
        raise tlc.TLCError("binding self-test failed")
    chk.extra["self_test_rejected"] = True
    chk.assumptions += ["cryptography is abstract in the specification; the harness maps keys / digests / signatures to real ones and cross-checks every (certificate, signer info) pair by direct verification",
                        "an exception escaping get_certificate_der counts as 'no certificate reported'"]
