"""C03 LEB128: spec Leb / LebReader / Leb_Trace."""
import io
import random

from .. import tlc
from ..core import limbs32


class _CM:
    """Only the packer table of a ClassManager is used by the LEB functions."""
    def __init__(self):
        from androguard.core.dex import DalvikPacker
        self.packer = DalvikPacker(0x12345678)


def _read(fn, cm, b):
    buf = io.BytesIO(bytes(b) + b"\xAA" * 8)
    v = fn(cm, buf)
    return v, buf.tell()


def run(chk):
    from androguard.core import dex
    cm = _CM()
    quick = chk.tier == "quick"
    rnd = random.Random(chk.seed)
    cfg = "LebReader_quick.cfg" if quick else "LebReader_thorough.cfg"
    chk.bounds = dict(cfg=cfg, lengths="1..5", note="lengths 1-2 over ByteAll, 3-5 over ByteEdge, fifth byte over all in-domain values")

    # --- model: properties of the specification itself + S->C cases -------------------------------------------
    r, states = tlc.dump_states("LebReader", cfg, only={"kind", "bs", "pos", "val"})
    chk.model(r, "LebReader/" + cfg)
    # expected values come from the spec: re-derive them from the *final* state of each behaviour (done, acc) is what
    # TLC checked (ReaderExact); for replay we need Expected per initial state, produced by a second dump below.
    r2, exp = tlc.dump_states("LebExpect", cfg.replace("LebReader", "LebExpect"), only={"kind", "bs", "exp", "p1", "val"})
    chk.model(r2, "LebExpect")
    n = 0
    for st in exp:
        kind, bs = st["kind"], list(st["bs"])
        want = list(st["exp"])
        if kind in ("u", "eu"):
            v, used = _read(dex.readuleb128, cm, bs)
            got = limbs32(v)
            ok = (got == want and used == len(bs) and 0 <= v < 2 ** 32)
            p1v, used1 = _read(dex.readuleb128p1, cm, bs)
            p1 = st["p1"]
            ok1 = (used1 == len(bs) and (p1v < 0) == p1["neg"] and limbs32(p1v) == list(p1["v"]) and -1 <= p1v < 2 ** 32 - 1)
            if not ok1:
                chk.violation("uleb128p1-decode", "P1", dict(bytes=bs, got=p1v, used=used1, want=p1))
        else:
            v, used = _read(dex.readsleb128, cm, bs)
            got = limbs32(v)
            ok = (got == want and used == len(bs) and -2 ** 31 <= v < 2 ** 31)
        if not ok:
            chk.violation("%sleb128-decode" % kind[-1], "ULeb" if kind[-1] == "u" else "SLeb", dict(kind=kind, bytes=bs, got=v, used=used, want=want))
        if kind in ("eu", "es"):
            chk.sample(dict(kind=kind, value=list(st["val"]), canonical=bs, decoded=v))
        elif n % 9973 == 0:
            chk.sample(dict(kind=kind, bytes=bs, spec=want, code=v, consumed=used))
        n += 1
    chk.replayed(n)

    # --- C->S: random byte strings and values, validated by Leb_Trace ---------------------------------------------
    N = 20000 if quick else 300000
    recs = []
    edges = [0, 1, 0x3F, 0x40, 0x7F, 0x80, 0x3FFF, 0x4000, 0x1FFFFF, 0x200000, 0xFFFFFFF, 0x10000000, 0x7FFFFFFF, 0x80000000, 0xFFFFFFFF]
    for i in range(N):
        w = i % 5
        if w in (0, 1, 2):   # decode arbitrary well-formed sequences (in and out of domain)
            ln = rnd.choice([1, 2, 3, 4, 5, 5])
            bs = [rnd.randrange(128, 256) for _ in range(ln - 1)] + [rnd.randrange(0, 128)]
            if w == 0:
                v, used = _read(dex.readuleb128, cm, bs)
                recs.append(dict(k="u", b=bs, v=limbs32(v), n=used))
            elif w == 1:
                v, used = _read(dex.readsleb128, cm, bs)
                recs.append(dict(k="s", b=bs, v=limbs32(v), n=used))
            else:
                v, used = _read(dex.readuleb128p1, cm, bs)
                recs.append(dict(k="p1", b=bs, v=limbs32(v), n=used, neg=v < 0))
        else:
            if rnd.random() < 0.3:
                u = (rnd.choice(edges) + rnd.choice([-1, 0, 1])) & 0xFFFFFFFF
            else:
                u = rnd.getrandbits(rnd.choice([7, 14, 21, 28, 32]))
                if rnd.random() < 0.5:
                    u = (-u) & 0xFFFFFFFF
            if w == 3:
                b = list(dex.writeuleb128(cm, u))
                back, _ = _read(dex.readuleb128, cm, b)
                recs.append(dict(k="wu", v=limbs32(u), b=b, r=limbs32(back)))
            else:
                sv = u - (1 << 32) if u & 0x80000000 else u
                b = list(dex.writesleb128(cm, sv))
                back, _ = _read(dex.readsleb128, cm, b)
                recs.append(dict(k="ws", v=limbs32(u), b=b, r=limbs32(back)))
    res = tlc.validate("Leb_Trace", "Leb_Trace.cfg", recs, shards=8 if quick else 16)
    chk.trace_result(res, "Leb_Trace")
    for gi, why in res["rejects"]:
        rec = recs[gi]
        chk.violation("leb-%s-%s" % (rec["k"], "+".join(sorted(why[0]))), "Leb_Trace." + "+".join(sorted(why[0])), rec)
    chk.sample(recs[0])
    chk.sample(recs[3])

    # --- binding self-test: a corrupted record must be rejected by the trace spec ------------------------------
    rejected = {gi for gi, _ in res["rejects"]}
    bad = [dict(r) for i, r in enumerate(recs[:200]) if i not in rejected][:50]      # accepted records only: a real rejection must not be taken for the test's
    idx = None
    for j, rr in enumerate(bad):
        if rr["k"] in ("u", "s") and (len(rr["b"]) < 5):
            rr["v"] = [rr["v"][0] ^ 1, rr["v"][1]]
            idx = j
            break
    if idx is not None:
        st = tlc.validate("Leb_Trace", "Leb_Trace.cfg", bad, shards=1)
        if [i for i, _ in st["rejects"]] != [idx]:
            raise tlc.TLCError("binding self-test: corrupted record %d not (only) rejected: %s" % (idx, st["rejects"]))
        chk.extra["self_test_rejected"] = True
    chk.assumptions += ["five-byte sequences whose fifth byte carries bits beyond bit 31 are outside the statement: only 'consumes five bytes' is checked",
                        "TLC 1.8 evaluates the spec operators correctly"]
