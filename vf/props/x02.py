"""X02 (extension, not a listed property): what a Session holds after add / reset histories: spec SessionStore / SessionStore_Trace."""
import io
import os
import shutil
import zipfile

from .. import tlc
from ..axmlgen import Axml
from ..dexgen import Dex
from . import c31


def dex_file(tag, strings):
    code = [("const-string", 0, s) for s in strings] + [("return-void",)]
    c = dict(name="Lx/%s;" % tag, super="Ljava/lang/Object;", flags=1, sfields=[], ifields=[],
             dmethods=[dict(name="m", ret="V", params=[], flags=9, code=dict(regs=1, ins=0, outs=0, insns=code))], vmethods=[])
    return Dex([c]).build()


def apk_file(dexes):
    m = dict(pkg=["com", "x"], vcode=1, vname="1", perms=[], features=[], libraries=[], acts=[], svcs=[], rcvs=[], prvs=[], minsdk=21, target=0)
    bio = io.BytesIO()
    with zipfile.ZipFile(bio, "w", zipfile.ZIP_DEFLATED) as z:
        z.writestr("AndroidManifest.xml", Axml(c31.manifest_doc(m), [("android", c31.U)], False).build())
        for i, d in enumerate(dexes):
            z.writestr("classes%s.dex" % ("" if i == 0 else str(i + 1)), d)
    return bio.getvalue()


def run(chk):
    import hashlib
    from androguard import session
    from androguard.core import dex
    r, states = tlc.dump_states("SessionStore", "SessionStore.cfg", timeout=600)
    chk.model(r, "SessionStore")
    d1 = dex_file("D1", ["one", "both", "common"])
    d2 = dex_file("D2", ["two", "both", "common", "zwei"])
    s1, s2 = set(dex.DEX(d1).get_strings()), set(dex.DEX(d2).get_strings())
    files = {"D1": d1, "D2": d2, "A": apk_file([d1, d2]), "B": apk_file([d1])}
    name_of = {hashlib.sha256(v).hexdigest(): k for k, v in files.items()}
    work = tlc.scratch_dir("x02_")
    recs = []
    try:
        for n, st in enumerate(states):
            hist = [list(h) for h in st["hist"]]
            s = session.Session(db_url="sqlite:///" + os.path.join(work, "s%d.db" % n))
            err = ""
            try:
                for op, f in hist:
                    if op == "add":
                        s.add(f + (".apk" if f in ("A", "B") else ".dex"), files[f])
                    else:
                        s.reset()
                rec = dict(hist=hist, open=bool(s.isOpen()), dex=sorted(name_of.get(dg, dg[:8]) for dg, _, _ in s.get_objects_dex()),
                           apks=sorted(name_of.get(dg, dg[:8]) for dg, _ in s.get_all_apks()), nstr=int(s.get_nb_strings()))
            except Exception as e:
                err = "%s: %s" % (type(e).__name__, e)
                rec = dict(hist=hist, open=False, dex=["<exception>"], apks=[], nstr=-1)
            rec.update(n1=len(s1), n2=len(s2), shared=len(s1 & s2), err=err)
            recs.append(rec)
    finally:
        shutil.rmtree(work, ignore_errors=True)
    chk.replayed(len(recs))
    res = tlc.validate("SessionStore_Trace", "SessionStore_Trace.cfg", [{k: v for k, v in r_.items() if k != "err"} for r_ in recs], shards=4)
    chk.trace_result(res, "SessionStore_Trace")
    for gi, why in res["rejects"]:
        rec = recs[gi]
        cl = "+".join(sorted(w.split(".", 1)[1] for w in why[0]))
        adds = [f for op, f in rec["hist"] if op == "add"]
        feat = []
        if len(adds) != len(set(adds)):
            feat.append("same-file-added-twice")
        if any(a in adds for a in ("A", "B")) and any(d_ in adds for d_ in ("D1", "D2")):
            feat.append("dex-also-inside-an-added-apk")
        if "A" in adds and "B" in adds:
            feat.append("two-apks-sharing-a-dex")
        chk.violation("%s:%s" % (cl, "+".join(feat) or "plain"), "SessionStore_Trace:" + cl, dict(history=rec["hist"], observed={k: rec[k] for k in ("open", "dex", "apks", "nstr")}, error=rec["err"]))
    chk.bounds = dict(model="every history of <= 3 calls out of add(D1), add(D2), add(A = {D1, D2}), add(B = {D1}), reset")
    chk.sample(recs[-1])
