"""C04 encoded values: spec EncodedValue / EncodedValueMC / EncodedValue_Trace."""
import random
import re

from .. import tlc
from ..core import limbs64
from ..dexgen import Dex

DESC = dict(byte="B", short="S", char="C", int="I", long="J")
JAVA = dict(B="byte", S="short", C="char", I="int", J="long")
REFS = dict(
    string=["s0", "s1", "héllo"],
    type=["I", "Lt/V;", "[Ljava/lang/String;"],
    field=[("Lt/V;", "I", "zz0"), ("Lx/Other;", "J", "q")],
    method=[("Lt/V;", ("V", ()), "m"), ("Lx/Other;", ("I", ("J",)), "n")],
    enum=[("Lx/Color;", "Lx/Color;", "RED")],
)


def leaf_int(t, bs):
    """dexgen encoded value with explicit width for integer-like type t and bytes bs"""
    return (t, int.from_bytes(bytes(bs), "little"), len(bs))


def build(cases, nested):
    """cases: list of (t, bytes) integer-like leaves placed as static-field initialisers *and* annotation elements.
    nested: a list of encoded values (arbitrary trees) placed as further annotation elements."""
    sfields = [("f%04d" % i, DESC[t], 9) for i, (t, bs) in enumerate(cases)]
    # trailing static fields without an initial value: the static_values array is shorter than the field list (compilers trim trailing defaults)
    sfields += [("zy%d" % i, "I", 9) for i in range(len(cases) % 3)]
    sv = [leaf_int(t, bs) for (t, bs) in cases]
    elems = [("e%04d" % i, leaf_int(t, bs)) for i, (t, bs) in enumerate(cases)]
    elems += [("n%04d" % i, v) for i, v in enumerate(nested)]
    cls = dict(name="Lt/V;", super="Ljava/lang/Object;", flags=1, sfields=sfields, ifields=[("zz0", "I", 1)],
               dmethods=[dict(name="m", ret="V", params=[], flags=9, code=dict(regs=1, ins=0, outs=0, insns=[("return-void",)]))], vmethods=[],
               static_values=sv, annotations=[(1, "Lt/Ann;", elems)])
    g = Dex([cls], extra_strings=REFS["string"], extra_types=REFS["type"], extra_fields=REFS["field"] + REFS["enum"],
            extra_methods=[(c, (p[0], list(p[1])), n) for (c, p, n) in REFS["method"]])
    return g, g.build()


def obs_int(v, t):
    bits = dict(byte=8, short=16, char=16, int=32, long=64)[t]
    if not isinstance(v, int) or isinstance(v, bool):
        return dict(got=[-9, 0, 0, 0], gotneg=False, gotfits=False)
    fits = (0 <= v < (1 << bits)) if t == "char" else (-(1 << (bits - 1)) <= v < (1 << (bits - 1)))
    return dict(got=limbs64(v), gotneg=v < 0, gotfits=fits)


def flatten(g, declared, ev, path, out):
    """walk a declared encoded value and the parsed EncodedValue in parallel -> leaf records"""
    from androguard.core import dex
    k = declared[0]
    base = dict(p=path, t=k, b=[], arg=0, got=[], gotneg=False, gotfits=True, src=[-1], srcneg=False, gotidx=-1, gotbool=False, isbool=False,
                isnull=False, want="", have="")
    if ev is None:
        out.append(dict(base, t="shape", want=k, have="missing"))
        return
    if k in DESC or k == "char":
        n = declared[2] if len(declared) > 2 else None
        val = declared[1]
        bs = list((val & ((1 << (8 * n)) - 1)).to_bytes(n, "little"))
        out.append(dict(base, b=bs, **obs_int(ev.get_value(), k)))
    elif k in ("string", "type", "field", "method", "enum"):
        table = dict(string="s", type="t", field="f", enum="f", method="m")[k]
        ref = declared[1]
        if k == "method":
            ref = (ref[0], (ref[1][0], tuple(ref[1][1])), ref[2])
        i = g.idx[table][ref]
        need = max(1, (i.bit_length() + 7) // 8)
        n = max(declared[2], need) if len(declared) > 2 else need
        out.append(dict(base, b=list(i.to_bytes(n, "little")), gotidx=resolve_back(g, k, ev.get_value())))
    elif k == "boolean":
        v = ev.get_value()
        out.append(dict(base, arg=1 if declared[1] else 0, gotbool=bool(v), isbool=isinstance(v, bool)))
    elif k == "null":
        out.append(dict(base, isnull=ev.get_value() is None and ev.get_value_type() == 0x1e))
    elif k == "array":
        arr = ev.get_value()
        vals = arr.get_values() if isinstance(arr, dex.EncodedArray) else None
        have = "array[%d]" % len(vals) if vals is not None else type(arr).__name__
        out.append(dict(base, t="shape", want="array[%d]" % len(declared[1]), have=have))
        if vals is not None:
            for j, (dv, e) in enumerate(zip(declared[1], vals)):
                flatten(g, dv, e, "%s/%d" % (path, j), out)
    elif k == "annotation":
        ann = ev.get_value()
        flatten_annotation(g, declared[1], ann if isinstance(ann, dex.EncodedAnnotation) else None, path, out, base)


def flatten_annotation(g, declared, ann, path, out, base):
    at, elems = declared
    elems = sorted(elems, key=lambda e: g.idx["s"][e[0]])
    if ann is None:
        out.append(dict(base, t="shape", want="annotation", have="missing"))
        return
    got = ann.get_elements()
    cm = ann.CM
    have = "annotation %s [%s]" % (cm.get_type(ann.get_type_idx()), ",".join(cm.get_string(e.get_name_idx()) for e in got))
    want = "annotation %s [%s]" % (at, ",".join(e[0] for e in elems))
    out.append(dict(base, t="shape", want=want, have=have))
    if want == have:
        for (n, dv), e in zip(elems, got):
            flatten(g, dv, e.get_value(), path + "/" + n, out)


def resolve_back(g, k, v):
    """resolved item -> pool index (or -1)"""
    try:
        if k == "string":
            return g.idx["s"].get(v, -1)
        if k == "type":
            return g.idx["t"].get(v, -1)
        if k in ("field", "enum"):
            cls, typ, name = v
            return g.idx["f"].get((cls, typ, name), -1)
        if k == "method":
            cls, name, proto = v[0], v[1], v[2]
            m = re.match(r"\((.*)\)(.*)", proto.replace(" ", "") if isinstance(proto, str) else "".join(proto))
            params = tuple(re.findall(r"\[*(?:L[^;]+;|[ZBSCIJFD])", m.group(1)))
            return g.idx["m"].get((cls, (m.group(2), params), name), -1)
    except Exception:
        return -2
    return -3


def observe(dex, g, raw, cases, nested):
    from androguard.core.analysis.analysis import Analysis
    from androguard.decompiler.decompile import DvClass
    d = dex.DEX(raw)
    c = d.get_class("Lt/V;")
    out = []
    byname = {f.get_name(): f for f in c.get_fields()}
    # decompiler field initialisers
    src_vals = {}
    try:
        dx = Analysis(d)
        dv = DvClass(c, dx)
        dv.process()
        for line in dv.get_source().splitlines():
            m = re.match(r"\s*(?:\w+ )*?(\w+) (f\d{4}) = (.+);$", line)
            if m:
                src_vals[m.group(2)] = (m.group(1), m.group(3))
    except Exception as e:
        src_vals = {"__error__": repr(e)}
    for i, (t, bs) in enumerate(cases):
        f = byname.get("f%04d" % i)
        iv = f.get_init_value() if f is not None else None
        rec = dict(p="static/f%04d" % i, t=t, b=list(bs), arg=0, src=[-1], srcneg=False, gotidx=-1, gotbool=False, isbool=False, isnull=False, want="", have="")
        rec.update(obs_int(iv.get_value() if iv is not None else None, t))
        sv = src_vals.get("f%04d" % i)
        if sv is None:
            rec["src"], rec["srcneg"] = [-7, 0, 0, 0], False
        else:
            try:
                val = int(sv[1].rstrip("L"), 0)
                rec["src"], rec["srcneg"] = limbs64(val), val < 0
                if sv[0] != JAVA[DESC[t]]:
                    rec["src"] = [-6, 0, 0, 0]
            except ValueError:
                rec["src"] = [-5, 0, 0, 0]
        out.append(rec)
    anns = c._get_annotation_type_ids()
    decl_elems = [("e%04d" % i, leaf_int(t, bs)) for i, (t, bs) in enumerate(cases)] + [("n%04d" % i, v) for i, v in enumerate(nested)]
    base = dict(p="ann", t="shape", b=[], arg=0, got=[], gotneg=False, gotfits=True, src=[-1], srcneg=False, gotidx=-1, gotbool=False, isbool=False,
                isnull=False, want="", have="")
    flatten_annotation(g, ("Lt/Ann;", decl_elems), anns[0] if anns else None, "ann", out, base)
    return out, src_vals.get("__error__")


def rand_tree(rnd, depth):
    c = rnd.random()
    if depth > 0 and c < 0.2:
        return ("array", [rand_tree(rnd, depth - 1) for _ in range(rnd.randrange(0, 4))])
    if depth > 0 and c < 0.35:
        return ("annotation", ("Lt/Inner;", [("k%d" % j, rand_tree(rnd, depth - 1)) for j in range(rnd.randrange(0, 3))]))
    if c < 0.45:
        return ("boolean", rnd.random() < 0.5)
    if c < 0.5:
        return ("null",)
    if c < 0.75:
        k = rnd.choice(["string", "type", "field", "method", "enum"])
        ref = rnd.choice(REFS[k])
        if k == "method":
            ref = (ref[0], (ref[1][0], list(ref[1][1])), ref[2])
        return (k, ref, rnd.choice([1, 2, 3, 4]))
    t = rnd.choice(["byte", "short", "char", "int", "long"])
    w = rnd.randrange(1, dict(byte=1, short=2, char=2, int=4, long=8)[t] + 1)
    bs = [rnd.choice([0, 1, 0x7F, 0x80, 0xFF, rnd.randrange(256)]) for _ in range(w)]
    return leaf_int(t, bs)


def run(chk):
    from androguard.core import dex
    quick = chk.tier == "quick"
    rnd = random.Random(chk.seed)
    chk.bounds = dict(enumerated="byte/short/char/int/long x every legal width x (low, fill, top) bytes over {00,01,7F,80,FF}",
                      nesting="arrays / annotations to depth 2 (random)")
    r, states = tlc.dump_states("EncodedValueMC", "EncodedValueMC.cfg")
    chk.model(r, "EncodedValueMC")
    states.sort(key=lambda s: (s["t"], len(s["bs"]), s["bs"]))
    n = 0
    allrecs = []
    for k in range(0, len(states), 200):
        batch = states[k:k + 200]
        cases = [(st["t"], list(st["bs"])) for st in batch]
        nested = [rand_tree(rnd, 2) for _ in range(40)]
        g, raw = build(cases, nested)
        recs, err = observe(dex, g, raw, cases, nested)
        if err:
            chk.violation("decompiler-exception", "DvClass.get_source", dict(error=err))
        allrecs += recs
        # S->C comparison against the TLC-computed value for the enumerated leaves (static + annotation occurrences)
        exp = {}
        for i, st in enumerate(batch):
            exp["static/f%04d" % i] = st
            exp["ann/e%04d" % i] = st
        for rec in recs:
            st = exp.get(rec["p"])
            if st is None:
                continue
            want, neg = list(st["exp"]["v"]), st["exp"]["neg"]
            where = rec["p"].split("/")[0]
            if rec["got"] != want or rec["gotneg"] != neg or not rec["gotfits"]:
                chk.violation("value:%s:%s:w%d:%s" % (where, st["t"], len(st["bs"]), "neg" if neg else "pos"), "EncodedValue.Value",
                              dict(where=rec["p"], type=st["t"], bytes=list(st["bs"]), want=want, got=rec["got"], gotneg=rec["gotneg"]))
            if rec["src"] != [-1] and (rec["src"] != want or rec["srcneg"] != neg):
                chk.violation("initialiser:%s:w%d:%s" % (st["t"], len(st["bs"]), "neg" if neg else "pos"), "decompiler field initialiser",
                              dict(where=rec["p"], type=st["t"], bytes=list(st["bs"]), want=want, printed=rec["src"]))
            n += 1
        chk.sample(dict(type=batch[0]["t"], bytes=list(batch[0]["bs"]), spec=batch[0]["exp"], parser=recs[0]["got"], decompiler=recs[0]["src"]), cap=3)
    chk.replayed(n)
    # more random nested trees for the trace direction
    for _ in range(3 if quick else 60):
        cases = []
        nested = [rand_tree(rnd, 2) for _ in range(150)]
        g, raw = build(cases, nested)
        recs, err = observe(dex, g, raw, cases, nested)
        allrecs += recs
    res = tlc.validate("EncodedValue_Trace", "EncodedValue_Trace.cfg", allrecs, shards=8 if quick else 16)
    chk.trace_result(res, "EncodedValue_Trace")
    for gi, why in res["rejects"]:
        rec = allrecs[gi]
        neg = "neg" if rec["b"] and rec["b"][-1] >= 128 else "pos"
        chk.violation("trace:%s:%s:w%d:%s" % (rec["p"].split("/")[0], "+".join(sorted(why[0])), len(rec["b"]), neg), "EncodedValue_Trace", rec)
    rejected = {i for i, _ in res["rejects"]}
    k = next((i for i in range(len(allrecs)) if i not in rejected and allrecs[i]["t"] == "int"), None)
    if k is not None:
        bad = dict(allrecs[k])
        bad["got"] = [bad["got"][0] ^ 1] + bad["got"][1:]
        st = tlc.validate("EncodedValue_Trace", "EncodedValue_Trace.cfg", [bad], shards=1)
        if not st["rejects"]:
            raise tlc.TLCError("binding self-test failed")
        chk.extra["self_test_rejected"] = True
    chk.assumptions += ["FLOAT/DOUBLE values are outside the statement and are not generated",
                        "the decompiler's initialiser is read back as an integer literal (a trailing L is accepted)"]
