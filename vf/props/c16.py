"""C16: see vf/xrefrun.py + vf/xrefobs.py (spec Xref / XrefMC / Xref_Trace)."""
from ..xrefrun import run_property


def run(chk):
    run_property(chk, "C16")
