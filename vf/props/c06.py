"""C06 DEX strings: spec Mutf8 / Mutf8MC / Mutf8_Trace."""
import io
import random

from .. import tlc
from ..dexgen import Dex, from_units, mutf8, units


def U(s):
    return units(s)


def dex_with_strings(strs, use, order=None, inflate=False):
    """DEX holding `strs` in its pool; the strings in `use` are also a field name and a const-string operand.
    order: None (string data in index order) | 'reverse' | 'interleave' (a string id only stores an offset)"""
    code = []
    for s in use:
        code.append(("const-string", 0, s))
    code.append(("return-void",))
    cls = dict(name="Lt/S;", super="Ljava/lang/Object;", flags=1, sfields=[(s, "I", 9) for s in use], ifields=[],
               dmethods=[dict(name="m", ret="V", params=[], flags=9, code=dict(regs=1, ins=0, outs=0, insns=code))], vmethods=[])
    g = Dex([cls], extra_strings=strs)
    if order:
        g.layout['string_data_order'] = order
    if inflate:
        # every 5th string of the pool (none of those used as names / constants: their sizes stay exact) declares a too large utf16_size
        raw0 = g.build()
        used = {g.idx["s"][s] for s in use}
        g.layout['utf16_size_inflate'] = {k for k in range(0, len(g.idx["s"]), 5) if k not in used}
    return g, g.build()


def observe(dex, raw, g, strs, use):
    """-> list of records (one per string of strs) with what androguard returned via each access path"""
    d = dex.DEX(raw)
    cm = d.get_class_manager()
    pool = d.get_strings()
    recs = []
    fields = {}
    for f in d.get_encoded_fields():
        fields[tuple(U(f.get_name()))] = True
    consts = {}
    for m in d.get_encoded_methods():
        for ins in m.get_instructions():
            if ins.get_name() == "const-string":
                consts[ins.get_ref_kind()] = U(ins.get_raw_string())
    items = d.get_string_data_item()
    pos = g.layout['string_data_pos']             # get_strings() / get_string_data_item() list the items in file order
    for s in strs:
        i = g.idx["s"][s]
        us = U(s)
        r = dict(b=list(mutf8(us)), pool=U(pool[pos[i]]) if pos[i] < len(pool) else [-9], cm=U(cm.get_string(i)), raw=U(cm.get_raw_string(i)),
                 len=items[pos[i]].get_utf16_size() - (3 if i in g.layout.get('utf16_size_inflate', ()) else 0), use=[-2])
        if s in use:
            r["use"] = consts.get(i, [-9]) if tuple(us) in fields else [-8]
        recs.append(r)
    return recs, len(pool)


def run(chk):
    from androguard.core import dex
    quick = chk.tier == "quick"
    rnd = random.Random(chk.seed)
    cfg = "Mutf8MC_quick.cfg" if quick else "Mutf8MC_thorough.cfg"
    file_len = 300 if quick else 520
    chk.bounds = dict(cfg=cfg, units="13 boundary code units, strings of <= %d units" % (2 if quick else 3), scan="file of %d bytes, chunk 128" % file_len)
    r, states = tlc.dump_states("Mutf8MC", cfg, timeout=3000)
    chk.model(r, "Mutf8MC/" + cfg)
    # ---- S->C (1): enumerated strings inside generated DEX files ------------------------------------------------
    enum = [st for st in states if st["mode"] == "dec" and st["pos"] == 0 and not st["done"]]
    strs = sorted({from_units(list(st["us"])) for st in enum}, key=units)
    want_bytes = {tuple(st["us"]): list(st["bs"]) for st in enum}
    n = 0
    for k in range(0, len(strs), 400):
        batch = strs[k:k + 400]
        use = [s for s in batch if s][:40:3]
        g, raw = dex_with_strings(batch, use, order=(None, "reverse", "interleave")[(k // 400 + 1) % 3])
        recs, npool = observe(dex, raw, g, batch, use)
        for s, rec in zip(batch, recs):
            us = U(s)
            if rec["b"] != want_bytes[tuple(us)]:
                raise tlc.TLCError("writer and spec disagree on MUTF-8 of %r" % (us,))
            bad = [k2 for k2 in ("pool", "cm", "raw") if rec[k2] != us]
            if rec["len"] != len(us):
                bad.append("utf16_size")
            if rec["use"] != [-2] and rec["use"] != us:
                bad.append("derived-name-or-constant")
            if bad:
                chk.violation("string:" + _cls(us) + ":" + "+".join(bad), "Mutf8.Dec", dict(units=us, bytes=rec["b"], got=rec))
            n += 1
        chk.sample(dict(units=U(batch[len(batch) // 2]), bytes=list(mutf8(U(batch[len(batch) // 2]))), androguard=recs[len(batch) // 2]["pool"]), cap=2)
    chk.replayed(n)
    # ---- S->C (2): the chunked NUL scan --------------------------------------------------------------------------
    m = 0
    for st in states:
        if st["mode"] != "scan" or st["done"] or st["pos"] != st["start"] or st["acc"] != 0:
            continue
        start, z = st["start"], st["z"]
        buf = bytearray(b"\x41" * file_len)
        buf[z] = 0
        f = io.BufferedReader(io.BytesIO(bytes(buf)))
        f.seek(start)
        got = dex.read_null_terminated_string(f)
        if len(got) != z - start or f.tell() != z + 1 or bytes(got) != bytes(buf[start:z]):
            chk.violation("scan:len-or-cursor", "Mutf8MC.ScanExact", dict(start=start, z=z, got_len=len(got), tell=f.tell()))
        m += 1
    chk.replayed(m)
    chk.sample(dict(scan_cases=m, example=dict(start=1, nul_at=128, expect_len=127, expect_cursor=129)))
    # strings whose terminator falls on chunk boundaries, inside DEX files
    edge = ["q" * k for k in (125, 126, 127, 128, 129, 130, 131, 253, 254, 255, 256, 257, 258, 259, 383, 384, 385)]
    edge += ["é" * 64, "中" * 43, "\u0000" * 64 + "z", "x" * 127 + "\u0000"]
    g, raw = dex_with_strings(edge, edge[:6])
    recs, _ = observe(dex, raw, g, edge, edge[:6])
    res = tlc.validate("Mutf8_Trace", "Mutf8_Trace.cfg", recs, shards=1)
    chk.trace_result(res, "Mutf8_Trace/chunk-boundaries")
    for gi, why in res["rejects"]:
        chk.violation("string:chunk-boundary:" + "+".join(sorted(why[0])), "Mutf8_Trace", dict(length=len(recs[gi]["b"]), why=sorted(why[0])))

    # ---- C->S: random strings over the full code-point range -----------------------------------------------------
    allrecs = []
    nfiles = 6 if quick else 80
    for fno in range(nfiles):
        batch = set()
        while len(batch) < 300:
            ln = rnd.choice([0, 1, 1, 2, 3, 5, 8, 20, 130])
            us = []
            for _ in range(ln):
                c = rnd.random()
                if c < 0.25:
                    us.append(rnd.randrange(0, 128))
                elif c < 0.4:
                    us.append(rnd.choice([0, 0x7F, 0x80, 0x7FF, 0x800, 0xD7FF, 0xD800, 0xDBFF, 0xDC00, 0xDFFF, 0xE000, 0xFFFF]))
                elif c < 0.55:
                    cp = rnd.randrange(0x10000, 0x110000) - 0x10000
                    us += [0xD800 + (cp >> 10), 0xDC00 + (cp & 0x3FF)]
                elif c < 0.65:
                    us.append(rnd.randrange(0xD800, 0xE000))
                else:
                    us.append(rnd.randrange(0, 0x10000))
            batch.add(from_units(us))
        batch = sorted(batch, key=units)
        use = [s for s in batch if s][:60:2]
        g, raw = dex_with_strings(batch, use, order=(None, "reverse", "interleave")[fno % 3], inflate=(fno % 2 == 1))
        recs, _ = observe(dex, raw, g, batch, use)
        allrecs += recs
    res = tlc.validate("Mutf8_Trace", "Mutf8_Trace.cfg", allrecs, shards=16, heap="2g")
    chk.trace_result(res, "Mutf8_Trace/random")
    for gi, why in res["rejects"]:
        rec = allrecs[gi]
        chk.violation("string:random:" + "+".join(sorted(why[0])), "Mutf8_Trace", dict(bytes=rec["b"][:60], got=rec["pool"][:30], why=sorted(why[0])))
    rejected = {i for i, _ in res["rejects"]}
    k = next((i for i in range(len(allrecs)) if i not in rejected and allrecs[i]["b"]), None)
    if k is not None:
        bad = dict(allrecs[k])
        bad["pool"] = bad["pool"][:-1]
        st = tlc.validate("Mutf8_Trace", "Mutf8_Trace.cfg", [bad], shards=1)
        if not st["rejects"]:
            raise tlc.TLCError("binding self-test failed")
        chk.extra["self_test_rejected"] = True
    chk.assumptions += ["text is compared as UTF-16 code units (str.encode('utf-16-le', 'surrogatepass'))",
                        "the unterminated-string case (no NUL before end of file) belongs to C35"]


def _cls(us):
    out = []
    for u in us:
        if u == 0:
            out.append("nul")
        elif u < 0x80:
            out.append("ascii")
        elif u < 0x800:
            out.append("2byte")
        elif 0xD800 <= u < 0xDC00:
            out.append("hi-surrogate")
        elif 0xDC00 <= u < 0xE000:
            out.append("lo-surrogate")
        else:
            out.append("3byte")
    return "-".join(out) or "empty"
