"""C23 Java string literals: spec JavaLiteral / JavaLiteralMC / JavaLiteral_Trace."""
import os
import random
import shutil
import re
import subprocess

from .. import tlc
from ..dexgen import from_units, units


def cls(us):
    out = set()
    for u in us:
        if u in (34, 39, 92):
            out.add("quote-or-backslash")
        elif u < 32 or u == 127:
            out.add("control")
        elif u < 127:
            out.add("ascii")
        elif 0xD800 <= u < 0xDC00:
            out.add("high-surrogate")
        elif 0xDC00 <= u < 0xE000:
            out.add("low-surrogate")
        else:
            out.add("bmp")
    pair = any(0xD800 <= a < 0xDC00 and 0xDC00 <= b < 0xE000 for a, b in zip(us, us[1:]))
    if pair:
        out.add("supplementary-pair")
    return "+".join(sorted(out)) or "empty"


def javac_units(literals, workdir):
    """compile a class holding the literals; return the code units the JVM sees for each (None if javac rejects that literal)"""
    res = [None] * len(literals)
    todo = list(range(len(literals)))
    # literals that javac rejects break the whole file: bisect them out
    def attempt(idx):
        src = ["public class L {", " static String[] S = new String[] {"]
        for i in idx:
            src.append("  " + literals[i] + ",")
        src += [" };", " public static void main(String[] a) { for (String s : S) { StringBuilder b = new StringBuilder();",
                "   for (int i = 0; i < s.length(); i++) { b.append((int) s.charAt(i)).append(' '); } System.out.println(b); } } }"]
        with open(os.path.join(workdir, "L.java"), "w", encoding="ascii") as f:
            f.write("\n".join(src) + "\n")
        p = subprocess.run(["javac", "-encoding", "ascii", "-d", workdir, os.path.join(workdir, "L.java")], capture_output=True, text=True)
        if p.returncode != 0:
            return None
        q = subprocess.run(["java", "-cp", workdir, "L"], capture_output=True, text=True)
        lines = q.stdout.split("\n")
        return [[int(x) for x in lines[k].split()] for k in range(len(idx))]

    def solve(idx):
        if not idx:
            return
        out = attempt(idx)
        if out is not None:
            for i, u in zip(idx, out):
                res[i] = u
            return
        if len(idx) == 1:
            res[idx[0]] = [-1]
            return
        mid = len(idx) // 2
        solve(idx[:mid])
        solve(idx[mid:])
    solve(todo)
    return res


def source_literals(strs):
    """the literal DvMethod.get_source() prints for `return <const-string>` of each string (None when the method text has no return)"""
    from androguard.core import dex
    from androguard.core.analysis.analysis import Analysis
    from androguard.decompiler import decompile
    from ..dexgen import Dex
    out = []
    for k0 in range(0, len(strs), 200):
        batch = strs[k0:k0 + 200]
        ms = [dict(name="m%04d" % i, ret="Ljava/lang/String;", params=[], flags=9, code=dict(regs=1, ins=0, outs=0, insns=[("const-string", 0, s), ("return-object", 0)]))
              for i, s in enumerate(batch)]
        c = dict(name="Lt/S;", super="Ljava/lang/Object;", flags=1, sfields=[], ifields=[], dmethods=ms, vmethods=[])
        d = dex.DEX(Dex([c]).build())
        dx = Analysis(d)
        by_name = {m.get_method().get_name(): m for m in dx.get_methods() if not m.is_external()}
        for i in range(len(batch)):
            z = decompile.DvMethod(by_name["m%04d" % i])
            z.process()
            src = z.get_source()
            a, b = src.find("return "), src.rfind(";")
            out.append(src[a + 7:b] if 0 <= a < b else None)
    return out


def run(chk):
    from androguard.decompiler import writer
    quick = chk.tier == "quick"
    rnd = random.Random(chk.seed)
    cfg = "JavaLiteralMC_quick.cfg" if quick else "JavaLiteralMC_thorough.cfg"
    chk.bounds = dict(cfg=cfg, single_units="all 65536 one-unit strings", random="strings over the full range incl. pairs and lone surrogates")
    r, states = tlc.dump_states("JavaLiteralMC", cfg, only={"mode", "us", "text", "out"}, keep_if='"roundtrip"', timeout=3000, heap="6g")
    chk.model(r, "JavaLiteralMC/" + cfg)
    recs = []
    n_s2c = 0
    for st in states:
        us = list(st["us"])
        s = from_units(us)
        lit = writer.string(s)
        recs.append(dict(kind="string", units=us, lit=[ord(c) for c in lit]))
        n_s2c += 1
    chk.sample(dict(units=recs[len(recs) // 2]["units"], androguard_literal="".join(map(chr, recs[len(recs) // 2]["lit"]))), cap=3)
    # every BMP code unit as a one-unit string (surrogates as lone units), plus every supplementary plane start and random strings
    for u in range(0x10000):
        lit = writer.string(from_units([u]))
        recs.append(dict(kind="string", units=[u], lit=[ord(c) for c in lit]))
    for _ in range(3000 if quick else 100000):
        n = rnd.choice([1, 2, 3, 5, 12])
        us = []
        for _ in range(n):
            c = rnd.random()
            if c < 0.3:
                us.append(rnd.choice([34, 39, 92, 10, 13, 9, 8, 12, 0, 127, 117, 85]))
            elif c < 0.5:
                cp = rnd.randrange(0x10000, 0x110000) - 0x10000
                us += [0xD800 + (cp >> 10), 0xDC00 + (cp & 0x3FF)]
            elif c < 0.6:
                us.append(rnd.randrange(0xD800, 0xE000))
            else:
                us.append(rnd.randrange(0, 0x10000))
        lit = writer.string(from_units(us))
        recs.append(dict(kind="string", units=units(from_units(us)), lit=[ord(c) for c in lit]))
    # the same through the decompiler (const-string; return-object -> DvMethod.get_source): strings that look like other Java tokens, the
    # escapes, a sample of the enumerated and of the random strings
    special = ["true", "false", "null", "", "0", "1", "this", "true ", "True", "0x10", "1L", "1.0f", "'a'", "\"", "\\", "\n", "\r", "\t", "\u0000", "\uffff", "\ud800", "\udc00x",
               "\U0001F600", "a\"b\\c", "//", "/*", "*/", ";", "}", "\\u0041", "int", "void", "new", "return x;"]
    sample = [from_units(r_["units"]) for r_ in recs[:n_s2c:max(1, n_s2c // 150)]] + [from_units(r_["units"]) for r_ in recs[-200:]]
    via_source = special + sample
    n_src = 0
    for s, lit in zip(via_source, source_literals(via_source)):
        recs.append(dict(kind="string", units=units(s), lit=[ord(c) for c in (lit if lit is not None else "<no return statement>")], via="get_source"))
        n_src += 1
    chk.extra["literals_read_from_decompiled_source"] = n_src
    # bind the lexer spec to javac: androguard's own outputs for a sample + hand-made escape torture literals
    n_javac = 150 if quick else 2000
    lits = []
    # javac 17 quirk (not JLS): a lone *high* surrogate written as a unicode escape, directly followed by an even run of backslashes and
    # another unicode escape ("\\udb46\\\\\\u0041"), is rejected with "illegal escape character" (its surrogate-pair look-ahead loses the
    # backslash parity); "\\udb46x\\\\\\u0041", a low surrogate or a complete pair in that place are accepted.  Such literals are left out of
    # the cross-validation of the lexer specification against javac.
    # (seen later: the same happens when the even run of backslashes is followed by a plain `u` -- "\\ud9b4\\\\u..." -- so the pattern is: high
    #  surrogate escape, one or more escaped backslashes, optional backslash, `u`)
    quirk = re.compile(r"\\u[dD][89abAB][0-9a-fA-F]{2}(?:\\\\)+\\?u")
    pool = [r_ for r_ in recs if all(32 <= c < 127 for c in r_["lit"]) and not quirk.search("".join(map(chr, r_["lit"])))]
    for r_ in rnd.sample(pool, min(n_javac, len(pool))):
        lits.append("".join(map(chr, r_["lit"])))
    torture = ['"\\\\u0041"', '"\\u0041"', '"\\uu0041"', '"\\101"', '"\\401"', '"\\7"', '"\\77a"', '"\\u005c\\u005c"', '"a\\u0022b"', '"\\u000a"', '"\\s"',
               '"\\\\\\u0041"', '"\\b\\t\\n\\f\\r\\"\\\'\\\\"', '"\\u00e9\\ud83d\\ude00"', '"\\ud800"', '"\\0"', '"\\08"', '"\\377"', '"\\378"', '"\\q"', '"\\u12"']
    lits += torture
    work = tlc.scratch_dir("javac_")
    try:
        have = shutil.which("javac") is not None
        ju = javac_units(lits, work) if have else []
    finally:
        shutil.rmtree(work, ignore_errors=True)
    jrecs = [dict(kind="javac", units=u, lit=[ord(c) for c in t]) for t, u in zip(lits, ju) if u is not None]
    chk.extra["javac_literals_checked"] = len(jrecs)
    allrecs = recs + jrecs
    res = tlc.validate("JavaLiteral_Trace", "JavaLiteral_Trace.cfg", allrecs, shards=16, heap="3g", timeout=3000)
    chk.trace_result(res, "JavaLiteral_Trace")
    chk.c2s -= res["accepted"]
    chk.s2c += n_s2c
    chk.c2s += len(allrecs) - n_s2c
    for gi, why in res["rejects"]:
        rec = allrecs[gi]
        if rec["kind"] == "javac":
            raise tlc.TLCError("the lexer specification disagrees with javac on %r: javac %s, spec %s" % ("".join(map(chr, rec["lit"])), rec["units"], list(why[1])))
        chk.violation("string:" + cls(rec["units"]), "JavaLiteral.Lex(literal) = units",
                      dict(units=rec["units"][:20], literal="".join(map(chr, rec["lit"]))[:120], literal_denotes=list(why[1])[:20]))
    rejected = {i for i, _ in res["rejects"]}
    k = next((i for i in range(len(recs)) if i not in rejected and recs[i]["units"]), None)
    if k is not None:
        bad = dict(recs[k], units=recs[k]["units"] + [65])
        st = tlc.validate("JavaLiteral_Trace", "JavaLiteral_Trace.cfg", [bad], shards=1)
        if not st["rejects"]:
            raise tlc.TLCError("binding self-test failed")
        chk.extra["self_test_rejected"] = True
    chk.assumptions += ["the lexer specification (JLS 3.3, 3.10.5-3.10.7) is itself validated against javac 17 + the JVM on a sample of literals in every run",
                        "strings are compared as UTF-16 code units"]
