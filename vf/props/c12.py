"""C12: see vf/cfgobs.py (spec MethodCFG / MethodCFGMC / MethodCFG_Trace)."""
from ..cfgobs import run_property


def run(chk):
    run_property(chk, "C12")
