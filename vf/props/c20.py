"""C20 def-use chains: spec ReachDef / ReachDefMC / ReachDef_Trace."""
import glob
import os
import random

from .. import tlc


class FakeIns:
    def __init__(self, lhs, uses):
        self.lhs, self.uses = lhs, uses

    def get_lhs(self):
        return self.lhs

    def get_used_vars(self):
        return list(self.uses)


def run_graph(n, edges, code, params, catch=()):
    """build a real decompiler Graph over statement nodes and run dataflow.build_def_use -> sorted UD triples"""
    from androguard.decompiler import dataflow, graph, node

    class StmtNode(node.Node):
        def __init__(self, name, li):
            super().__init__(name)
            self.li = li

        def get_loc_with_ins(self):
            return self.li

    g = graph.Graph()
    nodes = {}
    for k in range(1, n + 1):
        li = [(loc, FakeIns(d if d else None, sorted(u))) for (d, u, loc) in code[k - 1]]
        nodes[k] = StmtNode("n%d" % k, li)
        g.add_node(nodes[k])
    catch = set(catch)
    for (a, b) in edges:
        if (a, b) in catch:
            if nodes[b] not in g.catch_edges[nodes[a]]:
                g.catch_edges[nodes[a]].append(nodes[b])
                g.reverse_catch_edges[nodes[b]].append(nodes[a])
        else:
            g.add_edge(nodes[a], nodes[b])
    g.entry = nodes[1]
    g.exit = None
    g.compute_rpo()
    UD, DU = dataflow.build_def_use(g, list(params))
    out = sorted([r, use, d] for (r, use), defs in UD.items() for d in set(defs))
    # DU must be the inverse of UD
    inv = sorted([r, use, d] for (r, d), uses in DU.items() for use in set(uses))
    return out, inv == out


def snapshot(graph, lparams):
    """real decompiler graph (before build_def_use) -> (n, edges, code, params) with registers / nodes renumbered"""
    order = list(graph.rpo)
    if graph.entry in order:
        order.remove(graph.entry)
    order.insert(0, graph.entry)
    idx = {id(nd): k + 1 for k, nd in enumerate(order)}
    regs = {}

    def reg(v):
        if v not in regs:
            regs[v] = len(regs) + 1
        return regs[v]
    edges = set()
    for nd in order:
        for s in graph.all_sucs(nd):
            if id(s) in idx:
                edges.add((idx[id(nd)], idx[id(s)]))
    code = []
    for nd in order:
        st = []
        for loc, ins in nd.get_loc_with_ins():
            lhs = ins.get_lhs()
            st.append([reg(lhs) if lhs is not None else 0, sorted({reg(v) for v in ins.get_used_vars()}), loc])
        code.append(st)
    params = [reg(p) for p in lparams]
    return len(order), sorted(edges), code, params, regs


def run(chk):
    from androguard.core import dex
    quick = chk.tier == "quick"
    rnd = random.Random(chk.seed)
    cfgs = ["ReachDefMC_2.cfg"] + ([] if quick else ["ReachDefMC_3.cfg"])
    chk.bounds = dict(model="all rooted digraphs on 2 nodes x <= 2 statements per node" + ("" if quick else "; on 3 nodes x <= 1 statement"),
                      statements="6 kinds over 2 registers", params="none / one", random="<= 30 nodes, 4 registers")
    recs = []
    n_s2c = 0
    for cfg in cfgs:
        stride = (3, chk.seed) if cfg.endswith("_2.cfg") else (40, chk.seed)
        r, states = tlc.dump_states("ReachDefMC", cfg, only={"E", "code", "params", "ud"}, keep_if="<<0, 0, 0>>", stride=stride, timeout=6000, heap="10g")
        chk.model(r, "ReachDefMC/" + cfg + " (worklist fixpoint = path definition)")
        nn = int(cfg.split("_")[1][0])
        for st in states:
            edges = sorted(tuple(e) for e in st["E"])
            code = [[(s[0], sorted(s[1]), s[2]) for s in node] for node in st["code"]]
            params = list(st["params"])
            want = sorted(list(t) for t in st["ud"] if tuple(t) != (0, 0, 0))
            got, inv_ok = run_graph(nn, edges, code, params)
            if got != want or not inv_ok:
                miss = [t for t in want if t not in got]
                extra = [t for t in got if t not in want]
                chk.violation("model:%s%s%s" % ("misses" if miss else "", "+extra" if extra else "", "" if inv_ok else "+du-not-inverse"), "ReachDef.PathUD",
                              dict(n=nn, edges=edges, code=code, params=params, want=want, got=got))
            recs.append(dict(n=nn, edges=[list(e) for e in edges], code=[[list(s) for s in node] for node in code], params=params, ud=got, src="model"))
            n_s2c += 1
        if states:
            s0 = states[len(states) // 2]
            chk.sample(dict(edges=sorted(map(list, s0["E"])), code=[[list(map(lambda x: sorted(x) if isinstance(x, frozenset) else x, s)) for s in nd] for nd in s0["code"]],
                            params=list(s0["params"]), spec_ud=sorted(list(t) for t in s0["ud"] if tuple(t) != (0, 0, 0))), cap=2)
    # ---- random graphs -----------------------------------------------------------------------------------------
    for _ in range(150 if quick else 4000):
        n = rnd.randrange(1, 31)
        edges = set()
        order = list(range(2, n + 1))
        rnd.shuffle(order)
        placed = [1]
        for v in order:
            edges.add((rnd.choice(placed), v))
            placed.append(v)
        for _ in range(rnd.randrange(0, 2 * n + 1)):
            edges.add((rnd.randrange(1, n + 1), rnd.randrange(1, n + 1)))
        code, loc = [], 0
        for k in range(n):
            st = []
            for _ in range(rnd.randrange(0, 4)):
                st.append((rnd.choice([0, 1, 2, 3, 4]), sorted(set(rnd.randrange(1, 5) for _ in range(rnd.randrange(0, 3)))), loc))
                loc += rnd.choice([1, 1, 2])
            code.append(st)
        params = rnd.sample([1, 2, 3, 4], rnd.randrange(0, 3))
        catch = [e for e in edges if rnd.random() < 0.2]
        got, inv_ok = run_graph(n, sorted(edges), code, params, catch)
        recs.append(dict(n=n, edges=[list(e) for e in sorted(edges)], code=[[list(s) for s in nd] for nd in code], params=params, ud=got if inv_ok else got + [[0, -99, -99]], src="random"))
    # ---- graphs of real methods, captured at the decompiler's own call of build_def_use ----------------------------
    from androguard.core.analysis.analysis import Analysis
    from androguard.decompiler import dataflow, decompile
    captured = []
    orig = decompile.build_def_use if hasattr(decompile, "build_def_use") else None
    target_mod = decompile if orig is not None else dataflow
    orig = orig or dataflow.build_def_use

    def wrapper(graph, lparams):
        snap = snapshot(graph, lparams)
        UD, DU = orig(graph, lparams)
        n, edges, code, params, regs = snap
        ud = sorted([regs[r], use, d] for (r, use), defs in UD.items() for d in set(defs) if r in regs)
        captured.append(dict(n=n, edges=[list(e) for e in edges], code=code, params=params, ud=ud, src="shipped"))
        return UD, DU
    target_mod.build_def_use = wrapper
    try:
        from ..corpus import shipped_dex
        files = shipped_dex(quick)
        n_methods = 0
        for f in files:
            d = dex.DEX(open(f, "rb").read())
            dx = Analysis(d)
            mas = list(dx.get_methods())
            if quick and len(mas) > 1200:
                mas = rnd.sample(mas, 1200)
            for ma in mas:
                if ma.is_external() or ma.get_method().get_code() is None:
                    continue
                if quick and n_methods >= 300:
                    break
                if ma.get_method().get_code().get_length() > 600:
                    continue
                try:
                    decompile.DvMethod(ma).process()
                except Exception:
                    pass
                n_methods += 1
    finally:
        target_mod.build_def_use = orig
    captured = [c for c in captured if c["n"] <= 60]
    recs += captured
    chk.extra["shipped_method_graphs"] = len(captured)
    res = tlc.validate("ReachDef_Trace", "ReachDef_Trace.cfg", recs, shards=16, heap="3g", timeout=6000)
    chk.trace_result(res, "ReachDef_Trace")
    chk.c2s -= res["accepted"]
    chk.s2c += n_s2c
    chk.c2s += len(recs) - n_s2c
    for gi, why in res["rejects"]:
        rec = recs[gi]
        chk.violation("%s:%s" % (rec["src"], "+".join(sorted(w.split(".")[1] for w in why[0]))), "ReachDef_Trace:" + "+".join(sorted(why[0])),
                      rec if rec["n"] <= 8 else dict(n=rec["n"], note="large graph", ud=rec["ud"][:10]))
    rnd_rec = next(r for r in recs if r["src"] == "random" and r["ud"])
    chk.sample(dict(n=rnd_rec["n"], edges=rnd_rec["edges"][:10], code=rnd_rec["code"][:4], params=rnd_rec["params"], ud=rnd_rec["ud"][:8]), cap=4)
    rejected = {i for i, _ in res["rejects"]}
    k = next((i for i in range(len(recs)) if i not in rejected and recs[i]["ud"]), None)
    if k is not None:
        bad = dict(recs[k])
        bad["ud"] = bad["ud"][1:]
        st = tlc.validate("ReachDef_Trace", "ReachDef_Trace.cfg", [bad], shards=1)
        if not st["rejects"]:
            raise tlc.TLCError("binding self-test failed")
        chk.extra["self_test_rejected"] = True
    chk.assumptions += ["edges leave from the end of a node; catch edges are ordinary edges (Graph.all_sucs / all_preds)",
                        "uses of registers that are never defined anywhere have no chain entry (as build_def_use documents)",
                        "graphs of shipped methods are captured at DvMethod.process()'s own call of build_def_use (harness-side wrapper), registers renumbered"]
