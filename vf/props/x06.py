"""X06 (extension, not a listed property): APK.get_main_activities over several intent-filters per activity: spec LauncherEntry / LauncherEntry_Trace."""
import random

from .. import tlc
from . import c31


def manifest(acts, rnd):
    comps = [dict(name=dict(lead=False, segs=["com", "x", a["name"]]), enabled=a["enabled"], main=False, launcher=False, filters=a["filters"]) for a in acts]
    return dict(pkg=["com", "x"], vcode=1, vname="1", perms=[], features=[], libraries=[], acts=comps, svcs=[], rcvs=[], prvs=[], minsdk=0, target=0)


def observe(apkmod, acts, rnd):
    a = apkmod.APK(c31.make_apk(manifest(acts, rnd), utf8=rnd.random() < 0.5), raw=True)
    return sorted(n.rsplit(".", 1)[-1] for n in a.get_main_activities())


def run(chk):
    from androguard.core import apk
    quick = chk.tier == "quick"
    rnd = random.Random(chk.seed)
    for cfg in ("LauncherEntry_platform.cfg", "LauncherEntry_androguard.cfg"):
        r = tlc.run("LauncherEntry", cfg, timeout=600)
        chk.model(r, "LauncherEntry/" + cfg)
    r, states = tlc.dump_states("LauncherEntry", "LauncherEntry_androguard.cfg", timeout=600, only={"enabled", "filters", "pc"}, keep_if='"done"')
    cases = []
    seen = set()
    for st in states:
        if st["pc"] != "done":
            continue
        acts = [dict(name=n, enabled=bool(st["enabled"][n]), filters=list(st["filters"][n])) for n in ("A", "B")]
        key = repr(acts)
        if key not in seen:
            seen.add(key)
            cases.append(acts)
    n_s2c = len(cases)
    for _ in range(150 if quick else 3000):                   # more activities, more filters, other orders
        cases.append([dict(name="N%d" % k, enabled=rnd.random() < 0.8, filters=[rnd.randrange(4) for _ in range(rnd.randrange(0, 5))]) for k in range(rnd.randrange(0, 6))])
    recs = [dict(acts=acts, reported=observe(apk, acts, rnd)) for acts in cases]
    chk.replayed(n_s2c)
    res = tlc.validate("LauncherEntry_Trace", "LauncherEntry_Trace.cfg", recs, shards=8)
    chk.trace_result(res, "LauncherEntry_Trace")
    chk.c2s -= res["accepted"]
    chk.c2s += len(recs) - n_s2c
    for gi, why in res["rejects"]:
        rec = recs[gi]
        chk.violation("+".join(sorted(w.split(".", 1)[1] for w in why[0])), "LauncherEntry_Trace:" + "+".join(sorted(why[0])),
                      dict(acts=rec["acts"], reported=rec["reported"], platform_rule=sorted(why[1])))
    rejected = {i for i, _ in res["rejects"]}
    j = next((i for i in range(len(recs)) if i not in rejected and recs[i]["reported"]), None)
    if j is not None:
        bad = dict(recs[j], reported=recs[j]["reported"][1:])
        if not tlc.validate("LauncherEntry_Trace", "LauncherEntry_Trace.cfg", [bad], shards=1)["rejects"]:
            raise tlc.TLCError("binding self-test failed")
        chk.extra["self_test_rejected"] = True
    chk.bounds = dict(model="two activities x enabled / disabled x every sequence of <= 2 intent-filters over {neither, MAIN, LAUNCHER, both}: 1764 manifests, all replayed",
                      random="0..5 activities with 0..4 filters each, UTF-8 and UTF-16 string pools")
    chk.sample(recs[0])
    chk.assumptions += ["the platform's rule is the one of intent resolution: MAIN and LAUNCHER must be matched by one intent-filter; activity-alias elements are covered by C31, not here"]
