"""C05 parsed object model: spec DexModel / DexModelMC / DexModel_Trace."""
import random
import re

from .. import tlc
from ..dexgen import Dex

NAMES = {1: "a", 2: "b", 3: "c"}
TYPES = {1: "I", 2: "J", 3: "Lx/T;", 4: "[I"}
PROTOS = {1: ("I", ()), 2: ("I", ("J",)), 3: ("V", ("I", "J"))}
CLASSES = {1: "La/A;", 2: "Lb/B;"}


def desc(p):
    return "(" + "".join(p[1]) + ")" + p[0]


def words(p):
    return sum(2 if t in "JD" else 1 for t in p[1])


def code_for(name, proto, direct):
    ins = words(PROTOS[proto]) + (0 if direct else 1)
    ret = PROTOS[proto][0]
    body = [("const/4", 0, name)] + ([("return-void",)] if ret == "V" else [("return", 0)])
    return dict(regs=ins + 1, ins=ins, outs=name, insns=body)


def concretise(st):
    """TLC state -> (dexgen classes, extras)"""
    ghosts, withB = st["ghosts"], st["withB"]
    cls = {1: dict(name=CLASSES[1], super="Ljava/lang/Object;", ifaces=[], flags=1, src="A.java" if ghosts else None,
                   sfields=[], ifields=[], dmethods=[], vmethods=[])}
    if withB:
        # (interfaces are reported in the order the class declares them, which need not be alphabetical)
        cls[2] = dict(name=CLASSES[2], super=CLASSES[1], ifaces=["Lx/T;", "Ljava/lang/Runnable;", "Lm/I;"] if ghosts else ["Ljava/lang/Runnable;", "Lx/T;"], flags=0x401, src="B.java",
                      sfields=[(NAMES[1], TYPES[1], 9)], ifields=[], dmethods=[],
                      vmethods=[dict(name=NAMES[1], ret=PROTOS[1][0], params=list(PROTOS[1][1]), flags=1, code=code_for(1, 1, False))])
    for f in st["fields"]:
        f = dict(f)
        (cls[1]["sfields"] if f["static"] else cls[1]["ifields"]).append((NAMES[f["name"]], TYPES[f["type"]], f["flags"]))
    for m in st["methods"]:
        m = dict(m)
        p = PROTOS[m["proto"]]
        md = dict(name=NAMES[m["name"]], ret=p[0], params=list(p[1]), flags=m["flags"],
                  code=code_for(m["name"], m["proto"], m["direct"]) if m["code"] else None)
        (cls[1]["dmethods"] if m["direct"] else cls[1]["vmethods"]).append(md)
    xf, xm = [], []
    if ghosts:
        nn = max([1, 2])
        for n in (1, 2):
            for t in st["_nt"]:
                xf.append((CLASSES[1], TYPES[t], NAMES[n]))
            for p in st["_np"]:
                xm.append((CLASSES[1], (PROTOS[p][0], PROTOS[p][1]), NAMES[n]))
        xm.append((CLASSES[2], (PROTOS[1][0], PROTOS[1][1]), NAMES[2]))
    return [cls[k] for k in sorted(cls)], xf, xm


def project(d):
    """androguard DEX -> observation"""
    obs = dict(classes=[], fields=[], methods=[], diffs={})
    for c in d.get_classes():
        obs["classes"].append((c.get_name(), c.get_superclassname(), tuple(c.get_interfaces()), c.get_access_flags(),
                               _src(d, c)))
        cd = c.get_class_data()
        if cd is None:
            continue
        obs["diffs"][c.get_name()] = dict(
            sf=[f.get_field_idx_diff() for f in cd.get_static_fields()], inf=[f.get_field_idx_diff() for f in cd.get_instance_fields()],
            dm=[m.get_method_idx_diff() for m in cd.get_direct_methods()], vm=[m.get_method_idx_diff() for m in cd.get_virtual_methods()])
    for f in d.get_encoded_fields():
        obs["fields"].append((f.get_class_name(), f.get_name(), f.get_descriptor(), f.get_access_flags()))
    for m in d.get_encoded_methods():
        code = m.get_code()
        obs["methods"].append((m.get_class_name(), m.get_name(), m.get_descriptor().replace(" ", ""), m.get_access_flags(),
                               None if code is None else (code.get_registers_size(), code.get_ins_size(), code.get_outs_size(),
                                                          bytes(code.get_bc().get_insn()))))
    return obs


def _src(d, c):
    i = c.get_source_file_idx() if hasattr(c, "get_source_file_idx") else c.source_file_idx
    if i == 0xFFFFFFFF:
        return None
    return d.get_class_manager().get_string(i)


def mkey(t):
    return (t[0], t[1], t[2])


def run(chk):
    from androguard.core import dex
    quick = chk.tier == "quick"
    rnd = random.Random(chk.seed)
    cfg = "DexModelMC_quick.cfg" if quick else "DexModelMC_medium.cfg"
    nt, np_ = ((1, 2), (1, 2)) if quick else ((1, 2, 3), (1, 2, 3))
    stride = (6, chk.seed) if quick else (4, chk.seed)
    chk.bounds = dict(cfg=cfg, replay_stride=stride[0], note="class A: every member set within the bounds; optional class B; optional ghost ids")
    if not quick:
        r0 = tlc.check_model("DexModelMC", "DexModelMC_thorough.cfg", timeout=3000, heap="8g")
        chk.model(r0, "DexModelMC/thorough (invariants only)")
    r, states = tlc.dump_states("DexModelMC", cfg, stride=stride, timeout=3000, heap="8g")
    chk.model(r, "DexModelMC/" + cfg)
    n = 0
    for st in states:
        st["_nt"], st["_np"] = nt, np_
        classes, xf, xm = concretise(st)
        g = Dex(classes, extra_fields=xf, extra_methods=xm)
        g.layout['string_data_order'] = (None, 'reverse', 'interleave')[n % 3]
        raw = g.build()
        case = dict(fields=sorted(map(repr, st["fields"])), methods=sorted(map(repr, st["methods"])), ghosts=st["ghosts"], withB=st["withB"])
        try:
            d = dex.DEX(raw)
            obs = project(d)
        except Exception as e:
            chk.violation("model:parse-exception:" + type(e).__name__, "parse", dict(case=case, error=repr(e)))
            continue
        bad = compare_state(st, g, classes, obs, d)
        for b in bad:
            chk.violation("model:" + b, "DexModel." + b, dict(case=case, observed={k: v for k, v in obs.items() if k != "methods"}))
        if n % 500 == 0:
            chk.sample(dict(case=case, layout={k: v for k, v in st["lay"].items() if k in ("fids", "mids")}), cap=3)
        n += 1
    chk.replayed(n)

    # ---- C->S: random larger models --------------------------------------------------------------------------
    recs = []
    for i in range(60 if quick else 1200):
        recs.append(random_model_record(dex, rnd, max_classes=8 if quick else 40))
    res = tlc.validate("DexModel_Trace", "DexModel_Trace.cfg", recs, shards=8 if quick else 16)
    chk.trace_result(res, "DexModel_Trace")
    for gi, why in res["rejects"]:
        chk.violation("random-model:" + "+".join(sorted(why[0])), "DexModel_Trace:" + "+".join(sorted(why[0])), dict(record=_short(recs[gi])))
    chk.sample(_short(recs[0]), cap=5)
    rejected = {i for i, _ in res["rejects"]}
    k = next((i for i in range(len(recs)) if i not in rejected and recs[i]["rep_methods"]), None)
    if k is not None:       # binding self-test on an accepted record: drop one reported method, it must be rejected
        bad = dict(recs[k])
        bad["rep_methods"] = bad["rep_methods"][1:]
        st = tlc.validate("DexModel_Trace", "DexModel_Trace.cfg", [bad], shards=1)
        if not st["rejects"]:
            raise tlc.TLCError("binding self-test failed")
        chk.extra["self_test_rejected"] = True
    chk.assumptions += ["the generated files are well formed per the DEX format (sorted id tables, sorted member lists): the layout is computed by the spec and cross-checked with the writer",
                        "name lookups are queried with an anchored, escaped regular expression (the helpers take regular expressions)"]


def _short(r):
    return {k: (v if len(repr(v)) < 400 else repr(v)[:400] + "...") for k, v in r.items()}


def compare_state(st, g, classes, obs, d):
    bad = []
    lay = st["lay"]
    # 1. the writer's id tables are the ones the specification lays out
    inv_n = {v: k for k, v in NAMES.items()}
    inv_t = {v: k for k, v in TYPES.items()}
    inv_c = {v: k for k, v in CLASSES.items()}
    inv_p = {(v[0], tuple(v[1])): k for k, v in PROTOS.items()}
    fids = [(inv_c[c], inv_n[n], inv_t[t]) for (c, t, n) in g.tables["F"]]
    mids = [(inv_c[c], inv_n[n], inv_p[(p[0], tuple(p[1]))]) for (c, p, n) in g.tables["M"]]
    if fids != [tuple(x) for x in lay["fids"]] or mids != [tuple(x) for x in lay["mids"]]:
        bad.append("writer-layout-differs-from-spec")       # machinery disagreement, reported loudly
    # 2. classes
    want_classes = [(c["name"], c.get("super"), tuple(c.get("ifaces", [])), c["flags"], c.get("src")) for c in classes]
    if obs["classes"] != want_classes:
        bad.append("classes-reported")
    # 3. members
    wf, wm = set(), {}
    for c in classes:
        for (n, t, fl) in c["sfields"] + c["ifields"]:
            wf.add((c["name"], n, t, fl))
        for m in c["dmethods"] + c["vmethods"]:
            cd = m.get("code")
            from ..asm import assemble
            wm[(c["name"], m["name"], "(" + "".join(m["params"]) + ")" + m["ret"], m["flags"])] = \
                None if cd is None else (cd["regs"], cd["ins"], cd["outs"], assemble(cd["insns"], g.idx))
    if set(obs["fields"]) != wf or len(obs["fields"]) != len(wf):
        bad.append("fields-reported")
    got_m = {m[:4]: m[4] for m in obs["methods"]}
    if set(got_m) != set(wm) or len(obs["methods"]) != len(wm):
        bad.append("methods-reported")
    else:
        for k in wm:
            if (wm[k] is None) != (got_m[k] is None):
                bad.append("code-presence")
            elif wm[k] is not None and wm[k][:3] != got_m[k][:3]:
                bad.append("register-counts")
            elif wm[k] is not None and wm[k][3] != got_m[k][3]:
                bad.append("code-bytes")
    # 4. index differences as stored (spec) vs as parsed
    for ci, key in ((1, "c1"), (2, "c2")):
        L = lay[key]
        have = obs["diffs"].get(CLASSES[ci], dict(sf=[], inf=[], dm=[], vm=[]))
        for a, b in (("sf", "sfd"), ("inf", "infd"), ("dm", "dmd"), ("vm", "vmd")):
            if list(L[b]) != have[a]:
                bad.append("idx-diff-" + a)
    # 5. lookups
    bad += lookups(d, classes, wf, wm)
    return sorted(set(bad))


def lookups(d, classes, wf, wm):
    bad = []
    names = [c["name"] for c in classes] + ["Lno/Such;"]
    for cn in names:
        got = d.get_class(cn)
        if (got is not None) != (cn in [c["name"] for c in classes]) or (got is not None and got.get_name() != cn):
            bad.append("lookup-get_class")
        gm = [(m.get_class_name(), m.get_name(), m.get_descriptor().replace(" ", "")) for m in d.get_encoded_methods_class(cn)]
        if sorted(gm) != sorted(k[:3] for k in wm if k[0] == cn):
            bad.append("lookup-methods_class")
        gf = [(f.get_class_name(), f.get_name(), f.get_descriptor()) for f in d.get_encoded_fields_class(cn)]
        if sorted(gf) != sorted(k[:3] for k in wf if k[0] == cn):
            bad.append("lookup-fields_class")
    for n in list(NAMES.values()) + ["zz"]:
        gm = [(m.get_class_name(), m.get_name(), m.get_descriptor().replace(" ", "")) for m in d.get_encoded_method("^" + re.escape(n) + "$")]
        if sorted(gm) != sorted(k[:3] for k in wm if k[1] == n):
            bad.append("lookup-method_name")
        gf = [(f.get_class_name(), f.get_name(), f.get_descriptor()) for f in d.get_encoded_field("^" + re.escape(n) + "$")]
        if sorted(gf) != sorted(k[:3] for k in wf if k[1] == n):
            bad.append("lookup-field_name")
    for cn in names:
        for n in NAMES.values():
            for p in PROTOS.values():
                ds = "(" + "".join(p[1]) + ")" + p[0]
                got = d.get_encoded_method_descriptor(cn, n, _spaced(p))
                exists = any(k[:3] == (cn, n, ds) for k in wm)
                if (got is not None) != exists or (got is not None and (got.get_class_name(), got.get_name(), got.get_descriptor().replace(" ", "")) != (cn, n, ds)):
                    bad.append("lookup-method_descriptor")
            for t in TYPES.values():
                got = d.get_encoded_field_descriptor(cn, n, t)
                exists = any(k[:3] == (cn, n, t) for k in wf)
                if (got is not None) != exists or (got is not None and (got.get_class_name(), got.get_name(), got.get_descriptor()) != (cn, n, t)):
                    bad.append("lookup-field_descriptor")
    return bad


def _spaced(p):
    """androguard's own descriptor spelling separates parameters by blanks"""
    return "(" + " ".join(p[1]) + ")" + p[0]


# ---- random models for the C->S direction ------------------------------------------------------------------
POOL_N = ["a", "b", "run", "get", "<init>", "value", "x1", "é", "中", "zz", "bc", "c", "cd", "d"]     # with classes La; Lab; Labc;: class + member names that concatenate alike
POOL_T = ["I", "J", "Z", "D", "B", "Ljava/lang/String;", "[I", "[[J", "Lx/T;", "[Ljava/lang/Object;"]
POOL_R = ["V", "I", "J", "Ljava/lang/String;", "[B"]


def random_model_record(dex, rnd, max_classes):
    nc = rnd.randrange(0, max_classes + 1)
    codeless = rnd.random() < 0.15           # a file of interfaces / native classes only has no code_item section at all
    cnames = ["Lp%d/C%d;" % (rnd.randrange(3), i) for i in range(nc)]
    if nc >= 2 and rnd.random() < 0.4:      # a class name that is a prefix of another one (lookup keys built by concatenation must not confuse them)
        cnames = ["La;", "Lab;", "Labc;", "Lp0/C9;"][:nc]
    classes, F, M = [], [], []
    protos = set()
    for cn in cnames:
        c = dict(name=cn, super="Ljava/lang/Object;", ifaces=rnd.sample(["Lz/I;", "La/I;", "Lm/I;", "Ljava/lang/Runnable;"], rnd.choice([0, 0, 1, 2, 3])),
                 flags=rnd.choice([1, 0x11, 0x401, 0x601]), src=rnd.choice([None, "S.java"]), sfields=[], ifields=[], dmethods=[], vmethods=[])
        seen = set()
        for _ in range(rnd.randrange(0, 6)):
            n, t, st = rnd.choice(POOL_N[:8]), rnd.choice(POOL_T), rnd.random() < 0.5
            if n == "<init>" or (n, t) in seen:
                continue
            seen.add((n, t))
            fl = (8 if st else 0) | rnd.choice([1, 2, 4, 0x10 | 1])
            (c["sfields"] if st else c["ifields"]).append((n, t, fl))
            F.append((cn, n, t, st, fl))
        if cn in ("La;", "Lab;"):            # La;.bc and Lab;.c : same concatenation of class and member name, same type / prototype
            n = "bc" if cn == "La;" else "c"
            if (n, "I") not in seen:
                c["sfields"].append((n, "I", 9))
                F.append((cn, n, "I", True, 9))
        seen = set()
        if cn in ("La;", "Lab;"):
            n, p = ("bc" if cn == "La;" else "c"), ("V", ())
            seen.add((n, p))
            fl = 1 if cn == "La;" else 0x401
            c["vmethods"].append(dict(name=n, ret="V", params=[], flags=fl, code=dict(regs=1, ins=1, outs=0, insns=[("return-void",)]) if cn == "La;" else None))
            protos.add(p)
            M.append((cn, n, p, False, cn == "La;", fl))
        for _ in range(rnd.randrange(0, 7)):
            n = rnd.choice(POOL_N)
            p = (rnd.choice(POOL_R), tuple(rnd.choice(POOL_T) for _ in range(rnd.randrange(0, 4))))
            if (n, p) in seen:
                continue
            seen.add((n, p))
            direct = n == "<init>" or rnd.random() < 0.4
            has = rnd.random() < 0.7 and not codeless
            fl = (rnd.choice([0xA, 0x10001 if n == "<init>" else 2]) if direct else 1)
            if not has:
                fl = 0x10A if direct else 0x401
            md = dict(name=n, ret=p[0], params=list(p[1]), flags=fl,
                      code=dict(regs=5, ins=0, outs=0, insns=[("nop",)] * rnd.randrange(0, 4) + [("return-void",)]) if has else None)
            (c["dmethods"] if direct else c["vmethods"]).append(md)
            protos.add(p)
            M.append((cn, n, p, direct, has, fl))
        classes.append(c)
    g = Dex(classes)
    g.layout['string_data_order'] = rnd.choice([None, None, 'reverse', 'interleave'])      # string ids only store offsets
    raw = g.build()
    # ranks: order-isomorphic integers
    ci = {c: i + 1 for i, c in enumerate(sorted(cnames))}
    ni = {n: i + 1 for i, n in enumerate(sorted(POOL_N))}
    tis = {t: i + 1 for i, t in enumerate(sorted(POOL_T))}
    pis = {p: i + 1 for i, p in enumerate(sorted(protos))}
    pdesc = {"(" + "".join(p[1]) + ")" + p[0]: pis[p] for p in protos}
    rec = dict(fields=[[ci[c], ni[n], tis[t], st, fl] for (c, n, t, st, fl) in F],
               methods=[[ci[c], ni[n], pis[p], dr, has, fl] for (c, n, p, dr, has, fl) in M])
    try:
        d = dex.DEX(raw)
        _observe_model(dex, d, rec, rnd, cnames, ci, ni, tis, pis, pdesc, F, M, protos)
    except Exception as e:                   # a parser / accessor that raises on a well-formed file has not reported what the file declares
        rec["rep_fields"], rec["rep_methods"], rec["q"] = [[-9, -9, -9, -9]], [[-9, -9, -9, -9, False]], []
        rec["err"] = "%s: %s" % (type(e).__name__, str(e)[:120])
    return rec


def _observe_model(dex, d, rec, rnd, cnames, ci, ni, tis, pis, pdesc, F, M, protos):
    rec["rep_fields"] = [[ci.get(f.get_class_name(), -1), ni.get(f.get_name(), -1), tis.get(f.get_descriptor(), -1), f.get_access_flags()]
                         for f in d.get_encoded_fields()]
    rec["rep_methods"] = [[ci.get(m.get_class_name(), -1), ni.get(m.get_name(), -1), pdesc.get(m.get_descriptor().replace(" ", ""), -1),
                           m.get_access_flags(), m.get_code() is not None] for m in d.get_encoded_methods()]
    q = []

    def mk(ms):
        return [[ci.get(m.get_class_name(), -1), ni.get(m.get_name(), -1), pdesc.get(m.get_descriptor().replace(" ", ""), -1)] for m in ms]

    def fk(fs):
        return [[ci.get(f.get_class_name(), -1), ni.get(f.get_name(), -1), tis.get(f.get_descriptor(), -1)] for f in fs]
    for cn in rnd.sample(cnames, min(3, len(cnames))):
        q.append(dict(k="mclass", a=[ci[cn]], r=mk(d.get_encoded_methods_class(cn))))
        q.append(dict(k="fclass", a=[ci[cn]], r=fk(d.get_encoded_fields_class(cn))))
    for n in rnd.sample(POOL_N, 3):
        q.append(dict(k="mname", a=[ni[n]], r=mk(d.get_encoded_method("^" + re.escape(n) + "$"))))
        q.append(dict(k="fname", a=[ni[n]], r=fk(d.get_encoded_field("^" + re.escape(n) + "$"))))
    for (c, n, p, dr, has, fl) in [x for x in M if x[0] in ("La;", "Lab;") and x[1] in ("bc", "c")] + rnd.sample(M, min(4, len(M))):
        got = d.get_encoded_method_descriptor(c, n, _spaced(p))
        q.append(dict(k="mdesc", a=[ci[c], ni[n], pis[p]], r=mk([got] if got is not None else [])))
    if M and cnames:
        c, n, p = rnd.choice(cnames), rnd.choice(POOL_N), rnd.choice(sorted(protos))
        got = d.get_encoded_method_descriptor(c, n, _spaced(p))
        q.append(dict(k="mdesc", a=[ci[c], ni[n], pis[p]], r=mk([got] if got is not None else [])))
    for (c, n, t, st, fl) in [x for x in F if x[0] in ("La;", "Lab;") and x[1] in ("bc", "c")] + rnd.sample(F, min(4, len(F))):
        got = d.get_encoded_field_descriptor(c, n, t)
        q.append(dict(k="fdesc", a=[ci[c], ni[n], tis[t]], r=fk([got] if got is not None else [])))
    rec["q"] = q
