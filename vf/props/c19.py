"""C19: see vf/domobs.py (spec Dominators / DominatorsMC / Dominators_Trace)."""
from ..domobs import run_property


def run(chk):
    run_property(chk, "C19")
