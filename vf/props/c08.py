"""C08 try/catch tables: spec TryTable / TryTableMC / TryTable_Trace."""
import random

from .. import tlc
from ..dexgen import Dex

TYPES = {1: "Ljava/lang/Exception;", 2: "Lx/E;", 3: "Ly/F;"}
INV = {v: k for k, v in TYPES.items()}
INV["Ljava/lang/Throwable;"] = 0


def method_for(i, insns, tries, hs):
    """tries: [(start, count, h1based)], hs: [dict(typed=[(t, a)], all=-1|a)]"""
    body = b"\x00\x00" * (insns - 1) + b"\x0e\x00"
    handlers = [([(TYPES[t], a) for (t, a) in h["typed"]], None if h["all"] < 0 else h["all"]) for h in hs]
    return dict(name="m%d" % i, ret="V", params=[], flags=9,
                code=dict(regs=1, ins=0, outs=0, insns=body, tries=[(s, c, h - 1) for (s, c, h) in tries], handlers=handlers))


def observe(dex, cases):
    """cases: list of (insns, tries, hs) -> list of observation dicts (same order)"""
    methods = [method_for(i, *c) for i, c in enumerate(cases)]
    cls = dict(name="Lt/T;", super="Ljava/lang/Object;", flags=1, sfields=[], ifields=[], dmethods=methods, vmethods=[])
    raw = Dex([cls]).build()
    d = dex.DEX(raw)
    out = {}
    for m in d.get_encoded_methods():
        i = int(m.get_name()[1:])
        rep = []
        for e in dex.determineException(d, m):
            rep.append(dict(lo=e[0], hi=e[1], hl=[[INV.get(t, -1), a] for (t, a) in e[2:]]))
        code = m.get_code()
        items = [[t.get_start_addr(), t.get_insn_count(), t.get_handler_off()] for t in code.get_tries()]
        out[i] = dict(rep=rep, items=items, nhandlers=len(code.get_handlers().get_list()))
    return [out[i] for i in range(len(cases))]


def expected_entry(e):
    return dict(lo=e["lo"], hi=e["hi"], hl=[list(x) for x in e["hl"]])


def run(chk):
    from androguard.core import dex
    quick = chk.tier == "quick"
    rnd = random.Random(chk.seed)
    cfg = "TryTableMC_quick.cfg" if quick else "TryTableMC_thorough.cfg"
    stride = (3, chk.seed) if quick else (4, chk.seed)
    chk.bounds = dict(cfg=cfg, replay_stride=stride[0], tries="1..%d" % (2 if quick else 3), handlers="1..2 lists; 0-2 typed, with/without catch-all; addrs {0,3,130}",
                      insns="133 (odd, padded) and 134 (even); random tables: 20..400 code units, plus one method of 66000..70000 code units per batch (try start and handler addresses beyond 65535)")
    r, states = tlc.dump_states("TryTableMC", cfg, stride=stride, timeout=3000, heap="6g")
    chk.model(r, "TryTableMC/" + cfg)
    n = 0
    for k in range(0, len(states), 250):
        batch = states[k:k + 250]
        cases = []
        for st in batch:
            tries = [(t["start"], t["count"], t["h"]) for t in map(dict, st["tries"])]
            hs = [dict(typed=[tuple(p) for p in dict(h)["typed"]], all=dict(h)["all"]) for h in st["hs"]]
            cases.append((st["insns"], tries, hs))
        obs = observe(dex, cases)
        for st, case, ob in zip(batch, cases, obs):
            exp = st["exp"]
            want = sorted((expected_entry(dict(e)) for e in exp["rep"]), key=repr)
            bad = []
            if sorted(ob["rep"], key=repr) != want:
                bad.append("exception-table")
            want_items = [[t[0], t[1], exp["hoff"][t[2] - 1]] for t in case[1]]
            if ob["items"] != want_items:
                bad.append("try-items")
            if ob["nhandlers"] != len(case[2]):
                bad.append("handler-count")
            if bad:
                shape = "odd" if case[0] % 2 else "even"
                chk.violation("try:%s:%s" % (shape, "+".join(bad)), "TryTable.Report", dict(insns=case[0], tries=case[1], handlers=case[2], got=ob, want=want))
            n += 1
        chk.sample(dict(insns=cases[0][0], tries=cases[0][1], handlers=cases[0][2], spec=[expected_entry(dict(e)) for e in batch[0]["exp"]["rep"]], code=obs[0]["rep"]), cap=3)
    chk.replayed(n)

    # ---- C->S: random larger tables --------------------------------------------------------------------------------
    recs = []
    for _ in range(4 if quick else 60):
        cases = []
        for _ in range(200):
            insns = rnd.randrange(20, 400)
            nh = rnd.randrange(1, 5)
            hs = []
            for _ in range(nh):
                typed = [(rnd.randrange(1, 4), rnd.choice([0, 1, 127, 128, insns - 1, rnd.randrange(insns)])) for _ in range(rnd.randrange(0, 4))]
                al = rnd.choice([-1, 0, 128, rnd.randrange(insns)])
                if not typed and al < 0:
                    al = 5
                hs.append(dict(typed=typed, all=al))
            tries = []
            at = 0
            for _ in range(rnd.randrange(1, 6)):
                start = at + rnd.randrange(0, 4)
                cnt = rnd.randrange(1, 6)
                if start + cnt > insns:
                    break
                tries.append((start, cnt, rnd.randrange(1, nh + 1)))
                at = start + cnt
            if not tries:
                tries = [(0, 1, 1)]
            k = rnd.random()
            if k < 0.25 and at < insns:                   # a range reaching the last code unit of the method
                cnt = rnd.randrange(1, insns - at + 1)
                tries.append((insns - cnt, cnt, rnd.randrange(1, nh + 1)))
            elif k < 0.35:                                # one range over the whole method
                tries = [(0, insns, rnd.randrange(1, nh + 1))]
            cases.append((insns, tries, hs))
        # one method longer than 65536 code units: start_addr is a 32-bit field, handler addresses are uleb128 (C08f)
        insns = rnd.randrange(66000, 70000)
        far = 65536 + rnd.randrange(0, 300)
        cases.append((insns, [(10, 5, 1), (far, rnd.randrange(1, 6), 2), (insns - 3, 3, 1)],
                      [dict(typed=[(1, rnd.randrange(insns))], all=rnd.choice([-1, 65600])), dict(typed=[(2, far + 8)], all=far + 9)]))
        obs = observe(dex, cases)
        for case, ob in zip(cases, obs):
            recs.append(dict(insns=case[0], tries=[list(t) for t in case[1]], hs=[dict(typed=[list(p) for p in h["typed"]], all=h["all"]) for h in case[2]],
                             rep=ob["rep"], items=ob["items"], nhandlers=ob["nhandlers"]))
    res = tlc.validate("TryTable_Trace", "TryTable_Trace.cfg", recs, shards=8 if quick else 16)
    chk.trace_result(res, "TryTable_Trace")
    for gi, why in res["rejects"]:
        chk.violation("try:random:" + "+".join(sorted(why[0])), "TryTable_Trace", recs[gi])
    rejected = {i for i, _ in res["rejects"]}
    k = next((i for i in range(len(recs)) if i not in rejected), None)
    if k is not None:
        bad = dict(recs[k])
        bad["rep"] = [dict(bad["rep"][0], hi=bad["rep"][0]["hi"] + 1)] + bad["rep"][1:]
        st = tlc.validate("TryTable_Trace", "TryTable_Trace.cfg", [bad], shards=1)
        if not st["rejects"]:
            raise tlc.TLCError("binding self-test failed")
        chk.extra["self_test_rejected"] = True
    chk.assumptions += ["the order of entries between different try ranges is not part of the property (compared as a bag)",
                        "handler type indices are < 128 (one-byte uleb128) in generated files; handler addresses range over one- and two-byte encodings"]
