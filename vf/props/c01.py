"""C01 Dalvik instruction decoding: spec DalvikFormat / DalvikFormatMC / DalvikFormat_Trace."""
import random
import struct

from .. import tlc
from ..core import limbs32, limbs64
from ..dalvik_table import T, WIDE_LIT


class _MethodRef:
    def get_class_name(self):
        return "LStub;"

    def get_name(self):
        return "m"

    def get_descriptor(self):
        return "()V"


class StubCM:
    """Pool getters return placeholders; decoding must not depend on pool content."""

    def __init__(self, odex=False):
        from androguard.core.dex import DalvikPacker
        self.packer = DalvikPacker(0x12345678)
        self.odex = odex

    def get_odex_format(self):
        return self.odex

    def get_string(self, i):
        return "s%d" % i

    def get_raw_string(self, i):
        return "s%d" % i

    def get_type(self, i):
        return "T%d" % i

    def get_field(self, i):
        return ["LStub;", "I", "f%d" % i]

    def get_method_ref(self, i):
        return _MethodRef()

    def get_proto(self, i):
        return ["()", "V"]


def project(ins, name_hint=None):
    """Real Instruction -> the observation record compared with DalvikFormat!Decode."""
    from androguard.core.dex.dex_types import Operand
    try:
        raw = bytes(ins.get_raw())
    except Exception as e:      # re-encoding must not fail: reported through the "reencode" clause
        raw = b""
    r = dict(ok=True, len=ins.get_length() // 2, name=ins.get_name(), raw=list(struct.unpack("<%dH" % (len(raw) // 2), raw[:len(raw) // 2 * 2])),
             regs=[], lit=[], litneg=False, litfits=True, off=[], offneg=False, offfits=True, idx=[], idxfits=True, idx2=[], lits=[], refoff=[], refkind=[])
    wide = r["name"] in WIDE_LIT
    ops = ins.get_operands()
    if ops is None:
        # 45cc / 4rcc expose their fields as attributes only
        if hasattr(ins, "NNNN"):
            r["regs"] = list(range(ins.CCCC, ins.NNNN + 1))
        else:
            r["regs"] = [ins.C, ins.D, ins.E, ins.F, ins.G][:min(ins.A, 5)]
        r["idx"] = limbs32(ins.BBBB)
        r["idx2"] = limbs32(ins.HHHH)
    else:
        for o in ops:
            k, v = int(o[0]), o[1]
            if k == Operand.REGISTER:
                r["regs"].append(v)
            elif k == Operand.LITERAL:
                w = 64 if wide else 32
                r["lit"] = limbs64(v) if wide else limbs32(v)
                r["litneg"] = v < 0
                r["litfits"] = -(1 << (w - 1)) <= v < (1 << (w - 1))
            elif k == Operand.OFFSET:
                r["off"] = limbs32(v)
                r["offneg"] = v < 0
                r["offfits"] = -(1 << 31) <= v < (1 << 31)
            elif k >= Operand.KIND:
                r["idx"] = limbs32(v)
                r["idxfits"] = 0 <= v < (1 << 32)
            else:
                r.setdefault("other", []).append([k, repr(v)])
    lits = ins.get_literals()
    if lits:
        v = lits[0]
        r["lits"] = limbs64(v) if wide else limbs32(v)
    if r["off"]:
        try:
            r["refoff"] = limbs32(ins.get_ref_off())
        except Exception as e:
            r["refoff"] = ["exc", repr(e)]
    if r["idx"] and not r["idx2"]:
        try:
            r["refkind"] = limbs32(ins.get_ref_kind())
        except Exception as e:
            r["refkind"] = ["exc", repr(e)]
    return r


def decode(dexmod, cm, units):
    buf = bytearray(struct.pack("<%dH" % len(units), *units))
    try:
        ins = dexmod.get_instruction(cm, units[0] & 0xFF, buf)
    except dexmod.InvalidInstruction:
        return dict(ok=False, len=0, name="", raw=[], regs=[], lit=[], litneg=False, litfits=True, off=[], offneg=False, offfits=True,
                    idx=[], idxfits=True, idx2=[], lits=[], refoff=[], refkind=[])
    return project(ins)


FMT_ZERO_AA = {"10x", "20t", "30t", "32x"}


def compare(units, exp, got):
    """S->C comparison of a TLC state (u, exp) with the projection; returns list of failing clause names."""
    op = units[0] & 0xFF
    aa = units[0] >> 8
    bad = []
    if exp["len"] == 0:
        return [] if not got["ok"] else ["unused-opcode-rejected"]
    fmt = T[op][1]
    count_ok = not (fmt in ("35c", "45cc") and (aa >> 4) > 5)
    if not got["ok"]:
        must = (fmt not in FMT_ZERO_AA or aa == 0) and count_ok
        return ["valid-instruction-decoded"] if must else []
    if got["len"] != exp["len"]:
        bad.append("length")
    if got["name"] != exp["name"]:
        bad.append("mnemonic")
    if got["raw"] != list(units[:exp["len"]]):
        bad.append("reencode")
    if not count_ok:          # argument count 6..15 is outside the format: only length, name and round trip are required
        return bad
    if got["regs"] != list(exp["regs"]):
        bad.append("registers")
    lit = list(exp["lit"])
    if got["lit"] != lit or (lit and (not got["litfits"] or got["litneg"] != (lit[-1] >= 32768))):
        bad.append("literal")
    if got["lits"] != got["lit"]:
        bad.append("get_literals")
    off = list(exp["off"])
    if got["off"] != off or (off and (not got["offfits"] or got["offneg"] != (off[-1] >= 32768))):
        bad.append("offset")
    if off and got["refoff"] != got["off"]:
        bad.append("get_ref_off")
    if got["idx"] != list(exp["idx"]) or not got.get("idxfits", True):
        bad.append("index")
    if got["idx2"] != list(exp["idx2"]):
        bad.append("index2")
    if exp["idx"] and not exp["idx2"] and got["refkind"] != list(exp["idx"]):
        bad.append("get_ref_kind")
    return bad


def sig_of(units, clauses):
    op = units[0] & 0xFF
    fmt = T[op][1] if op in T else "unused"
    return "decode:%s:%s" % (fmt, "+".join(sorted(clauses)))


def run(chk):
    from androguard.core import dex
    quick = chk.tier == "quick"
    rnd = random.Random(chk.seed)
    cm = StubCM()
    cfg = "DalvikFormatMC_quick.cfg" if quick else "DalvikFormatMC_thorough.cfg"
    chk.bounds = dict(cfg=cfg, first_unit="all 256 opcodes x " + ("40 boundary high bytes" if quick else "all 256 high bytes"),
                      tails="15 boundary / mixed 4-unit tails", c2s_first_unit="all 65536 first code units exhaustively")
    r, states = tlc.dump_states("DalvikFormatMC", cfg, timeout=3000, heap="8g")
    chk.model(r, "DalvikFormatMC/" + cfg)
    n = 0
    for st in states:
        u = list(st["u"])
        got = decode(dex, cm, u)
        bad = compare(u, st["exp"], got)
        if bad:
            chk.violation(sig_of(u, bad), "DalvikFormat.Decode:" + "+".join(bad), dict(units=u, expected=st["exp"], got=got))
        if n % 20011 == 0:
            chk.sample(dict(units=u, spec=st["exp"], code=got), cap=4)
        n += 1
    chk.replayed(n)
    del states

    # C->S: every first code unit, random tails (boundary-biased); validated by DalvikFormat_Trace
    recs = []
    edge = [0, 1, 0x7F, 0x80, 0xFF, 0x100, 0x7FFF, 0x8000, 0xFFFF, 0xFF00]
    reps = 1 if quick else 6

    def tail():
        return [rnd.choice(edge) if rnd.random() < 0.4 else rnd.getrandbits(16) for _ in range(4)]
    for first in range(65536):
        for _ in range(reps):
            u = [first] + tail()
            recs.append(dict(u=u, r=decode(dex, cm, u)))
    res = tlc.validate("DalvikFormat_Trace", "DalvikFormat_Trace.cfg", recs, shards=16, heap="2g")
    chk.trace_result(res, "DalvikFormat_Trace")
    for gi, why in res["rejects"]:
        rec = recs[gi]
        chk.violation(sig_of(rec["u"], why[0]), "DalvikFormat_Trace:" + "+".join(sorted(why[0])), rec)
    chk.sample(recs[0x1234])

    # binding self-test: corrupt one accepted record, it (and only it) must become rejected
    rejected = {i for i, _ in res["rejects"]}
    k = next(i for i in range(0x1200, 65536) if recs[i]["r"]["ok"] and recs[i]["r"]["regs"] and i not in rejected)
    bad = [dict(u=x["u"], r=dict(x["r"])) for x in recs[k - 3:k + 3]]
    bad[3]["r"]["regs"] = [bad[3]["r"]["regs"][0] + 1] + bad[3]["r"]["regs"][1:]
    st = tlc.validate("DalvikFormat_Trace", "DalvikFormat_Trace.cfg", bad, shards=1)
    if 3 not in [i for i, _ in st["rejects"]]:
        raise tlc.TLCError("binding self-test failed: %s" % (st["rejects"],))
    chk.extra["self_test_rejected"] = True
    chk.assumptions += ["register lists of 35c/45cc are compared only for argument counts 0..5",
                        "a non-zero '00' byte in formats 10x/20t/30t/32x may be rejected or decoded (then only the round trip and fields are required)",
                        "45cc/4rcc expose their fields as attributes (get_operands() is unimplemented for them); attributes are accepted as 'exposed'"]
