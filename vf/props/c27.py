"""C27 resource values: spec ResValue / ResValueMC / ResValue_Trace."""
import io
import random
import re
import struct

from .. import tlc
from ..core import limbs32

KIND = {1: "reference", 2: "attribute", 4: "float", 5: "dimension", 6: "fraction", 16: "int-dec", 17: "int-hex", 18: "boolean", 28: "color", 29: "color", 30: "color", 31: "color"}
SHIFT = {0: 0, 1: 7, 2: 15, 3: 23}


class _Parent:
    class _Pool:
        @staticmethod
        def getString(i):
            return "<string %d>" % i
    stringpool_main = _Pool()


def observe(axml, t, data, api):
    if api == "format_value":
        text = axml.format_value(t, data)
    elif api == "ARSCResStringPoolRef.format_value":
        ref = axml.ARSCResStringPoolRef(io.BytesIO(struct.pack("<HBBI", 8, 0, t, data)), _Parent())
        text = ref.format_value()
    else:       # get_resource_dimen, through a minimal entry object
        class E:
            pass
        ate = E()
        ate.get_value = lambda: "name"
        ate.key = E()
        ate.key.get_data = lambda: data
        text = axml.ARSCParser.get_resource_dimen(None, ate)[1]
        text = text if isinstance(text, str) else repr(text)
    rec = dict(t=t, d=limbs32(data), kind=KIND.get(t, "other"), api=api, text=[ord(c) for c in text], ok=True, neg=False, mag=[0, 0], unit="", scaled=0)
    if t == 16:
        try:
            v = int(text)
            rec.update(neg=v < 0, mag=limbs32(abs(v)), ok=abs(v) <= 2 ** 31)
        except ValueError:
            rec["ok"] = False
    elif t in (5, 6):
        m = re.match(r"^(-?)(\d+(?:\.\d+)?(?:[eE][-+]?\d+)?)(%p|%|[a-z]+)$", text)
        if not m:
            rec["ok"] = False
        else:
            val = float(m.group(2))
            if t == 6:
                val /= 100.0
            shift = SHIFT[(data >> 4) & 3]
            scaled = round(val * (1 << shift))
            rec.update(neg=(m.group(1) == "-"), unit=m.group(3), scaled=int(min(scaled, 2 ** 30)))      # "-0.000000" keeps its sign
    return rec, text


def run(chk):
    from androguard.core import axml
    quick = chk.tier == "quick"
    rnd = random.Random(chk.seed)
    chk.bounds = dict(model="11 value types x boundary data words; complex values: 12 mantissas (sign boundaries) x 4 radixes x every unit", random="random data words per type")
    r, states = tlc.dump_states("ResValueMC", "ResValueMC.cfg", timeout=600)
    chk.model(r, "ResValueMC")
    recs = []
    n = 0
    for st in states:
        t = st["t"]
        data = st["d"][0] | st["d"][1] << 16
        apis = ["format_value", "ARSCResStringPoolRef.format_value"] + (["get_resource_dimen"] if t == 5 else [])
        for api in apis:
            rec, text = observe(axml, t, data, api)
            exp = dict(st["exp"])
            bad = []
            if exp["text"] and list(exp["text"]) != rec["text"]:
                bad.append("text")
            if t == 16 and (not rec["ok"] or rec["neg"] != exp["neg"] or rec["mag"] != list(exp["mag"])):
                bad.append("signed-decimal")
            if t in (5, 6):
                mag = exp["mag"][0] + 65536 * exp["mag"][1]
                if not rec["ok"] or rec["unit"] != exp["unit"]:
                    bad.append("unit")
                if rec["ok"] and mag != 0 and rec["neg"] != exp["neg"]:
                    bad.append("sign")
                if rec["ok"] and abs(rec["scaled"] - mag) > 2 + (1 << exp["shift"]) // 500000:
                    bad.append("magnitude")
            for b in bad:
                chk.violation("%s:%s:%s:%s" % (api, KIND[t], b, "negative" if exp["neg"] else "non-negative"), "ResValue",
                              dict(type=t, data="0x%08X" % data, text=text, expected={k: (list(v) if isinstance(v, tuple) else v) for k, v in exp.items()}))
            recs.append(rec)
            n += 1
        if n % 150 == 0:
            chk.sample(dict(type=t, data="0x%08X" % data, spec=dict(st["exp"]), androguard=text), cap=4)
    chk.replayed(n)
    # floats: IEEE bits -> text, judged numerically in the harness (DESIGN section 5)
    nf = 0
    for data in [0, 0x3F800000, 0xBF800000, 0x7F7FFFFF, 0x00000001, 0x80000000, 0x40490FDB] + [rnd.getrandbits(32) for _ in range(200)]:
        text = axml.format_value(4, data)
        want = "%f" % struct.unpack("<f", struct.pack("<I", data))[0]
        if text != want:
            chk.violation("format_value:float", "IEEE-754 bits", dict(data="0x%08X" % data, text=text, want=want))
        nf += 1
    chk.extra["float_values_compared_in_harness"] = nf
    for _ in range(4000 if quick else 100000):
        t = rnd.choice([1, 2, 5, 5, 5, 6, 6, 16, 16, 17, 18, 28, 29, 30, 31])
        data = rnd.getrandbits(32)
        if rnd.random() < 0.3:
            data = rnd.choice([0, 1, 0x7FFFFFFF, 0x80000000, 0xFFFFFFFF, 0x01000000, 0x0100FFFF, 0x7F000000])
        if t == 5:
            data = (data & ~0xF) | rnd.randrange(6)
        if t == 6:
            data = (data & ~0xF) | rnd.randrange(2)
        api = rnd.choice(["format_value", "ARSCResStringPoolRef.format_value"] + (["get_resource_dimen"] if t == 5 else []))
        rec, _ = observe(axml, t, data, api)
        recs.append(rec)
    res = tlc.validate("ResValue_Trace", "ResValue_Trace.cfg", recs, shards=16, heap="2g")
    chk.trace_result(res, "ResValue_Trace")
    for gi, why in res["rejects"]:
        rec = recs[gi]
        data = rec["d"][0] | rec["d"][1] << 16
        neg = bool(data & 0x80000000)
        chk.violation("%s:%s:%s" % (rec["api"], "+".join(sorted(w.split(".", 1)[1] for w in why[0])), "negative" if neg else "non-negative"), "ResValue_Trace",
                      dict(type=rec["t"], data="0x%08X" % data, text="".join(map(chr, rec["text"]))))
    rejected = {i for i, _ in res["rejects"]}
    k = next((i for i in range(len(recs)) if i not in rejected and recs[i]["t"] == 17), None)
    if k is not None:
        bad = dict(recs[k], text=recs[k]["text"][:-1] + [48 if recs[k]["text"][-1] != 48 else 49])
        st = tlc.validate("ResValue_Trace", "ResValue_Trace.cfg", [bad], shards=1)
        if not st["rejects"]:
            raise tlc.TLCError("binding self-test failed")
        chk.extra["self_test_rejected"] = True
    chk.assumptions += ["colours are printed as # followed by the eight hex digits of the data word", "the decimal text of a complex value is read back numerically and must equal mantissa * 2^-shift within the rounding of a six-digit print",
                        "TYPE_FLOAT is compared numerically in the harness (struct), not by TLC"]
