"""C24 type names: spec TypeName / TypeNameMC / TypeName_Trace."""
import random
import re

from .. import tlc
from ..dexgen import Dex

WORDS = ["java", "lang", "language", "javax", "annotation", "invoke", "Foo", "a", "util", "String", "Object", "l", "j", "g", "n", "v", "android", "x",
         # names made of / beginning / ending with the letters of the descriptor syntax, inner classes
         "L", "LL", "URL", "Logger", "SQL", "Lx", "xL", "V", "I", "Map$Entry", "$1", "lang$L"]
PRIMS = "ZBSCIJFD"


def descriptor(d):
    return "[" * d["dims"] + (d["prim"] if d["prim"] else "L" + "/".join(d["segs"]) + ";")


def shape(d):
    if d["prim"]:
        return "primitive"
    s = d["segs"]
    if s[:2] == ["java", "lang"]:
        return "java.lang-direct" if len(s) == 3 else ("java.lang-subpackage" if len(s) > 3 else "java.lang-itself")
    if s and s[0].startswith("java"):
        return "look-alike-java-prefix"
    if s and s[0] and s[0][0] in "javlng":
        return "starts-with-letter-of-java/lang"
    return "other"


def source_types(dex, ds):
    """types printed by DvClass.get_source() for fields, parameters and return types of a generated class"""
    from androguard.core.analysis.analysis import Analysis
    from androguard.decompiler.decompile import DvClass
    fields = [("f%04d" % i, descriptor(d), 1) for i, d in enumerate(ds)]
    methods = []
    for i, d in enumerate(ds):
        t = descriptor(d)
        methods.append(dict(name="m%04d" % i, ret=t, params=[t], flags=0x401))       # abstract: prototype only
    cls = dict(name="Lt/T;", super="Ljava/lang/Object;", flags=0x401, sfields=[], ifields=fields, dmethods=[], vmethods=methods)
    d = dex.DEX(Dex([cls]).build())
    dx = Analysis(d)
    c = DvClass(d.get_class("Lt/T;"), dx)
    c.process()
    src = c.get_source()
    out = {}
    for line in src.splitlines():
        m = re.match(r"\s*(?:public |private |protected |static |final |abstract |volatile |transient )*(\S+) f(\d{4});", line)
        if m:
            out[("field", int(m.group(2)))] = m.group(1)
        m = re.match(r"\s*(?:public |private |protected |static |final |abstract |native |synchronized )*(\S+) m(\d{4})\((\S+) \w+\)", line)
        if m:
            out[("return", int(m.group(2)))] = m.group(1)
            out[("param", int(m.group(2)))] = m.group(3)
    return out, src


def run(chk):
    from androguard.core import dex
    from androguard.decompiler import util as dutil
    quick = chk.tier == "quick"
    rnd = random.Random(chk.seed)
    cfg = "TypeNameMC_quick.cfg" if quick else "TypeNameMC_thorough.cfg"
    chk.bounds = dict(cfg=cfg, segments="lists of <= %d over {java, lang, language, javax, annotation, invoke, Foo, a, L, URL}" % (3 if quick else 4),
                      dims="0..%d" % (2 if quick else 3))
    r, states = tlc.dump_states("TypeNameMC", cfg, timeout=3000)
    chk.model(r, "TypeNameMC/" + cfg)
    n = 0
    in_source = []
    for st in states:
        d = dict(st["d"])
        d["segs"] = list(d["segs"])
        desc = st["desc"]
        if desc != descriptor(d):
            raise tlc.TLCError("descriptor text of spec and harness differ: %r %r" % (desc, descriptor(d)))
        names = set(st["names"])
        for api, fn in (("decompiler.util.get_type", dutil.get_type), ("dex.get_type", dex.get_type)):
            try:
                got = fn(desc)
            except Exception as e:
                got = "<exception %s>" % type(e).__name__
            if got not in names:
                chk.violation("%s:%s" % (api, shape(d)), "TypeName.Names", dict(descriptor=desc, allowed=sorted(names), got=got))
        if n % 37 == chk.seed % 37 and d["prim"] != "V":
            in_source.append((d, names))
        if n % 977 == 0:
            chk.sample(dict(descriptor=desc, spec_names=sorted(names), decompiler=dutil.get_type(desc), dex=dex.get_type(desc)), cap=4)
        n += 1
    chk.replayed(n)
    # the same through DvClass.get_source()
    for k in range(0, len(in_source), 150):
        batch = in_source[k:k + 150]
        got, src = source_types(dex, [b[0] for b in batch])
        for i, (d, names) in enumerate(batch):
            for where in ("field", "return", "param"):
                g = got.get((where, i))
                if g is None:
                    chk.violation("source:%s:not-found" % where, "DvClass.get_source", dict(descriptor=descriptor(d), line="not found"))
                elif g not in names:
                    chk.violation("source:%s:%s" % (where, shape(d)), "TypeName.Names", dict(descriptor=descriptor(d), allowed=sorted(names), printed=g))
    chk.replayed(len(in_source))
    # C->S: random descriptors
    recs = []
    for _ in range(3000 if quick else 60000):
        dims = rnd.choice([0, 0, 0, 1, 2, 3])
        if rnd.random() < 0.15:
            d = dict(dims=dims, prim=rnd.choice(PRIMS), segs=[])
        else:
            k = rnd.randrange(1, 6)
            segs = [rnd.choice(WORDS) for _ in range(k)]
            if rnd.random() < 0.4:
                segs = ["java", rnd.choice(["lang", "lang", "language", "langx"])] + segs[:rnd.randrange(1, 3)]
            d = dict(dims=dims, prim="", segs=segs)
        desc = descriptor(d)
        for api, fn in (("decompiler.util.get_type", dutil.get_type), ("dex.get_type", dex.get_type)):
            try:
                got = fn(desc)
            except Exception as e:
                got = "<exception %s>" % type(e).__name__
            recs.append(dict(dims=d["dims"], prim=d["prim"], segs=d["segs"], api=api, got=got))
    res = tlc.validate("TypeName_Trace", "TypeName_Trace.cfg", recs, shards=16, heap="2g")
    chk.trace_result(res, "TypeName_Trace")
    for gi, why in res["rejects"]:
        rec = recs[gi]
        chk.violation("%s:%s" % (rec["api"], shape(rec)), "TypeName_Trace", dict(descriptor=descriptor(rec), got=rec["got"]))
    rejected = {i for i, _ in res["rejects"]}
    k = next((i for i in range(len(recs)) if i not in rejected), None)
    if k is not None:
        bad = dict(recs[k], got=recs[k]["got"] + "x")
        st = tlc.validate("TypeName_Trace", "TypeName_Trace.cfg", [bad], shards=1)
        if not st["rejects"]:
            raise tlc.TLCError("binding self-test failed")
        chk.extra["self_test_rejected"] = True
    chk.assumptions += ["a direct member of java.lang may be printed with or without the java.lang. prefix (dex.get_type keeps it, the decompiler drops it)"]
