"""C02 linear sweep: spec LinearSweep / LinearSweepMC / LinearSweep_Trace."""
import glob
import itertools
import os
import random
import struct

from .. import tlc
from ..dalvik_table import T, UNUSED
from .c01 import StubCM

ALPHA = [0, 1, 2, 20, 24, 26, 62, 255, 511, 254, 256, 512, 768, 1024, 270]


def to_bytes(units):
    return bytearray(struct.pack("<%dH" % len(units), *units))


def sweep(dexmod, cm, units, src="sweep"):
    """Run the real disassembler; return (items [(off_units, len_units)], status, events)."""
    buf = to_bytes(units)
    ev = [dict(ev="begin", code=list(units), src=src)]
    items = []
    status = "done"
    off = 0
    try:
        if src == "dcode":
            dc = dexmod.DCode(cm, 0, len(units), buf)
            it = dc.get_instructions()
        else:
            dc = None
            it = dexmod.LinearSweepAlgorithm.get_instructions(cm, len(units), buf, 0)
        k = 0
        for ins in it:
            ln = ins.get_length()
            try:
                raw = bytes(ins.get_raw())
            except Exception:
                raw = b""
            if len(raw) % 2:
                raw += b"\0"
            rawu = list(struct.unpack("<%dH" % (len(raw) // 2), raw))
            e = dict(ev="emit", off=off, len=ln, raw=rawu, pos=k, same=True)
            if dc is not None:
                e["pos"] = dc.off_to_pos(off)
                e["same"] = dc.get_ins_off(off) is ins
            ev.append(e)
            items.append((off // 2, ln // 2))
            off += ln
            k += 1
    except dexmod.InvalidInstruction:
        status = "invalid"
        if src == "dcode":
            # DCode materialises the whole list first: an invalid array yields nothing; the sweep trace covers the prefix
            return [], "invalid", None
    ev.append(dict(ev="end", status=status))
    return items, status, ev


def gen_valid(rnd, n_ins):
    """Random list of valid instruction encodings (unit lists) incl. 0xfe/0xff with any register byte and payloads."""
    out = []
    ops = sorted(T)
    for _ in range(n_ins):
        c = rnd.random()
        if c < 0.08:
            size = rnd.choice([0, 1, 2, 3, rnd.randrange(0, 40)])
            out.append([0x0100, size] + [rnd.getrandbits(16) for _ in range(2 + 2 * size)])
        elif c < 0.16:
            size = rnd.choice([0, 1, 2, rnd.randrange(0, 30)])
            out.append([0x0200, size] + [rnd.getrandbits(16) for _ in range(4 * size)])
        elif c < 0.26:
            width = rnd.choice([1, 2, 4, 8, rnd.randrange(0, 9)])
            size = rnd.choice([0, 1, 2, 3, rnd.randrange(0, 50)])
            out.append([0x0300, width, size, 0] + [rnd.getrandbits(16) for _ in range((size * width + 1) // 2)])
        elif c < 0.36:
            op = rnd.choice([0xfe, 0xff])
            out.append([op | rnd.randrange(256) << 8, rnd.getrandbits(16)])
        else:
            op = rnd.choice(ops)
            fmt = T[op][1]
            n = int(fmt[0])
            hi = 0 if fmt in ("10x", "20t", "30t", "32x") else rnd.randrange(256)
            if fmt in ("35c", "45cc"):
                hi = rnd.randrange(16) | rnd.randrange(6) << 4
            out.append([op | hi << 8] + [rnd.getrandbits(16) for _ in range(n - 1)])
    return out


def sig(kind, why):
    return "sweep:%s:%s" % (kind, why)


def run(chk):
    from androguard.core import dex
    quick = chk.tier == "quick"
    rnd = random.Random(chk.seed)
    cm = StubCM()
    chk.bounds = dict(raw="all arrays <= %d units over a 15-unit alphabet" % (4 if quick else 5),
                      asm="all lists of <= %d descriptors out of 17 valid instructions/payloads" % (3 if quick else 4))

    # ---- model + S->C ------------------------------------------------------------------------------------------
    for mode, cfg in (("raw", "LinearSweepMC_raw4.cfg"), ("asm", "LinearSweepMC_asm3.cfg" if quick else "LinearSweepMC_asm4.cfg")):
        r, finals = tlc.dump_states("LinearSweepMC", cfg, only={"code", "out", "status"}, skip_if='"run"', timeout=3000, heap="8g")
        chk.model(r, "LinearSweepMC/" + cfg)
        allowed = {}
        for st in finals:
            allowed.setdefault(st["code"], set()).add((tuple(tuple(x) for x in st["out"]), st["status"]))
        n = 0
        for code, outs in allowed.items():
            for src in ("sweep", "dcode"):
                items, status, _ = sweep(dex, cm, list(code), src)
                if src == "dcode" and status == "invalid":
                    continue
                if (tuple(items), status) not in outs:
                    amb = len(outs) > 1
                    chk.violation(sig(mode, "final-state" + ("-ambiguous" if amb else "") + ":" + _classify(list(code), items, status, outs)),
                                  "LinearSweep.Step", dict(code=list(code), src=src, got=[items, status], allowed=sorted(outs)))
            if n % 9001 == 0:
                chk.sample(dict(mode=mode, code=list(code), spec=sorted(outs)[0]), cap=3)
            n += 1
        chk.replayed(n)
    if not quick:
        r = tlc.check_model("LinearSweepMC", "LinearSweepMC_raw5.cfg", timeout=3000, heap="8g")
        chk.model(r, "LinearSweepMC/raw5")

    # ---- C->S --------------------------------------------------------------------------------------------------
    traces = []

    def add(units, src="sweep", tag=""):
        _, _, ev = sweep(dex, cm, units, src)
        if ev is None:
            return
        ev[0]["tag"] = tag
        traces.append(ev)

    # (a) generated valid streams: must come back exactly (checked by "done" + per-step CanEmit; exactness below)
    n_valid = 300 if quick else 6000
    for i in range(n_valid):
        ins = gen_valid(rnd, rnd.randrange(1, 25))
        units = [u for x in ins for u in x]
        items, status, ev = sweep(dex, cm, units)
        want = []
        at = 0
        for x in ins:
            want.append((at, len(x)))
            at += len(x)
        if status != "done" or items != want:
            chk.violation(sig("assembled", "not-recovered:" + _classify(units, items, status, {(tuple(want), "done")})), "Sweep(Assemble(l)) = l",
                          dict(code=units, want=want, got=[items, status]))
        ev[0]["tag"] = "valid"
        traces.append(ev)
        if i % 3 == 0:
            add(units, "dcode", "valid")
        # byte-level mutations and truncations of the valid stream
        for _ in range(3):
            m = list(units)
            j = rnd.randrange(len(m))
            m[j] ^= 1 << rnd.randrange(16)
            add(m, "sweep", "mutated")
        add(units[:rnd.randrange(0, len(units) + 1)], "sweep", "truncated")
    # (b) random buffers
    for _ in range(400 if quick else 10000):
        n = rnd.randrange(0, 40)
        add([rnd.choice(ALPHA) if rnd.random() < 0.3 else rnd.getrandbits(16) for _ in range(n)], "sweep", "random")
    # (c) methods of shipped DEX files through the real ClassManager, + mutations
    from ..corpus import sample_methods, shipped_dex
    files = shipped_dex(quick)
    n_methods = 0
    for f in files:
        d = dex.DEX(open(f, "rb").read())
        for m in sample_methods(d.get_encoded_methods(), quick, rnd, 400, 100000):
            code = m.get_code()
            if code is None:
                continue
            raw = bytes(code.get_bc().get_insn())
            units = list(struct.unpack("<%dH" % (len(raw) // 2), raw[:len(raw) // 2 * 2]))
            if len(units) > 3000 or (quick and n_methods >= 600):
                continue
            n_methods += 1
            _, _, ev = sweep(dex, d.get_class_manager(), units)
            ev[0]["tag"] = "shipped:" + os.path.basename(f)
            traces.append(ev)
            if n_methods % 4 == 0 and units:
                mu = list(units)
                mu[rnd.randrange(len(mu))] = rnd.getrandbits(16)
                _, _, ev = sweep(dex, d.get_class_manager(), mu)
                ev[0]["tag"] = "shipped-mutated"
                traces.append(ev)
    # (d) thorough: the raw5 space exhaustively in the C->S direction as well
    if not quick:
        for code in itertools.product(ALPHA, repeat=5):
            add(list(code), "sweep", "raw5")
    recs = [e for t in traces for e in t]
    starts = []
    k = 0
    for t in traces:
        starts.append(k)
        k += len(t)
    res = tlc.validate("LinearSweep_Trace", "LinearSweep_Trace.cfg", recs, shards=16, boundary=lambda r: r["ev"] == "begin", heap="3g", timeout=3000)
    chk.trace_result(res, "LinearSweep_Trace")
    chk.c2s = len(traces) - len(res["rejects"])      # count executions, not events
    chk.extra["events_validated"] = len(recs)
    chk.extra["shipped_methods"] = n_methods
    import bisect
    for gi, why in res["rejects"]:
        ti = bisect.bisect_right(starts, gi) - 1
        t = traces[ti]
        code = t[0]["code"]
        chk.violation(sig(t[0]["tag"].split(":")[0], str(why[0]) + ":" + _first_unit_class(code, t, gi - starts[ti])), "LinearSweep_Trace:" + str(why[0]),
                      dict(code=code if len(code) < 60 else code[:60] + ["..."], event=recs[gi], index_in_trace=gi - starts[ti], tag=t[0]["tag"]))
    chk.sample(dict(trace=traces[0][:4]))

    # binding self-test: shift one emitted offset
    t = [dict(e) for e in traces[0]]
    if len(t) > 3:
        t[2]["off"] += 2
        st = tlc.validate("LinearSweep_Trace", "LinearSweep_Trace.cfg", t, shards=1)
        if [i for i, _ in st["rejects"]] != [2]:
            raise tlc.TLCError("binding self-test failed: %s" % (st["rejects"],))
        chk.extra["self_test_rejected"] = True
    chk.assumptions += ["non-ODEX code only", "a first unit whose format has a '00' high byte but a non-zero high byte (e.g. 0x0400, 0x010e) may be emitted or reported invalid",
                        "pool contents are irrelevant to the sweep (stub ClassManager for generated arrays, real one for shipped files)"]


def _first_unit_class(code, trace, k):
    """class of the unit at the cursor where event k of the trace was rejected: keeps signatures stable across random inputs."""
    cur = sum(e["len"] for e in trace[1:k] if e["ev"] == "emit") // 2
    if cur >= len(code):
        return "end"
    ev = trace[k]
    over = ev["ev"] == "emit" and cur + ev["len"] // 2 > len(code)
    return _unit_class(code[cur]) + (":overrun" if over else "")


def _unit_class(x):
    lo, hi = x & 0xFF, x >> 8
    if x in (0x100, 0x200, 0x300):
        return "payload-%04x" % x
    if lo in UNUSED:
        return "unused"
    if lo == 0xFF and hi:
        return "op-ff-AA-nonzero"
    if lo == 0x00 and hi:
        return "nop-AA-nonzero"
    return "fmt-" + T[lo][1]


def _classify(code, items, status, outs):
    """where does the real result first leave every allowed behaviour -> class of the unit there."""
    best = 0
    for out, st in outs:
        k = 0
        while k < len(items) and k < len(out) and tuple(items[k]) == tuple(out[k]):
            k += 1
        best = max(best, k)
    at = items[best - 1][0] + items[best - 1][1] if best > 0 else 0
    if best < len(items):
        at = items[best][0]
    if at >= len(code):
        return "end"
    return _unit_class(code[at]) + (":overrun" if best < len(items) and items[best][0] + items[best][1] > len(code) else "")
