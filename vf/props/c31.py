"""C31 manifest queries: spec Manifest / ManifestMC / Manifest_Trace."""
import io
import random
import zipfile

from .. import tlc
from ..axmlgen import Axml

U = "http://schemas.android.com/apk/res/android"
RID = dict(name=0x01010003, versionCode=0x0101021b, versionName=0x0101021c, minSdkVersion=0x0101020c, targetSdkVersion=0x01010270, maxSdkVersion=0x01010271,
           enabled=0x0101000e, label=0x01010001)


def written(n):
    return ("." if n["lead"] else "") + ".".join(n["segs"])


def sattr(name, value):
    return dict(name=name, ns=U, resid=RID[name], type=3, value=value)


def iattr(name, value):
    return dict(name=name, ns=U, resid=RID[name], type=0x10, data=value)


def battr(name, value):
    return dict(name=name, ns=U, resid=RID[name], type=0x12, data=0xFFFFFFFF if value else 0)


def component(tag, c):
    attrs = [sattr("name", written(c["name"]))]
    if not c["enabled"]:
        attrs.append(battr("enabled", False))
    kids = []
    for bits in c.get("filters", []):          # X06: several intent-filters, bit 0 = MAIN, bit 1 = LAUNCHER
        f = dict(tag="intent-filter", attrs=[], children=[])
        if bits & 2:
            f["children"].append(dict(tag="category", attrs=[sattr("name", "android.intent.category.LAUNCHER")], children=[]))
        if bits & 1:
            f["children"].append(dict(tag="action", attrs=[sattr("name", "android.intent.action.MAIN")], children=[]))
        if not bits:
            f["children"].append(dict(tag="action", attrs=[sattr("name", "android.intent.action.VIEW")], children=[]))
        kids.append(f)
    if c["main"] or c["launcher"]:
        f = dict(tag="intent-filter", attrs=[], children=[])
        if c["main"]:
            f["children"].append(dict(tag="action", attrs=[sattr("name", "android.intent.action.MAIN")], children=[]))
        if c["launcher"]:
            f["children"].append(dict(tag="category", attrs=[sattr("name", "android.intent.category.LAUNCHER")], children=[]))
        kids.append(f)
    return dict(tag=tag, attrs=attrs, children=kids)


def manifest_doc(m):
    root = dict(tag="manifest", attrs=[iattr("versionCode", m["vcode"]), sattr("versionName", m["vname"]),
                                       dict(name="package", ns=None, type=3, value=".".join(m["pkg"]))], children=[])
    if m["minsdk"] or m["target"] or m.get("maxsdk"):
        a = []
        if m["minsdk"]:
            a.append(iattr("minSdkVersion", m["minsdk"]))
        if m["target"]:
            a.append(iattr("targetSdkVersion", m["target"]))
        if m.get("maxsdk"):
            a.append(iattr("maxSdkVersion", m["maxsdk"]))
        root["children"].append(dict(tag="uses-sdk", attrs=a, children=[]))
    for p in m["perms"]:
        a = [sattr("name", p["name"])]
        if p["maxsdk"]:
            a.append(iattr("maxSdkVersion", p["maxsdk"]))
        root["children"].append(dict(tag="uses-permission", attrs=a, children=[]))
    for f in m["features"]:
        root["children"].append(dict(tag="uses-feature", attrs=[sattr("name", f)], children=[]))
    app = dict(tag="application", attrs=[sattr("label", "app")], children=[])
    for lib in m["libraries"]:
        app["children"].append(dict(tag="uses-library", attrs=[sattr("name", lib)], children=[]))
    for tag, key in (("activity", "acts"), ("service", "svcs"), ("receiver", "rcvs"), ("provider", "prvs")):
        for c in m[key]:
            app["children"].append(component(tag, c))
    for c in m.get("aliases", []):
        e = component("activity-alias", c)
        e["attrs"].append(dict(name="targetActivity", ns=U, resid=0x01010202, type=3, value=written(m["acts"][0]["name"]) if m["acts"] else ".Missing"))
        app["children"].append(e)
    root["children"].append(app)
    return root


def make_apk(m, utf8=False):
    raw = Axml(manifest_doc(m), [("android", U)], utf8).build()
    bio = io.BytesIO()
    with zipfile.ZipFile(bio, "w", zipfile.ZIP_DEFLATED) as z:
        z.writestr("AndroidManifest.xml", raw)
        z.writestr("classes.dex", b"dex\n035\0" + b"\0" * 104)
    return bio.getvalue()


_ORDER = [0]


def observe(apkmod, raw):
    a = apkmod.APK(raw, raw=True)

    def num(x):
        try:
            return int(x)
        except (TypeError, ValueError):
            return 0
    qs = [("package", lambda: a.get_package() or ""), ("vcode", lambda: a.get_androidversion_code() or ""), ("vname", lambda: a.get_androidversion_name() or ""),
          ("permissions", lambda: sorted(a.get_permissions())), ("uses", lambda: [[n, (mx or 0)] for n, mx in a.uses_permissions]),
          ("activities", lambda: list(a.get_activities())), ("services", lambda: list(a.get_services())), ("receivers", lambda: list(a.get_receivers())),
          ("providers", lambda: list(a.get_providers())), ("main", lambda: a.get_main_activity() or ""), ("minsdk", lambda: num(a.get_min_sdk_version())),
          ("target", lambda: num(a.get_target_sdk_version())), ("maxsdk", lambda: num(a.get_max_sdk_version())),
          ("effective", lambda: a.get_effective_target_sdk_version()), ("features", lambda: list(a.get_features())), ("libraries", lambda: list(a.get_libraries()))]
    # every accessor is the first one asked on some of the archives (the answers must not depend on what was asked before)
    k = _ORDER[0] % len(qs)
    _ORDER[0] += 5
    out = {}
    for name, q in qs[k:] + qs[:k]:
        out[name] = q()
    return out


def to_py(v):
    if isinstance(v, dict):
        return {k: to_py(x) for k, x in v.items()}
    if isinstance(v, tuple):
        return [to_py(x) for x in v]
    return v


def features(m):
    f = []
    if any("." not in p["name"] for p in m["perms"]):
        f.append("dotless-permission")
    if any("." not in x for x in m["features"] + m["libraries"]):
        f.append("dotless-feature-or-library")
    if len(m["pkg"]) == 1:
        f.append("single-segment-package")
    return "+".join(f) or "plain"


def random_manifest(rnd):
    def name():
        k = rnd.random()
        seg = rnd.choice(["Main", "Other", "a", "Svc", "x1"])
        if k < 0.3:
            return dict(lead=True, segs=[seg] if rnd.random() < 0.7 else ["ui", seg])
        if k < 0.55:
            return dict(lead=False, segs=[seg])
        return dict(lead=False, segs=rnd.choice([["com", "x"], ["org", "other"], ["com", "x", "ui"]]) + [seg])

    def comp():
        mn = rnd.random() < 0.3
        return dict(name=name(), enabled=rnd.random() < 0.85, main=mn, launcher=mn if rnd.random() < 0.8 else not mn)
    def distinct(comps, pkg):
        """components with distinct completed names (a manifest declaring one component twice is not well formed)"""
        seen, out = set(), []
        for c in comps:
            full = written(c["name"]) if "." in written(c["name"]) and not c["name"]["lead"] else ".".join(pkg) + "." + written(c["name"]).lstrip(".")
            if full not in seen:
                seen.add(full)
                out.append(c)
        return out
    perms = [dict(name=rnd.choice(["android.permission.CAMERA", "android.permission.INTERNET", "NODOT", "com.x.P", "com.x.permission.C2D"]),
                  maxsdk=rnd.choice([0, 0, 18, 22])) for _ in range(rnd.randrange(0, 6))]
    pkg = rnd.choice([["com", "x"], ["single"], ["org", "example", "app"]])
    m = dict(pkg=pkg, vcode=rnd.choice([1, 42, 2147483647]), vname=rnd.choice(["1.0", "2.3-beta", "é"]),
                perms=perms, acts=[comp() for _ in range(rnd.randrange(0, 6))], svcs=[dict(comp(), main=False, launcher=False) for _ in range(rnd.randrange(0, 3))],
                rcvs=[dict(comp(), main=False, launcher=False) for _ in range(rnd.randrange(0, 3))], prvs=[dict(comp(), main=False, launcher=False) for _ in range(rnd.randrange(0, 2))],
                minsdk=rnd.choice([0, 1, 21]), target=rnd.choice([0, 4, 33]), maxsdk=rnd.choice([0, 0, 19, 34]),
                features=rnd.sample(["android.hardware.camera", "android.hardware.type.watch", "nodotfeature"], rnd.randrange(0, 3)),
                libraries=rnd.sample(["org.apache.http.legacy", "com.google.android.maps", "nodotlib"], rnd.randrange(0, 3)))
    for key in ("acts", "svcs", "rcvs", "prvs"):
        m[key] = distinct(m[key], pkg)
    # activity aliases, some of them launcher entries whose names sort before / after the activities'
    cand = []
    for _ in range(rnd.randrange(0, 3)):
        ml = rnd.random() < 0.6
        cand.append(dict(name=dict(lead=rnd.random() < 0.5, segs=[rnd.choice(["Alias", "AAA", "zzz"])]), enabled=rnd.random() < 0.9, main=ml, launcher=ml))
    m["aliases"] = [c for c in distinct(m["acts"] + cand, pkg) if c not in m["acts"]]
    return m


def run(chk):
    from androguard.core import apk
    quick = chk.tier == "quick"
    rnd = random.Random(chk.seed)
    cfg = "ManifestMC.cfg" if quick else "ManifestMC_thorough.cfg"
    stride = (40, chk.seed) if quick else (900, chk.seed)
    chk.bounds = dict(cfg=cfg, replay_stride=stride[0], model="<= %d activities over 5 name shapes x 4 flag combinations, <= 2 permissions (dot-less, duplicates, maxSdkVersion), <= 1 service, "
                      "present/absent SDK attributes, dot-less features/libraries, one- and two-segment package" % (1 if quick else 2))
    r, states = tlc.dump_states("ManifestMC", cfg, stride=stride, timeout=3000, heap="8g")
    chk.model(r, "ManifestMC/" + cfg)
    recs, ms = [], []
    for st in states:
        m = to_py(dict(st["m"]))
        m["aliases"] = []
        m["vcodetext"] = str(m["vcode"])
        m["maxsdk"] = (0, 0, 30)[len(recs) % 3]          # <uses-sdk android:maxSdkVersion>, rotated over the enumerated manifests
        raw = make_apk(m, utf8=len(recs) % 2 == 1)
        recs.append(dict(m=m, obs=observe(apk, raw)))
        ms.append(m)
    n_s2c = len(recs)
    for _ in range(150 if quick else 4000):
        m = random_manifest(rnd)
        m["vcodetext"] = str(m["vcode"])
        recs.append(dict(m=m, obs=observe(apk, make_apk(m, rnd.random() < 0.5))))
        ms.append(m)
    res = tlc.validate("Manifest_Trace", "Manifest_Trace.cfg", recs, shards=16, heap="3g", timeout=3000)
    chk.trace_result(res, "Manifest_Trace")
    chk.c2s -= res["accepted"]
    chk.s2c += n_s2c
    chk.c2s += len(recs) - n_s2c
    for gi, why in res["rejects"]:
        cl = "+".join(sorted(w.split(".", 1)[1] for w in why[0]))
        chk.violation("%s:%s" % (cl, features(ms[gi])), "Manifest_Trace:" + cl, dict(manifest=ms[gi], observed=recs[gi]["obs"]))
    chk.sample(dict(manifest=ms[0], observed=recs[0]["obs"]), cap=2)
    rejected = {i for i, _ in res["rejects"]}
    k = next((i for i in range(len(recs)) if i not in rejected and recs[i]["obs"]["activities"]), None)
    if k is not None:
        import copy
        bad = copy.deepcopy(recs[k])
        bad["obs"]["activities"][0] += "x"
        st = tlc.validate("Manifest_Trace", "Manifest_Trace.cfg", [bad], shards=1)
        if not st["rejects"]:
            raise tlc.TLCError("binding self-test failed")
        chk.extra["self_test_rejected"] = True
    chk.assumptions += ["MAIN action and LAUNCHER category of an activity are declared in the same intent-filter",
                        "with several launcher activities any of them is accepted as the main activity",
                        "requested permissions with maxSdkVersion are read from APK.uses_permissions"]
