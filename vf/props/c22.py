"""C22 deterministic decompilation: spec Intervals (iteration order as nondeterminism) / Determinism_Trace."""
import hashlib
import json
import os
import random
import subprocess
import sys

from .. import hashpolicy, tlc
from ..dexgen import Dex


def graph_method(i, n, edges):
    """control-flow graph on nodes 1..n (1 = entry, out-degree <= 2) -> method whose blocks are the nodes"""
    succ = {k: sorted(b for (a, b) in edges if a == k) for k in range(1, n + 1)}
    ins = []
    for k in range(1, n + 1):
        ins.append(("label", "L%d" % k))
        ins.append(("sput", 0, ("Lt/G;", "I", "f%d" % k)))              # a visible statement per node
        s = succ[k]
        if len(s) == 2:
            ins.append(("if-eqz", 0, "L%d" % s[1]))
            ins.append(("goto/16", "L%d" % s[0]))
        elif len(s) == 1:
            ins.append(("goto/16", "L%d" % s[0]))
        else:
            ins.append(("return-void",))
    return dict(name="g%d" % i, ret="V", params=["I"], flags=9, code=dict(regs=1, ins=1, outs=0, insns=ins))


def decompile_all(dx, mas, seed):
    from androguard.decompiler import decompile
    out = {}
    with hashpolicy.policy(seed):
        for ma in mas:
            try:
                z = decompile.DvMethod(ma)
                z.process()
                s = z.get_source()
            except Exception as e:
                s = "EXC " + type(e).__name__
            out[ma.full_name] = s
    return out


def digest(s):
    return hashlib.sha1(s.encode("utf-8", "surrogatepass")).hexdigest()[:12]


CHILD = r"""
import os, sys, json, hashlib, random
sys.path.insert(0, '/verif'); sys.path.insert(0, os.environ.get('VERIF_REPO', '/repo'))
from vf import core; core.quiet_androguard()
junk = [object() for _ in range(int(sys.argv[3]))]          # shift the allocation pattern
from androguard.core import dex
from androguard.core.analysis import analysis
from androguard.decompiler import decompile
d = dex.DEX(open(sys.argv[1], 'rb').read()); dx = analysis.Analysis(d)
names = json.load(open(sys.argv[2]))
mas = {m.full_name: m for m in dx.get_methods() if not m.is_external()}
order = list(names)
random.Random(int(sys.argv[4])).shuffle(order)
out = {}
for n in order:
    try:
        z = decompile.DvMethod(mas[n]); z.process(); s = z.get_source()
    except Exception as e:
        s = 'EXC ' + type(e).__name__
    out[n] = hashlib.sha1(s.encode('utf-8', 'surrogatepass')).hexdigest()[:12]
# class level (DvClass.get_source): header, fields, method order
ncls = int(sys.argv[5])
classes = sorted(d.get_classes(), key=lambda c: (-len(c.get_interfaces() or []), c.get_name()))[:ncls]
random.Random(int(sys.argv[4]) + 1).shuffle(classes)
for c in classes:
    try:
        z = decompile.DvClass(c, dx); z.process(); s = z.get_source()
    except Exception as e:
        s = 'EXC ' + type(e).__name__
    out['class:' + c.get_name()] = hashlib.sha1(s.encode('utf-8', 'surrogatepass')).hexdigest()[:12]
json.dump(out, sys.stdout)
"""


def run(chk):
    from androguard.core import dex
    from androguard.core.analysis import analysis
    quick = chk.tier == "quick"
    rnd = random.Random(chk.seed)
    chk.bounds = dict(model="all rooted control-flow graphs on 4 nodes with out-degree <= 2 (thorough: 5 nodes, sampled replay)",
                      policies="%d identity-hash policies per method" % (8 if quick else 24), processes="fresh processes with different PYTHONHASHSEED / allocation offset / method order")
    # ---- model: the repaired iteration rule is confluent; the set-iteration rule is not (recorded, with the counterexample graphs)
    r = tlc.check_model("Intervals", "Intervals_num4.cfg", timeout=3000, heap="6g")
    chk.model(r, "Intervals N=4, compute_end iterates by rpo number: Confluent")
    rs = tlc.run("Intervals", "Intervals_set4.cfg", timeout=3000, heap="6g")
    chk.extra["set_iteration_model_is_confluent"] = rs.ok
    r2, states = tlc.dump_states("Intervals", "Intervals_dump4.cfg", timeout=3000, heap="6g")
    chk.model(r2, "Intervals N=4 (enumeration with the outcome set of every graph)")
    sensitive = [st for st in states if len(st["outcomes"]) > 1]
    others = [st for st in states if len(st["outcomes"]) == 1]
    chk.extra["order_sensitive_graphs_in_model"] = len(sensitive)
    pick = sensitive + rnd.sample(others, min(len(others), 300 if quick else 3000))
    if not quick:
        r3, st5 = tlc.dump_states("Intervals", "Intervals_dump5.cfg", timeout=20000, heap="12g", stride=(40, chk.seed))
        chk.model(r3, "Intervals N=5 (enumeration, sampled replay)")
        pick += [(s) for s in st5 if len(s["outcomes"]) > 1][:4000]
    methods = []
    for i, st in enumerate(pick):
        edges = sorted(tuple(e) for e in st["E"])
        n = max(max(e) for e in edges) if edges else 1
        methods.append(graph_method(i, max(n, 4 if len(st["E"]) else 1), edges))
    fields = sorted({("f%d" % k, "I", 9) for k in range(1, 7)})
    recs = []
    seeds = list(range(1, 9 if quick else 25))
    for b in range(0, len(methods), 400):
        cls = dict(name="Lt/G;", super="Ljava/lang/Object;", flags=1, sfields=fields, ifields=[], dmethods=methods[b:b + 400], vmethods=[])
        d = dex.DEX(Dex([cls]).build())
        dx = analysis.Analysis(d)
        mas = [m for m in dx.get_methods() if not m.is_external()]
        runs = [decompile_all(dx, mas, s) for s in seeds]
        for ma in mas:
            texts = [run_[ma.full_name] for run_ in runs]
            i = int(ma.get_method().get_name()[1:])
            recs.append(dict(id="model:" + ma.get_method().get_name(), runs=[digest(t) for t in texts], src="model-sensitive" if i < len(sensitive) else "model",
                             edges=[list(e) for e in sorted(tuple(e) for e in pick[i]["E"])], texts=sorted(set(texts))[:2] if len(set(texts)) > 1 else []))
    n_s2c = len(recs)
    chk.sample(dict(order_sensitive_graph=[list(e) for e in sorted(tuple(e) for e in sensitive[0]["E"])] if sensitive else None,
                    spec_outcomes=sorted(map(sorted, sensitive[0]["outcomes"])) if sensitive else None), cap=2)
    # ---- C->S: shipped methods under identity-hash policies --------------------------------------------------------
    path = "/repo/tests/data/APK/classes.dex"
    d = dex.DEX(open(path, "rb").read())
    dx = analysis.Analysis(d)
    mas = [m for m in dx.get_methods() if not m.is_external() and m.get_method().get_code() is not None]
    if quick:
        mas = rnd.sample(mas, 700)
    runs = [decompile_all(dx, mas, s) for s in seeds[:6 if quick else 16]]
    for ma in mas:
        texts = [run_[ma.full_name] for run_ in runs]
        recs.append(dict(id="policy:" + ma.full_name, runs=[digest(t) for t in texts], src="shipped-policy", edges=[], texts=sorted(set(texts))[:2] if len(set(texts)) > 1 else []))
    # ---- fresh processes: different PYTHONHASHSEED, allocation offset and method order -----------------------------
    names = [m.full_name for m in (rnd.sample(mas, 250) if quick else mas)]
    work = tlc.scratch_dir("c22_")
    try:
        nf = os.path.join(work, "names.json")
        json.dump(names, open(nf, "w"))
        outs = []
        procs = []
        for k in range(3 if quick else 6):
            env = dict(os.environ, PYTHONHASHSEED=str(1 + 17 * k))
            procs.append(subprocess.Popen([sys.executable, "-c", CHILD, path, nf, str(1000 * k + 13), str(k), str(30 if quick else 400)], stdout=subprocess.PIPE, env=env, text=True))
        for p in procs:
            o, _ = p.communicate(timeout=3000)
            outs.append(json.loads(o))
    finally:
        import shutil
        shutil.rmtree(work, ignore_errors=True)
    for nme in names + sorted(k for k in outs[0] if k.startswith("class:")):
        recs.append(dict(id="process:" + nme, runs=[o[nme] for o in outs], src="shipped-process-class" if nme.startswith("class:") else "shipped-process", edges=[], texts=[]))
    res = tlc.validate("Determinism_Trace", "Determinism_Trace.cfg", [dict(id=r_["id"], runs=r_["runs"]) for r_ in recs], shards=8, heap="2g")
    chk.trace_result(res, "Determinism_Trace")
    chk.c2s -= res["accepted"]
    chk.s2c += n_s2c
    chk.c2s += len(recs) - n_s2c
    for gi, why in res["rejects"]:
        rec = recs[gi]
        chk.violation("nondeterministic:" + rec["src"], "Determinism_Trace", dict(id=rec["id"], digests=rec["runs"], graph=rec["edges"], two_of_the_outputs=rec["texts"]))
    bad = dict(id="selftest", runs=["a", "a", "b"])
    st = tlc.validate("Determinism_Trace", "Determinism_Trace.cfg", [bad], shards=1)
    if not st["rejects"]:
        raise tlc.TLCError("binding self-test failed")
    chk.extra["self_test_rejected"] = True
    chk.assumptions += ["memory-layout dependence is exercised deterministically by giving identity-hashed decompiler objects (nodes, intervals, IR variables) a seed-dependent hash (vf/hashpolicy.py), "
                        "and additionally by real fresh processes", "the TLA+ model covers Interval.compute_end and the second-level latch; the other iteration sites are covered by the differential runs only"]
