"""C36 concurrent sessions: spec SessionDB / SessionDB_Trace; every interleaving replayed with real OS processes."""
import multiprocessing as mp
import os
import random
import shutil

from .. import tlc


def child(conn, db_url, p):
    """runs in a forked process: create one Session with the 'session' table's count / insert gated by the parent"""
    import dataset.table as dt
    orig_len, orig_insert = dt.Table.__len__, dt.Table.insert

    def gated_len(self):
        if self.name != "session":
            return orig_len(self)
        conn.send(("at", "count"))
        conn.recv()
        n = orig_len(self)
        conn.send(("did", "count", n, True))
        return n

    def gated_insert(self, row, *a, **k):
        if self.name != "session":
            return orig_insert(self, row, *a, **k)
        conn.send(("at", "insert"))
        conn.recv()
        try:
            r = orig_insert(self, row, *a, **k)
        except Exception as e:
            conn.send(("did", "insert", row.get("id", -1), False, type(e).__name__))
            raise
        conn.send(("did", "insert", row.get("id", -1), True, ""))
        return r
    dt.Table.__len__, dt.Table.insert = gated_len, gated_insert
    try:
        from androguard.session import Session
        s = Session(db_url=db_url)
        conn.send(("end", True, int(s.session_id), ""))
    except BaseException as e:
        conn.send(("end", False, -1, type(e).__name__))
    finally:
        conn.close()
        os._exit(0)


def replay(order, n, workdir, k):
    """order: sequence of process numbers (1..n); returns the event list"""
    ctx = mp.get_context("fork")
    db = os.path.join(workdir, "s%d.db" % k)
    for ext in ("", "-journal", "-wal", "-shm"):
        if os.path.exists(db + ext):
            os.remove(db + ext)
    url = "sqlite:///" + db
    conns, procs, ended, pending = {}, {}, {}, {}
    for p in range(1, n + 1):
        a, b = ctx.Pipe()
        pr = ctx.Process(target=child, args=(b, url, p))
        pr.start()
        b.close()
        conns[p], procs[p] = a, pr
    events = [dict(act="begin", n=n, p=0, val=0, id=0, ok=True, sid=0)]

    def pump(p):
        """let process p perform its next gated step (or learn that it ended)"""
        if p in ended:
            return
        if p not in pending:
            msg = conns[p].recv() if conns[p].poll(30) else ("end", False, -1, "timeout")
            if msg[0] == "end":
                ended[p] = msg
                events.append(dict(act="end", p=p, ok=bool(msg[1]), sid=msg[2], val=0, id=0, n=n, err=msg[3]))
                return
            pending[p] = msg
        pending.pop(p)
        conns[p].send("go")
        msg = conns[p].recv() if conns[p].poll(30) else ("did", "count", -1, False)
        if msg[1] == "count":
            events.append(dict(act="count", p=p, val=msg[2], id=0, ok=True, sid=0, n=n))
        else:
            events.append(dict(act="insert", p=p, id=msg[2], ok=bool(msg[3]), val=0, sid=0, n=n, err=msg[4]))
        # after an insert the constructor may finish: pick up the end message without blocking the schedule
        if msg[1] == "insert" and conns[p].poll(2):
            nxt = conns[p].recv()
            if nxt[0] == "end":
                ended[p] = nxt
                events.append(dict(act="end", p=p, ok=bool(nxt[1]), sid=nxt[2], val=0, id=0, n=n, err=nxt[3]))
            else:
                pending[p] = nxt
    for p in order:
        pump(p)
    # whatever is left runs to completion in process order
    guard = 0
    while len(ended) < n and guard < 50:
        for p in range(1, n + 1):
            pump(p)
        guard += 1
    for pr in procs.values():
        pr.join(5)
        if pr.is_alive():
            pr.kill()
    events.append(dict(act="finish", p=0, val=0, id=0, ok=True, sid=0, n=n))
    return events


def run(chk):
    import androguard.session          # imported before forking so that children start instantly
    quick = chk.tier == "quick"
    rnd = random.Random(chk.seed)
    chk.bounds = dict(model="all interleavings of count / insert of 2 and 3 sessions", replay="every complete schedule of 2 sessions; %s of 3 sessions" % ("80 sampled" if quick else "all"))
    scheds = {}
    for n in (2, 3):
        cfg = "SessionDB_%d_TRUE.cfg" % n
        r, states = tlc.dump_states("SessionDB", cfg, only={"pc", "sched"}, timeout=600)
        chk.model(r, "SessionDB n=%d, retrying insert: AllCreated, DistinctIds, EveryoneFinishes" % n)
        done = [tuple(e[0] for e in st["sched"]) for st in states if all(v == "done" for v in _vals(st["pc"]))]
        scheds[n] = sorted(set(done))
    ro = tlc.run("SessionDB", "SessionDB_2_FALSE.cfg", timeout=600)
    chk.extra["count_then_insert_without_retry_model_holds"] = ro.ok
    chk.extra["count_then_insert_counterexample_found"] = any("AllCreated is violated" in e for e in ro.errors)
    todo = [(2, s) for s in scheds[2]]
    three = scheds[3]
    if quick and len(three) > 80:
        three = rnd.sample(three, 80)
    todo += [(3, s) for s in three]
    work = tlc.scratch_dir("c36_")
    traces = []
    try:
        for k, (n, order) in enumerate(todo):
            traces.append((n, order, replay(order, n, work, k)))
    finally:
        shutil.rmtree(work, ignore_errors=True)
    recs = [e for (_, _, ev) in traces for e in ev]
    for e in recs:
        e.setdefault("err", "")
    starts = []
    k = 0
    for (_, _, ev) in traces:
        starts.append(k)
        k += len(ev)
    res = tlc.validate("SessionDB_Trace", "SessionDB_Trace.cfg", recs, shards=8, boundary=lambda r: r["act"] == "begin")
    chk.trace_result(res, "SessionDB_Trace")
    chk.c2s = 0
    chk.s2c = len(traces)
    import bisect
    for gi, why in res["rejects"]:
        ti = bisect.bisect_right(starts, gi) - 1
        n, order, ev = traces[ti]
        cl = "+".join(sorted(why[0]))
        # two reads of the same count before either insert: the race the model's counterexample shows
        counts = [e["val"] for e in ev if e["act"] == "count"]
        racy = len(counts) != len(set(counts))
        chk.violation("%s:%s" % (cl, "two-sessions-read-the-same-count" if racy else "other"), "SessionDB_Trace:" + cl,
                      dict(processes=n, schedule=list(order), events=[{k2: v for k2, v in e.items() if k2 in ("act", "p", "val", "id", "ok", "sid", "err")} for e in ev]))
    chk.sample(dict(schedule=list(traces[0][1]), events=[(e["act"], e["p"], e["val"], e["id"], e["ok"]) for e in traces[0][2]]))
    bad = [dict(e) for e in traces[0][2]]
    for e in bad:
        if e["act"] == "end":
            e["sid"] = 0
    st = tlc.validate("SessionDB_Trace", "SessionDB_Trace.cfg", bad, shards=1)
    if len(traces[0][2]) > 4 and not st["rejects"]:
        raise tlc.TLCError("binding self-test failed")
    chk.extra["self_test_rejected"] = True
    chk.assumptions += ["the schedule is imposed by gating dataset.Table.__len__ and Table.insert of table 'session' in every (forked) process; one SQLite file per schedule",
                        "creation of the table itself (first use of an empty database) is outside the modelled steps"]


def _vals(f):
    return f.values() if isinstance(f, dict) else f
