"""C30 locale qualifiers: spec Locale / Locale_Trace."""
import io
import random
import struct

from .. import tlc


def config_from_locale(axml, b):
    """ARSCResTableConfig parsed from a 16-byte buffer whose locale field holds the 4 bytes b"""
    buf = struct.pack("<II", 16, 0) + bytes(b) + struct.pack("<I", 0)
    return axml.ARSCResTableConfig(io.BufferedReader(io.BytesIO(buf)))


def observe(axml, lang, region, packed):
    c = config_from_locale(axml, packed)
    try:
        text = c.get_language_and_region()
    except Exception as e:
        text = "<exception %s>" % type(e).__name__
    try:
        c2 = axml.ARSCResTableConfig(None, locale=text)
        re = list(struct.pack("<I", c2.locale & 0xFFFFFFFF))
    except Exception as e:
        re = [-1, -1, -1, -1]
    return dict(lang=list(lang), region=list(region), reported=[ord(ch) for ch in text], reencoded=re)


def shape(rec):
    return "lang%d-region%d" % (len(rec["lang"]), len(rec["region"]))


def run(chk):
    from androguard.core import axml
    quick = chk.tier == "quick"
    rnd = random.Random(chk.seed)
    chk.bounds = dict(model="every two-letter and three-letter language, every two-character (A-Z0-9) and three-digit region, each alone",
                      pairs="language x region pairs: %s" % ("6 000 sampled" if quick else "all 676 two-letter languages x all regions + 200 000 sampled three-letter pairs"))
    r, states = tlc.dump_states("Locale", "Locale.cfg", timeout=600)
    chk.model(r, "Locale: Unpack(Pack(code)) = code for every code")
    langs = [(tuple(st["code"]), tuple(st["packed"])) for st in states if st["kind"] == "lang"]
    regions = [(tuple(st["code"]), tuple(st["packed"])) for st in states if st["kind"] == "region"]
    recs = []
    n = 0
    for code, packed in langs:
        rec = observe(axml, code, (), list(packed) + [0, 0])
        recs.append(rec)
        n += 1
    for code, packed in regions:
        # a region alone is not a locale; combine with language "en"
        rec = observe(axml, (101, 110), code, [101, 110] + list(packed))
        recs.append(rec)
        n += 1
    chk.replayed(n)
    npairs = 6000 if quick else 250000
    for _ in range(npairs):
        lc, lp = rnd.choice(langs)
        rc, rp = rnd.choice(regions)
        if not lc:
            continue
        recs.append(observe(axml, lc, rc, list(lp) + list(rp)))
    res = tlc.validate("Locale_Trace", "Locale_Trace.cfg", recs, shards=16, heap="2g")
    chk.trace_result(res, "Locale_Trace")
    for gi, why in res["rejects"]:
        rec = recs[gi]
        chk.violation("%s:%s" % ("+".join(sorted(w.split(".")[1] for w in why[0])), shape(rec)), "Locale_Trace",
                      dict(language="".join(map(chr, rec["lang"])), region="".join(map(chr, rec["region"])), reported="".join(map(chr, rec["reported"])), reencoded=rec["reencoded"]))
    chk.sample(dict(language="fil", spec_packed=[x for c, p in langs if c == (102, 105, 108) for x in p], record=next(r_ for r_ in recs if r_["lang"] == [102, 105, 108])))
    rejected = {i for i, _ in res["rejects"]}
    k = next((i for i in range(len(recs)) if i not in rejected and recs[i]["lang"]), None)
    if k is not None:
        bad = dict(recs[k], reported=recs[k]["reported"] + [120])
        st = tlc.validate("Locale_Trace", "Locale_Trace.cfg", [bad], shards=1)
        if not st["rejects"]:
            raise tlc.TLCError("binding self-test failed")
        chk.extra["self_test_rejected"] = True
    chk.assumptions += ["three-character regions are the three-digit UN M.49 codes (base '0'), as in ResTable_config"]
