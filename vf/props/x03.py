"""X03 (extension, not a listed property): Analysis.get_call_graph: spec CallGraph / CallGraph_Trace."""
import random
import re

from .. import tlc
from ..xrefobs import analyse, build_dexes

NAMES = {0: ("La/A;", "m0", "()V"), 1: ("La/A;", "m1", "()V"), 2: ("Lb/B;", "m2", "()V"), 3: ("Le/E;", "x", "()V")}
GROUPS = {"La/A;": {0, 1}, "Lb/B;": {2}, "Le/E;": {3}}
NEVER = "(?!)"


def program(calls):
    code = {i: [] for i in (0, 1, 2)}
    for (a, b) in sorted(calls):
        cls, name, desc = NAMES[b]
        code[a] += [dict(op="inv", cls=cls, name=name + desc)] * (2 if (a + b) % 2 else 1)       # a method called twice is still one edge
    return dict(classes=[dict(name="La/A;", fields=[], methods=[dict(name="m0()V", code=code[0]), dict(name="m1()V", code=code[1])]),
                         dict(name="Lb/B;", fields=[], methods=[dict(name="m2()V", code=code[2])])])


def filters(sel, k):
    """regular expressions selecting exactly the methods `sel` (by class when the set is a union of classes and k is even)"""
    by_class = [c for c, g in GROUPS.items() if g <= sel]
    covered = set().union(*[GROUPS[c] for c in by_class]) if by_class else None
    if k % 2 == 0 and covered == sel:
        return dict(classname="^(%s)$" % "|".join(re.escape(c) for c in by_class))
    if not sel:
        return dict(methodname=NEVER)
    return dict(methodname="^(%s)$" % "|".join(NAMES[i][1] for i in sorted(sel)))


def key(m):
    return (str(m.get_class_name()), str(m.get_name()), str(m.get_descriptor()).replace(" ", ""))


def observe(dx, index, kw, ni):
    g = dx.get_call_graph(no_isolated=ni, **kw)
    nodes = [index.get(key(n), -1) for n in g.nodes]
    edges = [[index.get(key(a), -1), index.get(key(b), -1)] for a, b in g.edges]
    ext = [index.get(key(n), -1) for n, d in g.nodes(data=True) if d.get("external")]
    return nodes, edges, ext


def run(chk):
    from androguard.core import dex
    quick = chk.tier == "quick"
    rnd = random.Random(chk.seed)
    r, states = tlc.dump_states("CallGraph", "CallGraph.cfg", timeout=1200, stride=(8, chk.seed) if quick else None)
    chk.model(r, "CallGraph")
    by_calls = {}
    for st in states:
        by_calls.setdefault(tuple(sorted(tuple(p) for p in st["calls"])), []).append((frozenset(st["selected"]), bool(st["noIso"])))
    del states
    index = {NAMES[i]: i for i in NAMES}
    recs = []
    k = 0
    for calls, queries in by_calls.items():
        dx = analyse(dex, build_dexes(program(calls), [[0, 1]]))
        existing = {0, 1, 2} | ({3} if any(b == 3 for _, b in calls) else set())
        for sel, ni in queries:
            k += 1
            nodes, edges, ext = observe(dx, index, filters(set(sel), k), ni)
            recs.append(dict(calls=[list(p) for p in calls], sel=sorted(sel & existing), ni=ni, nodes=nodes, edges=edges, external=[3], extnodes=ext, src="model"))
    n_s2c = len(recs)
    chk.replayed(n_s2c)
    # ---- shipped files: one query per sampled class (classname filter), and the whole program of the small files
    from ..corpus import shipped_dex
    n_ship = 0
    for f in shipped_dex(quick):
        dx = analyse(dex, [open(f, "rb").read()])
        mas = list(dx.get_methods())
        index = {}
        for ma in mas:
            index.setdefault(key(ma.get_method()), len(index))
        external = sorted(index[key(ma.get_method())] for ma in mas if ma.is_external())
        by_class = {}
        for ma in mas:
            by_class.setdefault(str(ma.get_method().get_class_name()), []).append(ma)

        def calls_of(group):
            return sorted({(index[key(ma.get_method())], index[key(callee.get_method())]) for ma in group for _, callee, _ in ma.get_xref_to()})
        names = sorted(by_class)
        for cn in rnd.sample(names, min(len(names), 25 if quick else 400)):
            ni = rnd.random() < 0.5
            group = [ma for c2 in names if re.match(re.escape(cn), c2) for ma in by_class[c2]]
            nodes, edges, ext = observe(dx, index, dict(classname=re.escape(cn)), ni)
            recs.append(dict(calls=[list(p) for p in calls_of(group)], sel=sorted({index[key(ma.get_method())] for ma in group}), ni=ni, nodes=nodes, edges=edges,
                             external=external, extnodes=ext, src="shipped:" + f.rsplit("/", 1)[-1] + ":" + cn))
            n_ship += 1
        if len(mas) <= 3000:
            nodes, edges, ext = observe(dx, index, {}, False)
            recs.append(dict(calls=[list(p) for p in calls_of(mas)], sel=sorted(set(index.values())), ni=False, nodes=nodes, edges=edges, external=external, extnodes=ext,
                             src="shipped:" + f.rsplit("/", 1)[-1] + ":whole"))
            n_ship += 1
    chk.extra["shipped_queries"] = n_ship
    res = tlc.validate("CallGraph_Trace", "CallGraph_Trace.cfg", [{a: b for a, b in r_.items() if a != "src"} for r_ in recs], shards=16, heap="3g", timeout=3000)
    chk.trace_result(res, "CallGraph_Trace")
    chk.c2s -= res["accepted"]
    chk.c2s += len(recs) - n_s2c
    for gi, why in res["rejects"]:
        rec = recs[gi]
        cl = "+".join(sorted(w.split(".", 1)[1] for w in why[0]))
        small = len(rec["calls"]) <= 12
        chk.violation("%s:%s" % (rec["src"].split(":")[0], cl), "CallGraph_Trace:" + cl,
                      dict(src=rec["src"], calls=rec["calls"] if small else len(rec["calls"]), selected=rec["sel"] if small else len(rec["sel"]), no_isolated=rec["ni"],
                           nodes=rec["nodes"] if small else len(rec["nodes"]), edges=rec["edges"] if small else len(rec["edges"])))
    # binding self-test: an edge removed from an accepted record must be rejected
    rejected = {i for i, _ in res["rejects"]}
    j = next((i for i in range(len(recs)) if i not in rejected and recs[i]["edges"]), None)
    if j is not None:
        bad = {a: b for a, b in recs[j].items() if a != "src"}
        bad["edges"] = bad["edges"][1:]
        st = tlc.validate("CallGraph_Trace", "CallGraph_Trace.cfg", [bad], shards=1)
        if not st["rejects"]:
            raise tlc.TLCError("binding self-test failed")
        chk.extra["self_test_rejected"] = True
    chk.bounds = dict(model="three methods with code in two classes and one external method: every call relation (4096) x every selection x no_isolated; quick replays every 8th query",
                      shipped="one class-filter query per sampled class and the whole-program graph of the shipped DEX files")
    chk.sample({a: b for a, b in recs[n_s2c // 2].items()})
    chk.assumptions += ["the call relation is what get_xref_to reports (C13 decides that); the selection is computed by the harness from the names, not by find_methods"]
