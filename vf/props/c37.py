"""C37 decompile output stays inside the output directory: spec PathSandbox / PathSandbox_Trace."""
import contextlib
import io
import os
import random
import shutil

from .. import tlc
from ..dexgen import Dex

LONG = "L" * 120


def conc(seg):
    return LONG if seg == "long" else seg


def make_dex(cases):
    """cases: list of (class segments, method-name pieces)"""
    classes = []
    seen = set()
    for cls, meth in cases:
        name = "L" + "/".join(conc(s) for s in cls) + ";"
        if cls and cls[0] == "<raw>":            # a class_def whose type is not of the form L...; (the reader accepts it)
            name = "/".join(conc(s) for s in cls[1:])
        if name in seen:
            continue
        seen.add(name)
        mname = "/".join(conc(s) for s in meth)
        classes.append(dict(name=name, super="Ljava/lang/Object;", flags=1, sfields=[], ifields=[],
                            dmethods=[dict(name=mname, ret="V", params=[], flags=9, code=dict(regs=1, ins=0, outs=0, insns=[("return-void",)]))], vmethods=[]))
    return Dex(classes).build()


class StubSession:
    def __init__(self, objs):
        self.objs = objs

    def get_objects_dex(self):
        for o in self.objs:
            yield o


def export(raw, top):
    """run the real export in a sandbox below `top`; -> (created paths as segment lists relative to the sandbox root, error)"""
    from androguard.cli import main as cli_main
    from androguard.core import dex
    from androguard.core.analysis.analysis import Analysis
    from androguard.decompiler import decompiler
    root = os.path.join(top, "r1", "r2", "r3", "r4", "r5", "r6", "sbx")
    if os.path.exists(top):
        shutil.rmtree(top)
    os.makedirs(root)
    before = set()
    for dp, dn, fn in os.walk(top):
        for x in dn + fn:
            before.add(os.path.join(dp, x))
    out = os.path.join(root, "out")
    d = dex.DEX(raw)
    dx = Analysis(d)
    d.set_decompiler(decompiler.DecompilerDAD(d, dx))
    err = None
    cwd = os.getcwd()
    os.chdir(root)
    try:
        with contextlib.redirect_stdout(io.StringIO()):
            cli_main.export_apps_to_format("sample.dex", StubSession([("digest", d, dx)]), out)
    except Exception as e:
        err = repr(e)[:200]
    finally:
        os.chdir(cwd)
    created = []
    for dp, dn, fn in os.walk(top):
        for x in dn + fn:
            p = os.path.join(dp, x)
            if p not in before:
                rel = os.path.relpath(p, root)
                created.append(rel.split(os.sep))
    return created, err


def danger(cls, meth):
    f = []
    if any(s in ("..",) for s in cls):
        f.append("dotdot-in-class")
    if any(s in ("..",) for s in meth) or len(meth) > 1:
        f.append("separator-in-method-name")
    return "+".join(f) or "plain"


def run(chk):
    quick = chk.tier == "quick"
    rnd = random.Random(chk.seed)
    chk.bounds = dict(model="class names of <= 4 segments over {a, .., ., '', long} x method names of <= 2 '/'-separated pieces", replay="sampled per batch of 12 classes")
    r = tlc.check_model("PathSandbox", "PathSandbox_guard.cfg", timeout=600)
    chk.model(r, "PathSandbox Mode=guard: StaysInside")
    rs = tlc.run("PathSandbox", "PathSandbox_split.cfg", timeout=600)
    chk.extra["unguarded_naming_model_stays_inside"] = rs.ok
    r2, states = tlc.dump_states("PathSandbox", "PathSandbox_guard.cfg", timeout=600, stride=(60 if quick else 8, chk.seed))
    cases = [([s for s in st["cls"]], [s for s in st["meth"]]) for st in states]
    # always include the sharpest cases
    cases += [(["..", "..", "evil"], ["m"]), (["a"], ["..", ".."]), (["..", "..", "..", "x"], ["..", "y"]), ([".", "", "a"], ["m"]), (["a", ".."], ["m"])]
    cases = [c for c in cases if "/".join(c[0]) != ""]
    work = tlc.scratch_dir("c37_")
    recs, meta = [], []
    try:
        for b in range(0, len(cases), 12):
            batch = cases[b:b + 12]
            raw = make_dex(batch)
            created, err = export(raw, os.path.join(work, "t"))
            recs.append(dict(created=created, err=err or ""))
            meta.append(batch)
        # method names with separators whose first piece, prefixed by the class' simple name, is a directory that another class created
        # (<out>/p/X/X m/ from class Lp/X/X m; -- then "X m/../../.." in a file name of class Lp/X; resolves)
        for ups in range(1, 6):
            batch = [(["p", "X", "X m"], ["n"]), (["p", "X"], ["m"] + [".."] * ups + ["escaped%d" % ups]), (["q"], ["m", "..", "x"])]
            raw = make_dex(batch)
            created, err = export(raw, os.path.join(work, "t"))
            recs.append(dict(created=created, err=err or ""))
            meta.append(batch)
        # elements that only look like '..' / '.' (white space around them): harmless names as long as nobody normalises them
        for ws in (" ", "\t", "\n", "  "):
            batch = [(["r", ".." + ws, ".." + ws, ".." + ws, "esc"], ["m"]), ([".." + ws, "x"], ["m"]), (["s", ws + ".."], ["m"]), (["." + ws, "t"], ["m"])]
            raw = make_dex(batch)
            created, err = export(raw, os.path.join(work, "t"))
            recs.append(dict(created=created, err=err or ""))
            meta.append(batch)
        # siblings of the output directory whose names begin with the output directory's own name ("out" -> "outside", "out2", "out.bak"):
        # a containment test by string prefix would accept them
        batch = [(["..", "outside", "S"], ["m"]), (["a", "b", "..", "..", "..", "outer", "D"], ["m"]), (["..", "out2"], ["m"]), (["..", "out.bak", "x"], ["m"]),
                 (["..", "out", "inside"], ["m"]), (["..", "..", "sbx", "out", "again"], ["m"]), (["c"], ["..", "..", "outside", "m"])]
        raw = make_dex(batch)
        created, err = export(raw, os.path.join(work, "t"))
        recs.append(dict(created=created, err=err or ""))
        meta.append(batch)
        # class_def types that are not wrapped in L...;
        batch = [(["<raw>", "..", "..", "escaped", "Raw"], ["m"]), (["<raw>", "pkg", "..", "..", "..", "climb", "Raw2"], ["m"]), (["<raw>", "", "abs", "Raw3"], ["m"]),
                 (["<raw>", "Raw4"], ["m"]), (["<raw>", "..", "Raw5;"], ["m"]), (["<raw>", "L..", "..", "Raw6"], ["m"]), (["<raw>", "[L..", "..", "Raw7;"], ["m"])]
        raw = make_dex(batch)
        created, err = export(raw, os.path.join(work, "t"))
        recs.append(dict(created=created, err=err or ""))
        meta.append(batch)
        # random names with other path tricks
        for _ in range(10 if quick else 200):
            batch = []
            for _ in range(8):
                k = rnd.randrange(1, 5)
                cls = [rnd.choice(["a", "b", "..", ".", "", "...", " ", "~", "c d", "é", LONG, ".. ", "..\t", " ..", ". ", "..\n", "..", "out", "outside", "sbx"]) for _ in range(k)]
                meth = [rnd.choice(["m", "..", "<init>", "x y", "."]) for _ in range(rnd.randrange(1, 3))]
                if "/".join(cls):
                    batch.append((cls, meth))
            raw = make_dex(batch)
            created, err = export(raw, os.path.join(work, "t"))
            recs.append(dict(created=created, err=err or ""))
            meta.append(batch)
    finally:
        shutil.rmtree(work, ignore_errors=True)
    res = tlc.validate("PathSandbox_Trace", "PathSandbox_Trace.cfg", [dict(created=r_["created"]) for r_ in recs], shards=8)
    chk.trace_result(res, "PathSandbox_Trace")
    chk.c2s -= res["accepted"]
    chk.s2c += sum(len(m) for m in meta)
    chk.extra["export_runs"] = len(recs)
    chk.extra["export_runs_ending_in_an_exception"] = sum(1 for r_ in recs if r_["err"])
    for gi, why in res["rejects"]:
        rec = recs[gi]
        outside = [p for p in rec["created"] if p[0] != "out"]
        feats = sorted({danger(c, m) for c, m in meta[gi] if danger(c, m) != "plain"})
        chk.violation("escape:" + "+".join(feats), "PathSandbox_Trace", dict(outside=outside[:6], classes=["/".join(c) + "  method " + "/".join(m) for c, m in meta[gi]][:12]))
    chk.sample(dict(classes=["/".join(c) for c, m in meta[0]][:5], created=recs[0]["created"][:8]))
    bad = dict(created=[["out", "a"], ["evil.java"]])
    st = tlc.validate("PathSandbox_Trace", "PathSandbox_Trace.cfg", [bad], shards=1)
    if not st["rejects"]:
        raise tlc.TLCError("binding self-test failed")
    chk.extra["self_test_rejected"] = True
    chk.assumptions += ["created files are found by comparing the directory tree seven levels above the output directory before and after the run",
                        "an export that stops with an exception (e.g. file name too long) is judged on what it created before stopping"]
