"""X01 (extension, not a listed property): access flags rendered for the kind of item: spec AccessFlags / AccessFlags_Trace."""
from .. import tlc
from ..dexgen import Dex


def run(chk):
    from androguard.core import dex
    r, states = tlc.dump_states("AccessFlags", "AccessFlags.cfg", timeout=600)
    chk.model(r, "AccessFlags")
    by_kind = {"class": [], "field": [], "method": []}
    for st in states:
        by_kind[st["kind"]].append((st["value"], list(st["words"])))
    rv = dict(regs=1, ins=0, outs=0, insns=[("return-void",)])
    classes = []
    for k, (v, _) in enumerate(by_kind["class"]):
        classes.append(dict(name="Lx/C%d;" % k, super="Ljava/lang/Object;", flags=v, sfields=[], ifields=[], dmethods=[], vmethods=[]))
    holder = dict(name="Lx/H;", super="Ljava/lang/Object;", flags=1,
                  sfields=[("f%d" % k, "I", v | 8) for k, (v, _) in enumerate(by_kind["field"])], ifields=[],
                  dmethods=[dict(name="m%d" % k, ret="V", params=[], flags=v | 8, code=rv) for k, (v, _) in enumerate(by_kind["method"]) if not v & 0x500],
                  vmethods=[])
    d = dex.DEX(Dex(classes + [holder]).build())
    recs = []
    for c in d.get_classes():
        if c.get_name().startswith("Lx/C"):
            recs.append(dict(kind="class", value=c.get_access_flags(), words=c.get_access_flags_string().split()))
    for f in d.get_encoded_fields():
        recs.append(dict(kind="field", value=f.get_access_flags(), words=f.get_access_flags_string().split()))
    for m in d.get_encoded_methods():
        recs.append(dict(kind="method", value=m.get_access_flags(), words=m.get_access_flags_string().split()))
    chk.replayed(len(recs))
    res = tlc.validate("AccessFlags_Trace", "AccessFlags_Trace.cfg", recs, shards=4)
    chk.trace_result(res, "AccessFlags_Trace")
    for gi, why in res["rejects"]:
        rec = recs[gi]
        want = list(why[1])
        extra = sorted(set(rec["words"]) - set(want))
        missing = sorted(set(want) - set(rec["words"]))
        chk.violation("%s:+%s:-%s" % (rec["kind"], ",".join(extra), ",".join(missing)), "AccessFlags.Words", dict(kind=rec["kind"], value=hex(rec["value"]), rendered=rec["words"], dex_format=want))
    chk.bounds = dict(model="every single defined bit and every pair of defined bits per kind, plus common compiler combinations")
    chk.sample(recs[0])
    chk.assumptions += ["static is added to generated fields and methods so that they are direct members of one class; native / abstract methods are skipped (they carry no code)"]
