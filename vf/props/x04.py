"""X04 (extension, not a listed property): APK.get_uses_implied_permission_list: spec ImpliedPerms / ImpliedPerms_Trace."""
import random

from .. import tlc
from . import c31

PFX = "android.permission."
ALL = ["WRITE_EXTERNAL_STORAGE", "READ_EXTERNAL_STORAGE", "READ_PHONE_STATE", "READ_CONTACTS", "WRITE_CONTACTS", "READ_CALL_LOG", "WRITE_CALL_LOG"]
DECOYS = ["com.x.permission.WRITE_EXTERNAL_STORAGE", "android.permission.INTERNET", "android.permission.READ_CONTACTS_X", "READ_PHONE_STATE"]


def manifest(asked, target, minsdk, rnd, k):
    perms = [dict(name=PFX + p, maxsdk=(18 if p == "WRITE_EXTERNAL_STORAGE" and k % 3 == 0 else 0)) for p in asked]
    perms += [dict(name=d, maxsdk=0) for d in DECOYS if rnd.random() < 0.3]       # names that only look like the seven
    rnd.shuffle(perms)
    return dict(pkg=["com", "x"], vcode=1, vname="1", perms=perms, features=[], libraries=[], acts=[], svcs=[], rcvs=[], prvs=[], minsdk=minsdk, target=target)


def observe(apkmod, m):
    a = apkmod.APK(c31.make_apk(m, utf8=False), raw=True)
    out = []
    for name, _mx in a.get_uses_implied_permission_list():
        out.append(name[len(PFX):] if name.startswith(PFX) else "?" + name)
    return out


def run(chk):
    from androguard.core import apk
    quick = chk.tier == "quick"
    rnd = random.Random(chk.seed)
    r, states = tlc.dump_states("ImpliedPerms", "ImpliedPerms.cfg", timeout=600, only={"asked", "target", "minsdk", "pc"}, keep_if='"new"')
    chk.model(r, "ImpliedPerms")
    cases = sorted({(tuple(sorted(st["asked"])), st["target"], st["minsdk"]) for st in states if st["pc"] == "new"})      # (the dump lists initial states twice when a liveness property is checked)
    cases = [(list(a), t, m) for a, t, m in cases]
    if quick:
        cases = [c for i, c in enumerate(cases) if (i + chk.seed) % 3 == 0]
    n_s2c = len(cases)
    for _ in range(200 if quick else 3000):                 # other levels, written in either attribute
        cases.append((sorted(rnd.sample(ALL, rnd.randrange(0, 8))), rnd.choice([0, 0, rnd.randrange(1, 35)]), rnd.choice([0, rnd.randrange(1, 35)])))
    recs = []
    for k, (asked, target, minsdk) in enumerate(cases):
        recs.append(dict(asked=asked, target=target, minsdk=minsdk, implied=observe(apk, manifest(asked, target, minsdk, rnd, k))))
    chk.replayed(n_s2c)
    res = tlc.validate("ImpliedPerms_Trace", "ImpliedPerms_Trace.cfg", recs, shards=8)
    chk.trace_result(res, "ImpliedPerms_Trace")
    chk.c2s -= res["accepted"]
    chk.c2s += len(recs) - n_s2c
    for gi, why in res["rejects"]:
        rec = recs[gi]
        want = sorted(why[1])
        extra, missing = sorted(set(rec["implied"]) - set(want)), sorted(set(want) - set(rec["implied"]))
        level = rec["target"] or rec["minsdk"] or 1
        chk.violation("+%s:-%s:level-%s" % (",".join(extra), ",".join(missing), "below-4" if level < 4 else "below-16" if level < 16 else "16-up"), "ImpliedPerms_Trace:" + "+".join(sorted(why[0])),
                      dict(asked=rec["asked"], target=rec["target"], minsdk=rec["minsdk"], reported=rec["implied"], android_rule=want))
    rejected = {i for i, _ in res["rejects"]}
    j = next((i for i in range(len(recs)) if i not in rejected and recs[i]["implied"]), None)
    if j is not None:
        bad = dict(recs[j], implied=recs[j]["implied"][1:])
        if not tlc.validate("ImpliedPerms_Trace", "ImpliedPerms_Trace.cfg", [bad], shards=1)["rejects"]:
            raise tlc.TLCError("binding self-test failed")
        chk.extra["self_test_rejected"] = True
    chk.bounds = dict(model="every subset of the seven permissions x targetSdkVersion in {absent, 3, 4, 15, 16, 29} x minSdkVersion in {absent, 3, 16}; quick replays every third",
                      random="levels 1..34 in either attribute, look-alike permission names, maxSdkVersion on WRITE_EXTERNAL_STORAGE, shuffled order")
    chk.sample(recs[0])
    chk.assumptions += ["the rule is the one of the platform's package parser for the seven permissions androguard documents; later split permissions (location, media, bluetooth) are outside the model",
                        "only the names are compared, not the maxSdkVersion attached to an implied READ_EXTERNAL_STORAGE"]
