"""C33 APK Signing Block: spec SigBlock / SigBlockMC / SigBlock_Trace."""
import io
import random
import struct
import zipfile

from .. import tlc

IDS = {"v2": 0x7109871A, "v3": 0xF05368C0, "v31": 0x1B93AD61}
MAGIC = b"APK Sig Block 42"
QUERIES = ["is_v2", "is_v3", "is_v31", "dup", "certs_v2", "certs_v3", "certs_v31", "keys_v2", "keys_v3", "keys_v31", "signers_v2", "signers_v3", "signers_v31"]


# ---- independent encoder (apksig format) ----
def lp(b):
    return struct.pack("<I", len(b)) + b


def enc_alg_list(ps):
    return lp(b"".join(lp(struct.pack("<I", a) + lp(bytes(d))) for a, d in ps))


def enc_signer(s, v3):
    sd = enc_alg_list(s["digests"]) + lp(b"".join(lp(bytes(c)) for c in s["certs"]))
    if v3:
        sd += struct.pack("<II", s["smin"], s["smax"])
    sd += lp(bytes(s["attrs"]))
    out = lp(sd)
    if v3:
        out += struct.pack("<II", s["min"], s["max"])
    out += enc_alg_list(s["sigs"]) + lp(bytes(s["key"]))
    return lp(out)


def enc_signers(ss, v3):
    return lp(b"".join(enc_signer(s, v3) for s in ss))


def pair_id(name):
    return IDS[name] if name in IDS else int(name[1:], 16)


def signing_block(pairs):
    body = b"".join(struct.pack("<QI", len(v) + 4, pair_id(k)) + bytes(v) for k, v in pairs)
    size = len(body) + 8 + 16
    return struct.pack("<Q", size) + body + struct.pack("<Q", size) + MAGIC


def make_apk(pairs, rnd=None, with_block=True):
    bio = io.BytesIO()
    with zipfile.ZipFile(bio, "w", zipfile.ZIP_DEFLATED) as z:
        z.writestr("classes.dex", b"dex\n035\0" + b"\0" * 40)
        z.writestr("res/raw/a.txt", b"hello" * 20)
    raw = bio.getvalue()
    if not with_block:
        return raw
    eocd = raw.rfind(b"PK\x05\x06")
    cd_off = struct.unpack_from("<I", raw, eocd + 16)[0]
    blk = signing_block(pairs)
    out = bytearray(raw[:cd_off] + blk + raw[cd_off:])
    struct.pack_into("<I", out, eocd + len(blk) + 16, cd_off + len(blk))
    return bytes(out)


# ---- observation ----
def signer_obs(s, v3):
    sd = s.signed_data
    return dict(digests=[[a, list(d)] for a, d in sd.digests], certs=[list(c) for c in sd.certificates], attrs=list(sd.additional_attributes),
                sigs=[[a, list(d)] for a, d in s.signatures], key=list(s.public_key),
                min=s.minSDK if v3 else 0, max=s.maxSDK if v3 else 0, smin=sd.minSDK if v3 else 0, smax=sd.maxSDK if v3 else 0)


def ask(a, q):
    try:
        if q == "dup":
            return dict(q=q, b=bool(a.has_duplicate_apk_signature_ids()), bl=[], sg=[])
        kind = q.split("_")[1]
        if q.startswith("is_"):
            return dict(q=q, b=bool(getattr(a, "is_signed_" + kind)()), bl=[], sg=[])
        if q.startswith("certs_"):
            return dict(q=q, b=False, bl=[list(c) for c in getattr(a, "get_certificates_der_" + kind)()], sg=[])
        keys = [list(c) for c in getattr(a, "get_public_keys_der_" + kind)()]
        if q.startswith("keys_"):
            return dict(q=q, b=False, bl=keys, sg=[])
        return dict(q=q, b=False, bl=[], sg=[signer_obs(s, kind != "v2") for s in getattr(a, "_%s_signing_data" % kind)])
    except Exception as e:      # an answer is owed; the marker never equals an expected answer
        return dict(q=q, b=False, bl=[[999]], sg=[], err="%s: %s" % (type(e).__name__, e))


def run_history(apkmod, raw, qs):
    a = apkmod.APK(raw, raw=True, skip_analysis=True)
    return [ask(a, q) for q in qs]


def to_py(v):
    if isinstance(v, dict):
        return {k: to_py(x) for k, x in v.items()}
    if isinstance(v, tuple):
        return [to_py(x) for x in v]
    return v


def feats(pairs_abs, hist, failing):
    f = set()
    ids = [k for k, _ in pairs_abs]
    for cl in failing:
        q = cl.split(".", 1)[1]
        if q == "dup":
            f.add("dup-asked-first" if hist[0]["q"] == "dup" else "dup")
        elif q.endswith("_v31") and "v3" not in ids:
            f.add(q.split("_")[0] + "-v31-without-v3")
        else:
            f.add(q.split("_")[0])
    return "+".join(sorted(f))


def random_signer(rnd):
    def bs(lo, hi):
        return [rnd.randrange(256) for _ in range(rnd.randrange(lo, hi))]

    def algs():
        return [[rnd.choice([0x0101, 0x0103, 0x0104, 0x0201, 0x0421, 0x0301]), bs(0, 6)] for _ in range(rnd.randrange(0, 4))]
    mn = rnd.choice([0, 24, 28, 33])
    return dict(digests=algs(), certs=[bs(1, 8) for _ in range(rnd.randrange(0, 4))], attrs=bs(0, 9), sigs=algs(), key=bs(0, 7),
                min=mn, max=rnd.choice([mn, 0x7FFFFFFF]), smin=mn, smax=rnd.choice([mn, 33, 0x7FFFFFFF]))


def random_pairs(rnd):
    pairs, abstract = [], []
    for _ in range(rnd.randrange(0, 6)):
        k = rnd.choice(["v2", "v3", "v31", "v2", "v3", "v31", "x42726577", "x504b4453", "x00000001"])
        if k in IDS:
            ss = [random_signer(rnd) for _ in range(rnd.randrange(1, 4))]
            val = enc_signers(ss, k != "v2")
        else:
            ss, val = None, bytes(rnd.randrange(256) for _ in range(rnd.randrange(0, 12)))
        pairs.append((k, val))
        abstract.append((k, ss))
    return pairs, abstract


def run(chk):
    from androguard.core import apk
    quick = chk.tier == "quick"
    rnd = random.Random(chk.seed)
    cfg = "SigBlockMC_quick.cfg" if quick else "SigBlockMC_thorough.cfg"
    for c, inv in (("SigBlockMC_lazydup.cfg", "dup_query_without_load"), ("SigBlockMC_v31needsv3.cfg", "v31_tied_to_v3"), ("SigBlockMC_firstonly.cfg", "first_element_only_reader")):
        ru = tlc.run("SigBlockMC", c, timeout=600)
        chk.extra["counterexample_" + inv] = any("AnswersAsEncoded" in e for e in ru.errors)
        if not chk.extra["counterexample_" + inv]:
            raise tlc.TLCError("implementation-shaped variant %s no longer yields its counterexample" % c)
    stride = (6, chk.seed) if quick else (40, chk.seed)
    r, states = tlc.dump_states("SigBlockMC", cfg, stride=stride, timeout=3000, heap="8g")
    chk.model(r, "SigBlockMC/" + cfg)
    chk.bounds = dict(cfg=cfg, replay_stride=stride[0], model="blocks of <= %d pairs out of 7 (v2 x2, v3 x2, v3.1 x2 signer lists of 1-3 signers with 1-2 digests / certificates / signatures, one unknown id), "
                      "every history of <= 2 of the 13 queries on a fresh object" % (2 if quick else 3),
                      random="0..5 pairs, 1..3 signers, 0..3 digests / certificates / signatures each, unknown ids, duplicates, histories of 1..6 queries")
    recs, metas = [], []
    for st in states:
        hist = st["hist"]
        if not hist:
            continue
        pairs = [(p["id"], bytes(p["val"])) for p in st["pairs"]]
        raw = make_apk(pairs)
        got = run_history(apk, raw, [h[0] for h in hist])
        for g, h in zip(got, hist):
            want = to_py(h[1])
            if (g["b"], g["bl"]) != (want["b"], want["bl"]) or g["sg"] != [to_py(dict(s)) for s in h[1]["sg"]]:
                fl = feats([(k, None) for k, _ in pairs], got, ["C33." + g["q"]])
                chk.violation("model:" + fl, "SigBlockMC.AnswersAsEncoded:" + g["q"], dict(ids=[k for k, _ in pairs], history=[x["q"] for x in got], got=g, want=want))
        recs.append(dict(pairs=[dict(id=k, val=list(v)) for k, v in pairs], hist=[{k: v for k, v in g.items() if k != "err"} for g in got]))
        metas.append(([(k, None) for k, _ in pairs], got))
    n_s2c = len(recs)
    # unsigned archive: no block at all
    got = run_history(apk, make_apk([], with_block=False), QUERIES)
    recs.append(dict(pairs=[], hist=[{k: v for k, v in g.items() if k != "err"} for g in got]))
    metas.append(([], got))
    for _ in range(300 if quick else 6000):
        pairs, abstract = random_pairs(rnd)
        qs = [rnd.choice(QUERIES) for _ in range(rnd.randrange(1, 7))]
        got = run_history(apk, make_apk(pairs), qs)
        recs.append(dict(pairs=[dict(id=k, val=list(v)) for k, v in pairs], hist=[{k: v for k, v in g.items() if k != "err"} for g in got]))
        metas.append((abstract, got))
    res = tlc.validate("SigBlock_Trace", "SigBlock_Trace.cfg", recs, shards=16, heap="3g", timeout=3000)
    chk.trace_result(res, "SigBlock_Trace")
    chk.c2s -= res["accepted"]
    chk.s2c += n_s2c
    chk.c2s += len(recs) - n_s2c
    for gi, why in res["rejects"]:
        abstract, got = metas[gi]
        chk.violation(feats(abstract, got, sorted(why[0])), "SigBlock_Trace:" + "+".join(sorted(w.split(".", 1)[1] for w in why[0])),
                      dict(ids=[k for k, _ in abstract], history=[g["q"] for g in got], answers=got if len(str(got)) < 1500 else str(got)[:1500]))
    chk.sample(dict(ids=[k for k, _ in metas[-1][0]], history=[g["q"] for g in metas[-1][1]]))
    rejected = {i for i, _ in res["rejects"]}
    import copy
    k = next((i for i in range(len(recs)) if i not in rejected and any(h["bl"] for h in recs[i]["hist"])), None)
    if k is not None:
        bad = copy.deepcopy(recs[k])
        h = next(h for h in bad["hist"] if h["bl"])
        h["bl"][0] = h["bl"][0] + [1]
        st = tlc.validate("SigBlock_Trace", "SigBlock_Trace.cfg", [bad], shards=1)
        if not st["rejects"]:
            raise tlc.TLCError("binding self-test failed")
        chk.extra["self_test_rejected"] = True
    chk.assumptions += ["signing blocks are well formed (lengths consistent); sizes and SDK bounds < 2^31", "signers are read from the object's _v2/_v3/_v31_signing_data after the public key query has loaded them"]
