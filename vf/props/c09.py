"""C09 header rejection: spec DexHeader / DexHeaderMC / DexHeader_Trace."""
import random
import struct
import zlib

from .. import tlc
from ..dexgen import Dex, fix


def sample_files():
    a = Dex([dict(name="La/A;", super="Ljava/lang/Object;", flags=1, sfields=[("f", "I", 9)], ifields=[],
                  dmethods=[dict(name="m", ret="V", params=[], flags=9, code=dict(regs=1, ins=0, outs=0, insns=[("const-string", 0, "hi"), ("return-void",)]))],
                  vmethods=[])]).build()
    b = Dex([]).build()
    c = Dex([dict(name="Lb/B;", super="La/A;", ifaces=["Ljava/lang/Runnable;"], flags=0x401, src="B.java", sfields=[], ifields=[("x", "J", 2)], dmethods=[],
                  vmethods=[dict(name="run", ret="V", params=[], flags=0x401)]),
             dict(name="Lb/C;", super="Ljava/lang/Object;", flags=1, sfields=[], ifields=[], dmethods=[], vmethods=[])]).build()
    return [a, b, c]


def realise(valid, c, zlib_fix=True):
    """corruption class record -> concrete buffer"""
    buf = bytearray(valid)
    if c["magic"] == "dey":
        buf[0:8] = b"dey\n036\0"
    elif c["magic"] == "first-byte":
        buf[0] = ord("x")
    elif c["magic"] == "newline":
        buf[3] = 0x20
    elif c["magic"] == "terminator":
        buf[7] = 0x31
    elif c["magic"] == "version-digits":
        buf[4:7] = b"03x"
    if c["endian"] == "swapped":
        buf[40:44] = struct.pack("<I", 0x78563412)
    elif c["endian"] == "garbage":
        buf[40:44] = struct.pack("<I", 0x12345679)
    hs = {"0x70": 0x70, "zero": 0, "0x6f": 0x6f, "0x71": 0x71, "huge": 0xFFFFFFF0}[c["hsize"]]
    buf[36:40] = struct.pack("<I", hs)
    buf[8:12] = struct.pack("<I", zlib.adler32(bytes(buf[12:])) & 0xFFFFFFFF)
    if c["sum"] == "stale":
        buf[8] ^= 0x01
    if c["len"] == "lt-0x70":
        buf = buf[:0x6f]
    elif c["len"] == "empty":
        buf = bytearray()
    return bytes(buf)


class Probe:
    """Observes 'before any structure is parsed' by wrapping MapList.__init__ (harness side, no source change)."""

    def __init__(self, dexmod):
        self.dex = dexmod
        self.entered = False
        self.orig = dexmod.MapList.__init__
        probe = self

        def wrapped(self_, *a, **k):
            probe.entered = True
            return probe.orig(self_, *a, **k)
        self.wrapped = wrapped

    def __enter__(self):
        self.dex.MapList.__init__ = self.wrapped
        return self

    def __exit__(self, *a):
        self.dex.MapList.__init__ = self.orig

    def call(self, buf):
        self.entered = False
        try:
            self.dex.DEX(buf)
            return "parsed", self.entered
        except Exception as e:
            return "error", self.entered


def run(chk):
    from androguard.core import dex
    quick = chk.tier == "quick"
    rnd = random.Random(chk.seed)
    cfg = "DexHeaderMC_quick.cfg" if quick else "DexHeaderMC_thorough.cfg"
    files = sample_files()
    chk.bounds = dict(cfg=cfg, sweep="every offset >= 12 of %d generated files (%s bytes) x %s" % (
        len(files), [len(f) for f in files], "{+1, ^0x80, 0x00, 0xFF, random}" if quick else "all 255 alternatives"))
    r, states = tlc.dump_states("DexHeaderMC", cfg, timeout=3000)
    chk.model(r, "DexHeaderMC/" + cfg)
    recs = []
    with Probe(dex) as p:
        n = 0
        for st in states:
            if st["mode"] != "class":
                continue
            c = dict(st["c"])
            for fi, valid in enumerate(files[:1] if quick else files):
                buf = realise(valid, c)
                outcome, entered = p.call(buf)
                want = st["exp"]
                bad = []
                if want == "reject" and outcome != "error":
                    bad.append("rejected")
                if want == "reject" and entered:
                    bad.append("before-any-structure-is-parsed")
                if want == "accept" and outcome != "parsed":
                    bad.append("clean-file-accepted")
                if bad:
                    first = next(k for k in ("len", "endian", "magic", "sum", "hsize") if c[k] not in ("full", "little", "dex", "dey", "version-digits", "ok", "0x70"))\
                        if want == "reject" else "none"
                    chk.violation("header:%s=%s:%s" % (first, c.get(first, ""), "+".join(bad)), "DexHeader.Verdict", dict(cls=c, outcome=outcome, entered=entered, want=want))
                n += 1
            if n % 97 == 0:
                chk.sample(dict(cls=c, spec=st["exp"]), cap=3)
        chk.replayed(n)
        # Adler-32 definition of the spec vs zlib on the enumerated buffers (binds the lemma to the implementation's checksum)
        for st in states:
            if st["mode"] == "adler":
                bs = bytes(st["buf"])
                a = zlib.adler32(bs) & 0xFFFFFFFF
                if (a & 0xFFFF, a >> 16) != _adler(bs):
                    raise tlc.TLCError("Adler-32 of the harness model and zlib disagree")
        # ---- C->S: single-byte sweep over valid files -----------------------------------------------------------
        for fi, valid in enumerate(files):
            o, e = p.call(valid)
            recs.append(dict(kind="class", magic="dex", endian="little", hsize="0x70", sum="ok", len="full", outcome=o, entered=e, file=fi, off=-1, val=-1))
            for off in range(12, len(valid)):
                old = valid[off]
                alts = {(old + 1) & 0xFF, old ^ 0x80, 0x00, 0xFF, rnd.randrange(256)} if quick else set(range(256))
                alts.discard(old)
                for v in sorted(alts):
                    buf = bytearray(valid)
                    buf[off] = v
                    o, e = p.call(bytes(buf))
                    recs.append(dict(kind="byte", magic="", endian="", hsize="", sum="", len="", outcome=o, entered=e, file=fi, off=off, val=v))
        # random magic / endian / header-size values with the checksum made consistent
        for _ in range(300 if quick else 5000):
            valid = rnd.choice(files)
            buf = bytearray(valid)
            which = rnd.choice(["magic", "endian", "hsize"])
            c = dict(kind="class", magic="dex", endian="little", hsize="0x70", sum="ok", len="full")
            if which == "magic":
                i = rnd.choice([0, 1, 2, 3, 7])
                nv = rnd.randrange(256)
                if nv == buf[i] or (i == 2 and nv in (0x78, 0x79)):
                    continue
                buf[i] = nv
                c["magic"] = "first-byte"          # any wrong byte of the magic shape
            elif which == "endian":
                v = rnd.getrandbits(32)
                if v == 0x12345678:
                    continue
                buf[40:44] = struct.pack("<I", v)
                c["endian"] = "garbage"
            else:
                v = rnd.choice([rnd.getrandbits(32), rnd.randrange(0, 0x200)])
                if v == 0x70:
                    continue
                buf[36:40] = struct.pack("<I", v)
                c["hsize"] = "huge"
            buf[8:12] = struct.pack("<I", zlib.adler32(bytes(buf[12:])) & 0xFFFFFFFF)
            o, e = p.call(bytes(buf))
            c.update(outcome=o, entered=e, file=-1, off=-1, val=-1)
            recs.append(c)
    res = tlc.validate("DexHeader_Trace", "DexHeader_Trace.cfg", recs, shards=16, heap="2g")
    chk.trace_result(res, "DexHeader_Trace")
    for gi, why in res["rejects"]:
        rec = recs[gi]
        where = "hdr" if 0 <= rec["off"] < 0x70 else ("data" if rec["off"] >= 0x70 else rec["kind"])
        chk.violation("sweep:%s:%s" % (where, "+".join(sorted(why[0]))), "DexHeader_Trace", rec)
    chk.sample(recs[1])
    bad = dict(recs[1], outcome="parsed")
    st = tlc.validate("DexHeader_Trace", "DexHeader_Trace.cfg", [bad], shards=1)
    if not st["rejects"]:
        raise tlc.TLCError("binding self-test failed")
    chk.extra["self_test_rejected"] = True
    chk.assumptions += ["the three version digits of the magic are not part of the checked magic shape (androguard warns and continues)",
                        "'before any structure is parsed' is observed as: MapList.__init__ is never entered"]


def _adler(bs):
    a, b = 1, 0
    for x in bs:
        a = (a + x) % 65521
        b = (b + a) % 65521
    return a, b
