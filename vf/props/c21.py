"""C21 decompiled integer code computes what the bytecode computes: specs Alu, DalvikMachine, DalvikMachineMC, DalvikMachine_Trace."""
import os
import random
import re
import shutil
import subprocess

from .. import dalvikref as dr
from .. import tlc
from ..dexgen import Dex

DRIVER = r"""
import java.lang.reflect.*;
import java.io.*;
import java.util.concurrent.*;
public class Driver {
    public static void main(String[] a) throws Exception {
        BufferedReader in = new BufferedReader(new FileReader(a[0]));
        PrintWriter out = new PrintWriter(new FileWriter(a[1]));
        ExecutorService ex = Executors.newCachedThreadPool(r -> { Thread t = new Thread(r); t.setDaemon(true); return t; });
        String line;
        while ((line = in.readLine()) != null) {
            final String[] f = line.trim().split(" ");
            String res;
            try {
                Class<?> c = Class.forName(f[0]);
                Method mm = null;
                for (Method x : c.getDeclaredMethods()) if (Modifier.isStatic(x.getModifiers())) mm = x;
                final Method m = mm;
                Class<?>[] pt = m.getParameterTypes();
                final Object[] args = new Object[pt.length];
                for (int i = 0; i < pt.length; i++) {
                    long v = Long.parseLong(f[1 + i]);
                    if (pt[i] == int.class) args[i] = (int) v; else if (pt[i] == long.class) args[i] = v;
                    else if (pt[i] == short.class) args[i] = (short) v; else if (pt[i] == byte.class) args[i] = (byte) v;
                    else if (pt[i] == char.class) args[i] = (char) v; else if (pt[i] == boolean.class) args[i] = (v != 0);
                    else throw new IllegalArgumentException("parameter type " + pt[i]);
                }
                m.setAccessible(true);
                Future<String> fu = ex.submit(() -> {
                    try {
                        Object r = m.invoke(null, args);
                        if (r instanceof Character) return "V " + (long) ((Character) r).charValue();
                        if (r instanceof Boolean) return "V " + (((Boolean) r) ? 1 : 0);
                        return "V " + ((Number) r).longValue() + " " + m.getReturnType().getName();
                    } catch (InvocationTargetException e) {
                        return "E " + e.getCause().getClass().getName();
                    }
                });
                try { res = fu.get(3, TimeUnit.SECONDS); } catch (TimeoutException te) { fu.cancel(true); res = "T"; }
            } catch (Throwable t) {
                res = "X " + t.getClass().getName() + " " + String.valueOf(t.getMessage()).replace('\n', ' ');
            }
            out.println(res);
        }
        out.close();
        System.exit(0);
    }
}
"""


def build_dex(methods):
    ms = []
    for k, m in enumerate(methods):
        n_in = sum(2 if t == "J" else 1 for t in m["sig"])
        ms.append(dict(name="m%d" % k, ret=m["ret"], params=list(m["sig"]), flags=9,
                       code=dict(regs=m["nregs"], ins=n_in, outs=0, insns=dr.to_asm(m["prog"]))))
    c = dict(name="Lt/T;", super="Ljava/lang/Object;", flags=1, sfields=[], ifields=[], dmethods=ms, vmethods=[])
    return Dex([c]).build()


def decompile(raw, n):
    from androguard.core import dex
    from androguard.core.analysis.analysis import Analysis
    from androguard.decompiler import decompile as dec
    d = dex.DEX(raw)
    dx = Analysis(d)
    by_name = {ma.name: ma for ma in dx.get_methods() if not ma.is_external()}
    out = []
    for k in range(n):
        try:
            z = dec.DvMethod(by_name["m%d" % k])
            z.process()
            out.append(z.get_source())
        except Exception as e:
            out.append("EXC %s: %s" % (type(e).__name__, e))
    return out


def java_batch(sources, calls, work):
    """sources: {index: method source}; calls: [(index, [ints])] -> (nocompile {index: message}, outcomes per call)"""
    os.makedirs(work, exist_ok=True)
    with open(os.path.join(work, "Driver.java"), "w") as f:
        f.write(DRIVER)
    files = {}
    for k, src in sources.items():
        if src.startswith("EXC "):
            continue
        p = os.path.join(work, "M%d.java" % k)
        with open(p, "w") as f:
            f.write("public class M%d {\n%s\n}\n" % (k, src))
        files[k] = p
    bad = {k: src for k, src in sources.items() if src.startswith("EXC ")}
    live = dict(files)
    for _ in range(40):
        if not live:
            break
        p = subprocess.run(["javac", "-nowarn", "-Xmaxerrs", "100000", "-d", work, os.path.join(work, "Driver.java")] + sorted(live.values()),
                           capture_output=True, text=True, timeout=1800)
        if p.returncode == 0:
            break
        failing = {}
        for mm in re.finditer(r"M(\d+)\.java:\d+: error: (.*)", p.stdout + p.stderr):
            failing.setdefault(int(mm.group(1)), mm.group(2))
        if not failing:
            raise tlc.TLCError("javac failed without naming a method file:\n" + (p.stdout + p.stderr)[-2000:])
        for k, msg in failing.items():
            bad[k] = "javac: " + msg
            live.pop(k, None)
    else:
        raise tlc.TLCError("javac: errors kept appearing")
    with open(os.path.join(work, "calls.txt"), "w") as f:
        for k, args in calls:
            f.write(" ".join(["M%d" % k] + [str(a) for a in args]) + "\n")
    p = subprocess.run(["java", "-Xss4m", "-cp", work, "Driver", os.path.join(work, "calls.txt"), os.path.join(work, "out.txt")], capture_output=True, text=True, timeout=3600)
    lines = open(os.path.join(work, "out.txt")).read().split("\n") if os.path.exists(os.path.join(work, "out.txt")) else []
    if len(lines) < len(calls):
        raise tlc.TLCError("java driver produced %d of %d results: %s" % (len(lines), len(calls), p.stderr[-1000:]))
    return bad, lines[:len(calls)]


def outcome_of(line, ret, compiled_ok):
    if not compiled_ok:
        return dict(kind="nocompile", bytes=[], name="")
    if line.startswith("V "):
        parts = line.split(" ")
        v = int(parts[1])
        jt = parts[2] if len(parts) > 2 else ""
        # the declared Java return type decides the width the caller sees; the value is compared at the Dalvik width
        return dict(kind="value", bytes=dr.le(v, 4 if ret == "I" else 8), name=jt)
    if line.startswith("E "):
        return dict(kind="exc", bytes=[], name=line[2:].strip())
    if line.startswith("T"):
        return dict(kind="timeout", bytes=[], name="")
    return dict(kind="error", bytes=[], name=line[:200])


BOUND_I = [0, 1, -1, 2, 7, 31, 32, 33, 255, -128, 65535, -32768, 0x7FFFFFFF, -0x80000000, 0x12345678]
BOUND_J = [0, 1, -1, 63, 64, 0xFFFFFFFF, 0x100000000, -0x80000000, 0x7FFFFFFFFFFFFFFF, -0x8000000000000000, 0x123456789ABCDEF]


def arg_tuples(sig, rnd, n):
    out = []
    for _ in range(n):
        t = []
        for ty in sig:
            if ty == "I":
                t.append(rnd.choice(BOUND_I) if rnd.random() < 0.7 else rnd.randrange(-2 ** 31, 2 ** 31))
            else:
                t.append(rnd.choice(BOUND_J) if rnd.random() < 0.7 else rnd.randrange(-2 ** 63, 2 ** 63))
        out.append(t)
    return out


def argbytes(sig, args):
    b = []
    for ty, v in zip(sig, args):
        b += dr.le(v, 4 if ty == "I" else 8)
    return b


def to_py(v):
    if isinstance(v, dict):
        return {k: to_py(x) for k, x in v.items()}
    if isinstance(v, tuple):
        return [to_py(x) for x in v]
    return v


def opclass(m):
    ops = {i["op"] for i in m["prog"]}
    ops -= {"return", "return-wide", "const/4"}
    return sorted(ops)


def run(chk):
    quick = chk.tier == "quick"
    rnd = random.Random(chk.seed)
    r = tlc.check_model("AluMC", "AluMC.cfg", timeout=3000, heap="6g")
    chk.model(r, "AluMC (byte arithmetic against TLC's integers and the boundary laws)")
    cfg = "DalvikMachineMC_quick.cfg" if quick else "DalvikMachineMC_thorough.cfg"
    r, states = tlc.dump_states("DalvikMachineMC", cfg, timeout=3000, heap="8g", skip_if='status |-> "run"')
    chk.model(r, "DalvikMachineMC/" + cfg)
    # ---- S->C: every one-operation method of the model on every boundary tuple ----
    methods, index, jobs = [], {}, []
    for st in states:
        m = to_py(dict(st["meth"]))
        key = repr(m)
        if key not in index:
            index[key] = len(methods)
            methods.append(m)
        args = [dr.from_le(a) for a in to_py(st["args"])]
        mc = st["m"]
        want = dict(kind="value", bytes=list(mc["val"]), name="") if mc["status"] == "ret" else dict(kind="exc", bytes=[], name=mc["exc"])
        jobs.append((index[key], args, want))
    n_model = len(jobs)
    # ---- random structured methods ----
    # The corpus is fixed (independent of VERIF_SEED; quick = the first 120 methods of the thorough corpus, the first 6 of its
    # 12 argument tuples): the decompiler's recorded defects on structured code are pinned per method of this corpus, so that
    # any other method computing a different value is reported.
    n_rand = 120 if quick else 2500
    per = 6 if quick else 12
    gen_rnd = random.Random(20260922)
    structured_no = {}
    for j in range(n_rand):
        g = dr.Gen(gen_rnd, size=gen_rnd.randrange(2, 7)).build()
        k = len(methods)
        methods.append(g)
        structured_no[k] = j
        for args in arg_tuples(g["sig"], random.Random(1000003 * j + 7), 12 if g["sig"] else 1)[:per]:
            jobs.append((k, args, None))
    work = tlc.scratch_dir("c21_")
    try:
        sources = {}
        for lo in range(0, len(methods), 400):
            chunk = methods[lo:lo + 400]
            for k, s in enumerate(decompile(build_dex(chunk), len(chunk))):
                sources[lo + k] = s
        bad, lines = java_batch(sources, [(k, a) for k, a, _ in jobs], work)
    finally:
        shutil.rmtree(work, ignore_errors=True)
    recs, keep = [], []
    fuel_skipped = 0
    for (k, args, want), line in zip(jobs, lines):
        m = methods[k]
        ab = argbytes(m["sig"], args)
        ref, steps = dr.interpret(m["prog"], m["nregs"], m["first"], ab)
        if ref["kind"] == "fuel":
            fuel_skipped += 1
            continue
        java = outcome_of(line, m["ret"], k not in bad)
        if want is not None and (want["kind"], want["bytes"], want["name"]) != (ref["kind"], ref["bytes"], ref["name"]):
            raise tlc.TLCError("harness: reference interpreter and DalvikMachineMC disagree on %s %s: %s vs %s" % (opclass(m), args, ref, want))
        recs.append(dict(prog=m["prog"], nregs=m["nregs"], first=m["first"], argbytes=ab, steps=steps, java=dict(java, name=java["name"] if java["kind"] == "exc" else ""), ref=ref))
        keep.append((k, args, java, ref))
    res = tlc.validate("DalvikMachine_Trace", "DalvikMachine_Trace.cfg", recs, shards=16, heap="3g", timeout=6000, weight=lambda rec: rec["steps"] + 1)
    chk.trace_result(res, "DalvikMachine_Trace")
    n_s2c = sum(1 for i in range(len(recs)) if keep[i][0] < len(index))
    chk.c2s -= res["accepted"]
    chk.s2c += n_s2c
    chk.c2s += len(recs) - n_s2c
    done = set()
    for gi, why in res["rejects"]:
        if gi in done:          # (TLC evaluates the Finish action twice for a state: the line is printed twice)
            continue
        done.add(gi)
        k, args, java, ref = keep[gi]
        cl = sorted(why[0])
        if any(c.startswith("HARNESS") for c in cl):
            raise tlc.TLCError("harness: reference interpreter disagrees with DalvikMachine on method %d %s args %s: %s" % (k, opclass(methods[k]), args, ref))
        name = "+".join(c.split(".", 1)[1] for c in cl)
        if java["kind"] == "nocompile":
            what = bad.get(k, "")
            src = sources.get(k, "")
            if re.search(r"\bcmp\b", src):
                sig = "nocompile:cmp-long-result-used-as-a-value"
            elif "unknownType" in src:
                sig = "nocompile:unknownType"
            elif src.startswith("EXC "):
                sig = "decompiler-raised:" + src.split(":")[0][4:]
            elif "possible lossy conversion from" in what:
                sig = "nocompile:javac: possible lossy conversion (variable typed by one narrowing / long use of its register)"
            else:
                sig = "nocompile:" + re.sub(r"[0-9]+", "N", what.split("\n")[0])[:80]
        else:
            ops = opclass(methods[k])
            src = sources.get(k, "")
            if k < len(index):
                prog = methods[k]["prog"]
                if len(prog) <= 2:
                    tag = ops[0]                 # a one-operation method of the model
                else:                            # a template of the model (branchy test, aliasing, propagation): identified by its instruction sequence
                    import hashlib
                    tag = "model-template-" + hashlib.sha1(repr([(i["op"], i["a"], i["b"], i["c"], i["lit"], i["t"]) for i in prog]).encode()).hexdigest()[:10]
            else:
                tag = "structured-corpus-method-%d" % structured_no[k]
            sig = "%s:%s" % (name, tag)
        chk.violation(sig, "DalvikMachine_Trace:" + name, dict(method=k, ops=opclass(methods[k]), args=args, java=java, dalvik=ref, source=sources.get(k, "")[:1500], compile_error=bad.get(k, "")))
    chk.extra["methods"] = dict(model=len(index), structured=n_rand, not_compiling=len(bad), calls=len(jobs), skipped_for_fuel=fuel_skipped)
    chk.bounds = dict(cfg=cfg, model="every int/long arithmetic, bitwise, shift, literal, 2addr, conversion, comparison, if-test and constant instruction as a one-operation method x all tuples of %d boundary values" % (6 if quick else 12),
                      structured="%d random structured methods (assignments in all instruction forms, if/else with &&/||, counted loops (nested), packed/sparse switches, early returns) x %d argument tuples" % (n_rand, per))
    chk.sample(dict(source=sources.get(len(index), "")[:600]))
    rejected = {i for i, _ in res["rejects"]}
    k = next((i for i in range(len(recs)) if i not in rejected and recs[i]["java"]["kind"] == "value" and recs[i]["steps"] < 30), None)
    if k is None:
        raise tlc.TLCError("vacuous: no accepted record with a value")
    import copy
    bad_rec = copy.deepcopy(recs[k])
    bad_rec["java"]["bytes"][0] ^= 1
    st = tlc.validate("DalvikMachine_Trace", "DalvikMachine_Trace.cfg", [bad_rec], shards=1, weight=lambda rec: rec["steps"] + 1)
    if not st["rejects"]:
        raise tlc.TLCError("binding self-test failed")
    chk.extra["self_test_rejected"] = True
    chk.assumptions += ["vf/asm.py + vf/dexgen.py turn the abstract instructions into the DEX file (used since C01-C05)", "javac 17 / the JVM as the meaning of the emitted Java source",
                        "results are compared at the width of the Dalvik return type (int: low 32 bits of the Java value after widening)"]
