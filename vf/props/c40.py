"""C40: block / payload-link offsets (vf/cfgobs.py, spec MethodCFG*) and cross-reference offsets (vf/xrefrun.py, spec Xref*)."""
from ..cfgobs import run_property as run_cfg
from ..xrefrun import run_property as run_xref


def run(chk):
    run_cfg(chk, "C40")
    bounds = dict(chk.bounds)
    run_xref(chk, "C40")
    chk.bounds = dict(blocks_and_payload_links=bounds, xref_offsets=chk.bounds)
