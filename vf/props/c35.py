"""C35 parsers terminate: specs NullTerm, ResHeader, ChunkWalk, ParseRun_Trace."""
import io
import random
import struct
import sys
import zipfile

from .. import parserun, tlc


# ---------------- unit replays of the loop models ----------------
def counted(fn, limit):
    """run fn() under a call budget -> (outcome, value)"""
    n = [0]

    def prof(frame, event, arg):
        if event in ("call", "c_call"):
            n[0] += 1
            if n[0] > limit:
                sys.setprofile(None)
                raise parserun.BudgetExceeded()
    sys.setprofile(prof)
    try:
        return "result", fn()
    except parserun.BudgetExceeded:
        return "budget", None
    except Exception as e:
        return "error", type(e).__name__
    finally:
        sys.setprofile(None)


def replay_nullterm(chk, quick):
    from androguard.core import dex
    cfg = "NullTerm_quick.cfg" if quick else "NullTerm_thorough.cfg"
    ru = tlc.run("NullTerm", "NullTerm_spin.cfg", timeout=600)
    chk.extra["counterexample_loop_without_end_of_buffer_check"] = any("Bounded" in e or "Terminates" in e for e in ru.errors)
    if not chk.extra["counterexample_loop_without_end_of_buffer_check"]:
        raise tlc.TLCError("NullTerm_spin no longer yields its counterexample")
    r, states = tlc.dump_states("NullTerm", cfg, timeout=3000, heap="8g", skip_if='"read"')
    chk.model(r, "NullTerm/" + cfg)
    if not quick:
        states = states[chk.seed % 7::7]
    n = 0
    for st in states:
        ln, start, z = st["len"], st["start"], st["z"]
        data = bytearray(b"\x01" * ln)
        if z < ln:
            data[z] = 0
        f = io.BufferedReader(io.BytesIO(bytes(data)))
        f.seek(start)
        outcome, val = counted(lambda: (dex.read_null_terminated_string(f), f.tell()), 40 * (ln // 128 + 3))
        n += 1
        if outcome == "budget":
            chk.violation("nullterm:spins:" + ("no-terminator" if z == ln else "terminated"), "NullTerm.Bounded",
                          dict(len=ln, start=start, first_zero=z, what="read_null_terminated_string made more than %d calls" % (40 * (ln // 128 + 3))))
        elif st["pc"] == "done" and (outcome != "result" or len(val[0]) != st["got"] or val[1] != st["pos"]):
            chk.violation("nullterm:result", "NullTerm.Result", dict(len=ln, start=start, first_zero=z, outcome=outcome, got=None if outcome != "result" else [len(val[0]), val[1]], want=[st["got"], st["pos"]]))
    chk.replayed(n)
    return n


def replay_resheader(chk, quick):
    from androguard.core import axml
    cfg = "ResHeader_quick.cfg" if quick else "ResHeader_thorough.cfg"
    stride = (9, chk.seed) if quick else (40, chk.seed)
    r, states = tlc.dump_states("ResHeader", cfg, timeout=3000, heap="8g", skip_if='"read"', stride=stride)
    chk.model(r, "ResHeader/" + cfg)
    n, div = 0, []
    for st in states:
        if st["pc"] == "read":
            continue
        buf, start = bytes(st["buf"]), st["start"]
        f = io.BufferedReader(io.BytesIO(buf))
        f.seek(start)

        def go():
            h = axml.ARSCHeader(f)
            return (h.type, h.header_size, h.size, f.tell())
        outcome, val = counted(go, 60 * (len(buf) + 4))
        n += 1
        if outcome == "budget":
            chk.violation("resheader:spins", "ResHeader.Bounded", dict(buf=list(buf), start=start))
        elif outcome == "result" and (val[3] < start + 8 or val[2] < 8 or val[1] < 8):
            chk.violation("resheader:accepted-header-does-not-advance", "ResHeader.Advances", dict(buf=list(buf), start=start, header=val))
        else:
            want = (st["hdr"]["type"], st["hdr"]["hsize"], st["hdr"]["size"], st["cur"]) if st["pc"] == "ok" else None
            got = val if outcome == "result" else None
            if want != got and len(div) < 5:
                div.append(dict(buf=list(buf), start=start, model=st["pc"], code=[outcome, val]))
    chk.extra["resheader_divergences_not_affecting_termination"] = div
    chk.replayed(n)
    return n


# ---------------- whole parsers on mutated inputs ----------------
def with_hiddenapi(d, declared_extra=0, body=b""):
    """DEX `d` (map list at the end of the file) with a hiddenapi_class_data_item (map type 0xF000) behind the map: no class has
    flags (all offsets 0); `declared_extra` is added to the size the section declares; checksum not recomputed here"""
    moff = struct.unpack_from("<I", d, 0x34)[0]
    n = struct.unpack_from("<I", d, moff)[0]
    ents = [list(struct.unpack_from("<HHII", d, moff + 4 + 12 * i)) for i in range(n)]
    ncls = struct.unpack_from("<I", d, 0x60)[0]
    newmap_len = 4 + 12 * (n + 1)
    hoff = moff + newmap_len
    section = struct.pack("<I", 4 + 4 * ncls + len(body) + declared_extra) + b"\0" * (4 * ncls) + body
    ents.append([0xF000, 0, 1, hoff])
    newmap = struct.pack("<I", n + 1) + b"".join(struct.pack("<HHII", *e) for e in sorted(ents, key=lambda e: e[3]))
    b = bytearray(d[:moff] + newmap + section)
    struct.pack_into("<I", b, 0x20, len(b))
    struct.pack_into("<I", b, 0x68, len(b) - struct.unpack_from("<I", b, 0x6C)[0])
    return bytes(b)


def seeds(rnd):
    from ..axmlgen import Axml
    from . import c17, c31, c32, c33
    from .. import arscobs
    out = []
    for f in ("Test.dex", "FillArrays.dex", "ExceptionHandling.dex", "StringTests.dex"):
        out.append(("dex", open("/repo/tests/data/APK/" + f, "rb").read(), f))
    out.append(("dex", c17.universe(), "generated"))
    from ..dexgen import fix
    out.append(("dex", bytes(fix(bytearray(with_hiddenapi(c17.universe())))), "generated-with-hiddenapi-section"))
    m = c31.random_manifest(rnd)
    m["vcodetext"] = "1"
    out.append(("axml", Axml(c31.manifest_doc(m), [("android", c31.U)], False).build(), "generated-utf16"))
    out.append(("axml", Axml(c31.manifest_doc(m), [("android", c31.U)], True).build(), "generated-utf8"))
    z = zipfile.ZipFile("/repo/tests/data/APK/TestActivity.apk")
    out.append(("axml", z.read("AndroidManifest.xml"), "TestActivity"))
    out.append(("arsc", z.read("resources.arsc"), "TestActivity"))
    ents = [dict(pkg="com.a", pid=0x7F, type="array", tid=1, idx=i, cfg="|0", kind=k, val=v, key="k%d" % i)
            for i, (k, v) in enumerate([("str", [104, 105]), ("int", 7), ("ref", 0x7F010000), ("bag", [["str", [98]], ["ref", 0x7F010001]])])]
    out.append(("arsc", arscobs.realise(ents), "generated"))
    out.append(("apk", c31.make_apk(m), "generated"))
    signed = c32.make_apk(c32.base_block("sha256", True), "EC")[0]
    out.append(("apk", signed, "generated-v1-signed"))
    pairs, _ = c33.random_pairs(rnd)
    out.append(("apk", c33.make_apk(pairs + [("v2", c33.enc_signers([c33.random_signer(rnd)], False))]), "generated-signing-block"))
    return out


SPECIAL = [0x00, 0xFF, 0x7F, 0x80, 0x01]


def mutants(parser, data, name, rnd, count):
    out = [(parser, data, name + ":intact")]
    n = len(data)
    for _ in range(count):
        k = rnd.random()
        b = bytearray(data)
        if k < 0.25:
            cut = rnd.randrange(0, n)
            out.append((parser, bytes(b[:cut]), "%s:truncate@%d" % (name, cut)))
        elif k < 0.55:
            for _ in range(rnd.choice([1, 1, 2, 4])):
                p = rnd.randrange(n)
                b[p] = rnd.choice(SPECIAL + [rnd.randrange(256)])
            out.append((parser, bytes(b), "%s:bytes" % name))
        elif k < 0.85 and n >= 8:
            p = rnd.randrange(0, n - 4) & ~3
            struct.pack_into("<I", b, p, rnd.choice([0xFFFFFFFF, 0x7FFFFFFF, 0x80000000, 0, 1, n, n - 1, 0x00FFFFFF, 0xFFFF]))
            out.append((parser, bytes(b), "%s:word@%d" % (name, p)))
        else:
            p = rnd.randrange(n)
            q = min(n, p + rnd.randrange(1, 64))
            b[p:q] = bytes([rnd.choice([0, 0xFF, 0x01])]) * (q - p)
            out.append((parser, bytes(b), "%s:fill@%d" % (name, p)))
    return out


def crafted():
    """files with unterminated strings and huge declared counts"""
    from . import c17
    out = []
    d = c17.universe()
    # string data without terminator: cut the file inside the last string and drop every zero byte behind the cut
    soff = struct.unpack_from("<I", d, 0x3C)[0]
    ssz = struct.unpack_from("<I", d, 0x38)[0]
    last = struct.unpack_from("<I", d, soff + 4 * (ssz - 1))[0]
    for cut in (last + 1, last + 2):
        out.append(("dex", d[:cut], "crafted:unterminated-string"))
    # a string id pointing at string data at the very end of the file that lacks its terminator
    # (string data is read section-wise through the map: let the map's string data section start in a tail without a zero byte)
    moff = struct.unpack_from("<I", d, 0x34)[0]
    for tail in (b"\x03abc", b"\x05", b"\x7f" + b"x" * 300):
        b = bytearray(d + tail)
        for i in range(struct.unpack_from("<I", d, moff)[0]):
            e = moff + 4 + 12 * i
            if struct.unpack_from("<H", d, e)[0] == 0x2002:
                struct.pack_into("<II", b, e + 4, 1, len(d))
        out.append(("dex", bytes(b), "crafted:unterminated-string-at-end-of-file"))
    b = bytearray(d)
    tail = bytes(x or 1 for x in b[last + 1:])
    out.append(("dex", bytes(b[:last + 1]) + tail, "crafted:no-zero-behind-last-string"))
    # a hidden-api section (another variant of the format with a loop of its own) whose declared size reaches past the end of the file
    for extra in (0, 4, 8, 1000, 0x7FFFFFF0):
        out.append(("dex", with_hiddenapi(d, declared_extra=extra), "crafted:hiddenapi-size+%d" % extra))
    out.append(("dex", with_hiddenapi(d, body=b"\x80" * 40), "crafted:hiddenapi-unterminated-flags"))
    # binary XML whose names are long runs of valid name characters with an invalid one at the end / in the middle / dotted:
    # the time to clean a name up must not depend on where the invalid character sits (no event budget sees a regular
    # expression backtracking: these inputs are bounded by the wall-clock alarm only)
    from ..axmlgen import Axml
    for label, nm in (("run+bad", "a" * 64 + "!"), ("long-run+bad", "b" * 300 + "?"), ("dotted+bad", "a.b-c_d" * 12 + "#"), ("bad+run", "!" + "c" * 200),
                      ("alternating", "a!" * 60)):
        for where in ("tag", "attribute"):
            doc = dict(tag=nm if where == "tag" else "x", ns=None, children=[],
                       attrs=[dict(name=nm if where == "attribute" else "y", ns=None, resid=None, type=3, value="v")])
            out.append(("axml", Axml(doc, [], False).build(), "crafted:name-%s-%s" % (label, where)))
    for off, nm in ((0x38, "string_ids_size"), (0x40, "type_ids_size"), (0x48, "proto_ids_size"), (0x50, "field_ids_size"), (0x58, "method_ids_size"), (0x60, "class_defs_size")):
        for v in (0xFFFFFFFF, 0x7FFFFFFF, 0x00FFFFFF):
            b = bytearray(d)
            struct.pack_into("<I", b, off, v)
            out.append(("dex", bytes(b), "crafted:huge-%s" % nm))
    return out


def run(chk):
    quick = chk.tier == "quick"
    rnd = random.Random(chk.seed)
    for cfg in (["ChunkWalk_quick.cfg"] if quick else ["ChunkWalk_quick.cfg", "ChunkWalk_thorough.cfg"]):
        r = tlc.check_model("ChunkWalk", cfg, timeout=3000, heap="8g")
        chk.model(r, "ChunkWalk/" + cfg)
    ru = tlc.run("ChunkWalk", "ChunkWalk_anysize.cfg", timeout=600)
    chk.extra["counterexample_walker_accepting_any_declared_size"] = any("Bounded" in e or "Terminates" in e for e in ru.errors)
    if not chk.extra["counterexample_walker_accepting_any_declared_size"]:
        raise tlc.TLCError("ChunkWalk_anysize no longer yields its counterexample")
    n1 = replay_nullterm(chk, quick)
    n2 = replay_resheader(chk, quick)
    items = list(crafted())
    per = 40 if quick else 1500
    for parser, data, name in seeds(rnd):
        items += mutants(parser, data, name, rnd, per)
    # a DEX file is rejected early unless its checksum fits: recompute it for the crafted files and for 3 of 4 mutants
    from ..dexgen import fix
    for i, (p, d, name) in enumerate(items):
        if p == "dex" and len(d) >= 0x70 and (name.startswith("crafted") or i % 4):
            items[i] = (p, bytes(fix(bytearray(d))), name + "+checksum")
    results = parserun.run_many([(p, d) for p, d, _ in items], workers=14)
    recs = []
    for (p, d, name), r in zip(items, results):
        recs.append(dict(parser=p, size=len(d), calls=r["calls"], outcome=r["outcome"]))
    res = tlc.validate("ParseRun_Trace", "ParseRun_Trace.cfg", recs, shards=8)
    chk.trace_result(res, "ParseRun_Trace")
    import os
    for gi, why in res["rejects"]:
        p, d, name = items[gi]
        cl = "+".join(sorted(w.split(".", 1)[1] for w in why[0]))
        from ..core import REPLAY
        path = os.path.join(REPLAY, "C35_input_%s_%d.bin" % (chk.tier, gi))
        os.makedirs(REPLAY, exist_ok=True)
        with open(path, "wb") as fh:
            fh.write(d)
        kind = name.split(":", 1)[1].split("@")[0].split("+")[0]
        chk.violation("%s:%s:%s" % (p, cl, kind if kind.startswith("crafted") or kind.startswith("unterminated") else "mutant"), "ParseRun_Trace:" + cl,
                      dict(parser=p, input=name, size=len(d), result=results[gi], file=path))
    ok = [r for r in results if r["outcome"] in ("result", "error")]
    chk.extra["max_calls_per_byte"] = round(max((r["calls"] / max(1, len(items[i][1])) for i, r in enumerate(results) if r["calls"] > 0), default=0), 1)
    chk.extra["outcomes"] = {k: sum(1 for r in results if r["outcome"] == k) for k in ("result", "error", "budget", "timeout", "died")}
    chk.bounds = dict(nullterm="lengths around the 128-byte chunk boundaries x 5 start offsets x every position of the first zero byte (thorough: all lengths 0..400, every 7th state)",
                      resheader="every buffer of 7..9 (10) bytes over {0,1,8(,16)} x 3 start offsets (strided)", chunkwalk="all acceptable/size assignments on 6 (8) positions",
                      parsers="%d inputs: %d mutants (truncation, byte, 32-bit word, fill) of each of 13 seed files (DEX, AXML, ARSC, APK) + %d crafted DEX files" % (len(items), per, len(crafted())),
                      budget="call events <= BASE + PER_BYTE * size, see spec/ParseRun_Trace.tla")
    chk.sample(dict(input=items[0][2], result=results[0]))
    bad = dict(recs[0], outcome="timeout")
    st = tlc.validate("ParseRun_Trace", "ParseRun_Trace.cfg", [bad], shards=1)
    if not st["rejects"]:
        raise tlc.TLCError("binding self-test failed")
    chk.extra["self_test_rejected"] = True
    chk.assumptions += ["work is measured in Python call events (sys.setprofile), which every loop iteration of the parsers produces (each reads from the buffer)",
                        "the budget is linear in the input size with a factor ~1000x above what intact files need; wall-clock alarm of %d s per input as a backstop" % parserun.ALARM_S]
