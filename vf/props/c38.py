"""C38 clean file names: spec CleanName / CleanNameMC / CleanName_Trace."""
import os
import random
import shutil

from .. import tlc

CH = dict(reserved='<>:"|?*', control="".join(chr(c) for c in range(1, 32)), sep="\\", space=" ", dot=".", plain="abcXYZ019-_é中")
RESERVED = set('<>:"/\\|?*')


def classify(ch):
    if ch in "/\\":
        return "sep"
    if ch in RESERVED:
        return "reserved"
    if ord(ch) < 32:
        return "control"
    if ch == " ":
        return "space"
    if ch == ".":
        return "dot"
    return "plain"


def rle(name):
    out = []
    for ch in name:
        c = classify(ch)
        if out and out[-1][0] == c:
            out[-1][1] += 1
        else:
            out.append([c, 1])
    return out


def concretise(runs, rnd):
    s = []
    for cls, n in runs:
        pool = CH[cls]
        s.append("".join(pool[(k * 7 + len(s)) % len(pool)] for k in range(n)))
    return "".join(s)


def call(misc, d, name, unique, existing=()):
    """-> trace record"""
    for e in existing:
        p = os.path.join(d, e)
        try:
            if not os.path.exists(p):
                open(p, "w").close()
        except (OSError, ValueError):
            pass
    path = os.path.join(d, name)
    rec = dict(inlen=len(name), unique=unique, raised=False, out=[], samedir=True, exists=False, outname="")
    try:
        res = misc.clean_file_name(path, unique=unique)
    except Exception as e:
        rec["raised"] = True
        rec["error"] = repr(e)[:200]
        return rec
    dn, fn = os.path.split(res)
    rec["out"] = rle(res[len(d) + 1:]) if res.startswith(d + os.sep) else rle(fn)
    rec["samedir"] = os.path.normpath(dn) == os.path.normpath(d) and res.startswith(d + os.sep) and "/" not in res[len(d) + 1:]
    try:
        rec["exists"] = os.path.isfile(res)
    except ValueError:
        rec["exists"] = False
    rec["outname"] = fn[:80]
    return rec


def shape(name, rec, unique):
    parts = []
    n = len(name)
    parts.append("len<=230" if n <= 230 else "len>230")
    if "." in name:
        ext = name.rsplit(".", 1)[1]
        parts.append("ext>=229" if len(ext) >= 229 else ("ext-long" if len(ext) > 20 else "ext-short"))
    else:
        parts.append("no-ext")
    if unique:
        parts.append("unique-collision" if rec.get("collide") else "unique")
    return ":".join(parts)


def run(chk):
    from androguard import misc
    quick = chk.tier == "quick"
    rnd = random.Random(chk.seed)
    cfg = "CleanNameMC_quick.cfg" if quick else "CleanNameMC_thorough.cfg"
    stride = (10, chk.seed) if quick else (25, chk.seed)
    chk.bounds = dict(cfg=cfg, replay_stride=stride[0], classes="reserved, control, separator, space, dot, plain", lengths="runs of 1,2,3,227..231,300; random 0..600")
    r, states = tlc.dump_states("CleanNameMC", cfg, only={"runs"}, stride=stride, timeout=3000, heap="6g")
    chk.model(r, "CleanNameMC/" + cfg + " (the predicates are satisfiable: reference cleaner)")
    work = tlc.scratch_dir("c38_")
    recs, names = [], []
    try:
        d = os.path.join(work, "d")
        os.makedirs(d)
        for st in states:
            runs = [(c, n) for (c, n) in st["runs"]]
            name = concretise(runs, rnd)
            for unique in (False, True):
                rec = call(misc, d, name, unique)
                recs.append(rec)
                names.append(name)
        n_s2c = len(recs)
        # collisions: the cleaned name (and its first counter variants) already exist
        for st in states[::7]:
            runs = [(c, n) for (c, n) in st["runs"]]
            name = concretise(runs, rnd)
            base = call(misc, d, name, False)
            if base["raised"] or not base["samedir"]:
                continue
            fn = base["outname"]
            full = misc.clean_file_name(os.path.join(d, name), unique=False)
            fn = os.path.basename(full)
            existing = [fn]
            if "." in fn:
                f, ext = fn.rsplit(".", 1)
                existing += ["%s_%d.%s" % (f, k, ext) for k in range(2)]
            else:
                existing += ["%s_%d" % (fn, k) for k in range(2)]
            existing = [e for e in existing if len(e) < 250 and "\x00" not in e]
            rec = call(misc, d, name, True, existing)
            rec["collide"] = True
            recs.append(rec)
            names.append(name)
        # random names
        alphabet = list(CH["reserved"]) + list(CH["control"]) + ["\\", " ", ".", ".", " "] + list(CH["plain"]) * 3
        for _ in range(1500 if quick else 40000):
            n = rnd.choice([0, 1, 2, 5, 20, 100, 228, 229, 230, 231, 232, 255, 300, 600, rnd.randrange(0, 600)])
            name = "".join(rnd.choice(alphabet) for _ in range(n))
            if rnd.random() < 0.4 and n > 3:
                k = rnd.choice([1, 3, 4, 10, n // 2, max(1, n - 2)])
                name = name[:n - k - 1] + "." + "".join(rnd.choice(CH["plain"]) for _ in range(k))
            if rnd.random() < 0.15:        # names beginning like a DOS device name get a character appended: the length bound holds for them too
                dev = rnd.choice(["CON", "PRN", "AUX", "NUL", "COM1", "LPT9", "CONTENTS", "nul", "COM0"])
                name = (dev + name)[:max(n, len(dev))] if rnd.random() < 0.7 else dev + rnd.choice(["", ".txt", " ", "."])
            sub = rnd.choice(["", "sub dir", "x.y"])
            dd = os.path.join(d, sub) if sub else d
            os.makedirs(dd, exist_ok=True)
            rec = call(misc, dd, name, rnd.random() < 0.5)
            recs.append(rec)
            names.append(name)
    finally:
        shutil.rmtree(work, ignore_errors=True)
    send = [dict(out=r_["out"], samedir=r_["samedir"], unique=r_["unique"], exists=r_["exists"], raised=r_["raised"]) for r_ in recs]
    res = tlc.validate("CleanName_Trace", "CleanName_Trace.cfg", send, shards=16, heap="2g")
    chk.trace_result(res, "CleanName_Trace")
    chk.c2s -= res["accepted"]
    chk.s2c += n_s2c
    chk.c2s += len(recs) - n_s2c
    for gi, why in res["rejects"]:
        rec = recs[gi]
        cl = "+".join(sorted(w.split(".", 1)[1] for w in why[0]))
        chk.violation("%s:%s" % (cl, shape(names[gi], rec, rec["unique"])), "CleanName_Trace:" + cl,
                      dict(input_rle=rle(names[gi])[:8], input_len=len(names[gi]), result_rle=rec["out"][:8], result_len=sum(x[1] for x in rec["out"]), unique=rec["unique"],
                           error=rec.get("error")))
    chk.sample(dict(input_rle=rle(names[5]), result_rle=recs[5]["out"], unique=recs[5]["unique"]), cap=3)
    rejected = {i for i, _ in res["rejects"]}
    k = next((i for i in range(len(send)) if i not in rejected and send[i]["out"]), None)
    if k is not None:
        bad = dict(send[k], out=send[k]["out"] + [["dot", 1]])
        st = tlc.validate("CleanName_Trace", "CleanName_Trace.cfg", [bad], shards=1)
        if not st["rejects"]:
            raise tlc.TLCError("binding self-test failed")
        chk.extra["self_test_rejected"] = True
    chk.assumptions += ["control characters = U+0000..U+001F (the Windows rule the function cites); U+0000 itself is not generated in directory parts",
                        "'at most 230 characters' is measured on the file-name part of the result"]
