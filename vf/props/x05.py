"""X05 (extension, not a listed property): APK.get_app_icon: spec IconSelect / IconSelectMC / IconSelect_Trace."""
import io
import random
import re
import zipfile

from .. import tlc
from ..arscgen import Arsc, TYPE_STRING
from ..axmlgen import Axml
from . import c31

ICON = 0x01010002
KEYS = dict(activity=("drawable", 0, "acticon"), application=("drawable", 1, "appicon"), drawable=("drawable", 2, "ic_launcher"), mipmap=("mipmap", 0, "ic_launcher"))
RESID = dict(activity=0x7f010000, application=0x7f010001, drawable=0x7f010002, mipmap=0x7f020000)


def build_apk(defined, cands, relative=False):
    """defined: set of sources naming an icon; cands: densities of every icon resource in table order;
    relative: the activity is named '.Main' (relative to the package) and not 'com.x.Main'"""
    def cfgs(tname):
        out = []
        for d in cands:
            ents = {}
            for src, (t, idx, _k) in KEYS.items():
                if t == tname:
                    ents[idx] = ("simple", TYPE_STRING, "res/%s-%d.png" % (src, d))
            out.append(dict(locale=None, density=d, flags=set(), entries=ents))
        return out
    dkeys = ["acticon", "appicon", "ic_launcher" if "drawable" in defined else "other"]
    mkeys = ["ic_launcher" if "mipmap" in defined else "other"]
    table = dict(packages=[dict(id=0x7f, name="com.x", types=[dict(name="drawable", keys=dkeys, configs=cfgs("drawable")), dict(name="mipmap", keys=mkeys, configs=cfgs("mipmap"))])])
    m = dict(pkg=["com", "x"], vcode=1, vname="1", perms=[], features=[], libraries=[], svcs=[], rcvs=[], prvs=[], minsdk=21, target=0,
             acts=[dict(name=dict(lead=True, segs=["Main"]) if relative else dict(lead=False, segs=["com", "x", "Main"]), enabled=True, main=True, launcher=True)])
    doc = c31.manifest_doc(m)
    app = next(c for c in doc["children"] if c["tag"] == "application")
    if "application" in defined:
        app["attrs"].append(dict(name="icon", ns=c31.U, resid=ICON, type=1, data=RESID["application"]))
    if "activity" in defined:
        act = next(c for c in app["children"] if c["tag"] == "activity")
        act["attrs"].append(dict(name="icon", ns=c31.U, resid=ICON, type=1, data=RESID["activity"]))
    bio = io.BytesIO()
    with zipfile.ZipFile(bio, "w", zipfile.ZIP_DEFLATED) as z:
        z.writestr("AndroidManifest.xml", Axml(doc, [("android", c31.U)], False).build())
        z.writestr("resources.arsc", Arsc(table).build())
        z.writestr("classes.dex", b"dex\n035\0" + b"\0" * 104)
    return bio.getvalue()


def observe(a, maxdpi):
    got = a.get_app_icon(max_dpi=maxdpi)
    if got is None:
        return "none", -1
    m = re.match(r"res/(\w+)-(\d+)\.png$", got)
    return (m.group(1), int(m.group(2))) if m else ("?" + str(got), -2)


def run(chk):
    from androguard.core import apk
    quick = chk.tier == "quick"
    rnd = random.Random(chk.seed)
    r, states = tlc.dump_states("IconSelectMC", "IconSelectMC.cfg", timeout=900, only={"defined", "cands", "maxdpi", "pc", "i", "source"}, keep_if='"activity"')
    chk.model(r, "IconSelectMC")
    init = sorted({(tuple(sorted(st["defined"])), tuple(st["cands"]), st["maxdpi"]) for st in states if st["pc"] == "activity" and st["i"] == 1 and st["source"] == "none"})
    del states
    by_apk = {}
    for d, c, mx in init:
        by_apk.setdefault((d, c), []).append(mx)
    keys = sorted(by_apk)
    if quick:
        keys = [k for n, k in enumerate(keys) if (n + chk.seed) % 4 == 0]
    recs = []
    for n, (d, c) in enumerate(keys):
        rel = n % 2 == 1
        a = apk.APK(build_apk(set(d), list(c), rel), raw=True)
        for mx in by_apk[(d, c)]:
            src, pick = observe(a, mx)
            recs.append(dict(defined=list(d), cands=list(c), maxdpi=mx, source=src, pick=pick, relative=rel))
    n_s2c = len(recs)
    chk.replayed(n_s2c)
    dens = [0, 120, 160, 213, 240, 320, 480, 640, 65534, 65535]
    for _ in range(60 if quick else 1500):                  # all documented densities, shuffled table order, arbitrary max_dpi
        c = rnd.sample(dens, rnd.randrange(0, 8))
        d = set(rnd.sample(["activity", "application", "mipmap", "drawable"], rnd.randrange(0, 5)))
        rel = rnd.random() < 0.5
        a = apk.APK(build_apk(d, c, rel), raw=True)
        for mx in (rnd.choice(dens), rnd.randrange(0, 700), 65536):
            src, pick = observe(a, mx)
            recs.append(dict(defined=sorted(d), cands=c, maxdpi=mx, source=src, pick=pick, relative=rel))
    res = tlc.validate("IconSelect_Trace", "IconSelect_Trace.cfg", recs, shards=8)
    chk.trace_result(res, "IconSelect_Trace")
    chk.c2s -= res["accepted"]
    chk.c2s += len(recs) - n_s2c
    for gi, why in res["rejects"]:
        rec = recs[gi]
        cl = "+".join(sorted(w.split(".", 1)[1] for w in why[0]))
        chk.violation("%s:%s:%s" % (cl, "no-source" if not rec["defined"] else "first-source-" + min(rec["defined"], key=["activity", "application", "mipmap", "drawable"].index),
                                    "activity-named-relative-to-package" if rec["relative"] else "activity-named-in-full"),
                      "IconSelect_Trace:" + cl, dict(record=rec, specification=list(why[1])))
    rejected = {i for i, _ in res["rejects"]}
    j = next((i for i in range(len(recs)) if i not in rejected and recs[i]["pick"] > 0), None)
    if j is not None:
        bad = dict(recs[j], pick=0 if 0 in recs[j]["cands"] else recs[j]["pick"] + 1)
        if not tlc.validate("IconSelect_Trace", "IconSelect_Trace.cfg", [bad], shards=1)["rejects"]:
            raise tlc.TLCError("binding self-test failed")
        chk.extra["self_test_rejected"] = True
    chk.bounds = dict(model="every combination of the four sources x every subset of {0, 160, 240, anydpi, nodpi} in ascending / descending / rotated table order x max_dpi in {100, 160, 200, 640, 65534, 65536}; quick builds every fourth archive",
                      random="all ten documented densities, shuffled order, arbitrary max_dpi")
    chk.sample(recs[len(recs) // 2])
    chk.assumptions += ["densities are compared as numbers (the first sentence of the docstring); the precedence of anydpi described further down in the docstring is not modelled",
                        "one configuration per density (no two files of equal density)"]
