"""C25 short-circuit conditions: spec ShortCircuit / ShortCircuit_Trace."""
import itertools
import random
import re

from .. import tlc


class Ins:
    """a single comparison 'v<k>' whose neg() toggles a flag, printed as !v<k> when negated"""

    def __init__(self, v):
        self.v, self.negated = v, False

    def neg(self):
        self.negated = not self.negated

    def visit(self, w):
        w.write(("!" if self.negated else "") + "v%d" % self.v)

    def get_lhs(self):
        return None

    def get_used_vars(self):
        return []


def parse(text):
    """printed condition -> tree ["var", v, neg] | ["not", x] | ["and"|"or", l, r]"""
    toks = re.findall(r"\(|\)|&&|\|\||!|v\d+", text)
    if "".join(toks) != text.replace(" ", ""):
        raise ValueError("unexpected text %r" % text)
    pos = [0]

    def peek():
        return toks[pos[0]] if pos[0] < len(toks) else None

    def eat(t=None):
        x = peek()
        if t is not None and x != t:
            raise ValueError("expected %s at %d in %r" % (t, pos[0], text))
        pos[0] += 1
        return x

    def unary():
        if peek() == "!":
            eat()
            x = unary()
            return ["var", x[1], not x[2]] if x[0] == "var" else ["not", x]
        if peek() == "(":
            eat("(")
            x = orx()
            eat(")")
            return x
        t = eat()
        return ["var", int(t[1:]), False]

    def andx():
        x = unary()
        while peek() == "&&":
            eat()
            x = ["and", x, unary()]
        return x

    def orx():
        x = andx()
        while peek() == "||":
            eat()
            x = ["or", x, andx()]
        return x
    r = orx()
    if pos[0] != len(toks):
        raise ValueError("trailing tokens in %r" % text)
    return r


def run_chain(k, succ, negate=()):
    """succ: {i: (t, f)} with targets in 1..k or exits >= 100 -> record for the trace spec"""
    from androguard.decompiler.basic_blocks import CondBlock, StatementBlock
    from androguard.decompiler.control_flow import short_circuit_struct
    from androguard.decompiler.graph import Graph
    from androguard.decompiler.writer import Writer
    g = Graph()
    nodes = {}
    for i in range(1, k + 1):
        nodes[i] = CondBlock("c%d" % i, [Ins(i)])
    exits = sorted({t for p in succ.values() for t in p if t >= 100})
    for e in exits:
        nodes[e] = StatementBlock("x%d" % e, [])
    for n in nodes.values():
        g.add_node(n)
    for i, (t, f) in succ.items():
        nodes[i].true, nodes[i].false = nodes[t], nodes[f]
        g.add_edge(nodes[i], nodes[t])
        g.add_edge(nodes[i], nodes[f])
    g.entry = nodes[1]
    g.compute_rpo()
    idom = g.immediate_dominators()
    node_map = {}
    short_circuit_struct(g, idom, node_map)
    conds = [n for n in g.nodes if n.type.is_cond]
    ident = {id(n): j + 1 for j, n in enumerate(conds)}
    for n in nodes.values():
        if not n.type.is_cond:
            ident[id(n)] = int(n.name[1:])
    # the writer may negate a condition and swap its branches (visit_cond_node); do so for the requested nodes
    for j, n in enumerate(conds):
        if j in negate:
            n.neg()
            n.true, n.false = n.false, n.true
    merged = []
    for n in conds:
        w = Writer.__new__(Writer)
        buf = []
        w.write = lambda s, data=None, buf=buf: buf.append(s)
        w.write_ext = lambda t: None
        w.visit_ins = lambda ins, w=w: ins.visit(w)
        n.visit_cond(w)
        text = "".join(buf)
        merged.append([ident[id(n)], parse(text), ident.get(id(n.true), -1), ident.get(id(n.false), -1), text])
    return dict(k=k, succ=[list(succ[i]) for i in range(1, k + 1)], merged=[m[:4] for m in merged], entry=ident[id(g.entry)], text=[m[4] for m in merged],
                negated=sorted(negate))


def chains(k, exits=(101, 102, 103)):
    """all chain graphs: successors of node i are later nodes or exits; every node reachable from node 1"""
    choices = []
    for i in range(1, k + 1):
        tg = list(range(i + 1, k + 1)) + list(exits)
        choices.append(list(itertools.product(tg, tg)))
    for combo in itertools.product(*choices):
        succ = {i + 1: combo[i] for i in range(k)}
        seen, todo = {1}, [1]
        while todo:
            x = todo.pop()
            for y in succ.get(x, ()):
                if y <= k and y not in seen:
                    seen.add(y)
                    todo.append(y)
        if len(seen) == k:
            yield succ


def run(chk):
    quick = chk.tier == "quick"
    rnd = random.Random(chk.seed)
    chk.bounds = dict(model="all chain graphs of 2 and 3 conditional nodes over 3 exits; every sequence of the four merge rules and of writer-time negations",
                      replay="the same graphs (and 4-node chains in thorough) through short_circuit_struct + Writer, with every subset of nodes negated while writing")
    inits = {}
    for k in (2, 3):
        r = tlc.run("ShortCircuit", "ShortCircuit_%d.cfg" % k, coverage=True, timeout=3000, heap="6g")
        if not r.ok:
            verdicts = [e for e in r.errors if "violated" in e]
            if not verdicts:
                raise tlc.TLCError("ShortCircuit model failed: %s\n%s" % (r.errors[:3], r.stdout[-2000:]))
            raise tlc.TLCError("the ShortCircuit model itself violates %s" % verdicts)
        for a in ("MergeRules", "NegNode"):
            if r.coverage.get(a, 0) == 0:
                raise tlc.TLCError("vacuity: %s never taken" % a)
        chk.model(r, "ShortCircuit K=%d" % k)
    # the initial states of the model are exactly the chain graphs: cross-check the harness' enumeration with TLC's count
    r2, st2 = tlc.dump_states("ShortCircuit", "ShortCircuit_2.cfg", only={"G", "G0"}, timeout=3000)
    n_init_2 = sum(1 for s in st2 if s["G"] == s["G0"] and len(s["G"]) == 2 and all(dict(v)["expr"]["k"] == "leaf" and not dict(v)["expr"]["neg"] for v in _vals(s["G"])))
    recs = []
    ks = (2, 3) if quick else (2, 3, 4)
    count2 = 0
    for k in ks:
        for succ in chains(k):
            if k == 2:
                count2 += 1
            base = run_chain(k, succ)
            recs.append(base)
            nm = len(base["merged"])
            subsets = [s for n in range(1, nm + 1) for s in itertools.combinations(range(nm), n)]
            if k == 4 or quick:
                subsets = rnd.sample(subsets, min(2, len(subsets)))
            for s in subsets:
                recs.append(run_chain(k, succ, s))
    if count2 != n_init_2:
        raise tlc.TLCError("harness enumerates %d two-node chains, the model has %d initial states" % (count2, n_init_2))
    chk.replayed(len(recs))
    res = tlc.validate("ShortCircuit_Trace", "ShortCircuit_Trace.cfg", [{k: v for k, v in r_.items() if k not in ("text", "negated")} for r_ in recs],
                       shards=16, heap="2g", timeout=3000)
    chk.trace_result(res, "ShortCircuit_Trace")
    chk.c2s = 0
    for gi, why in res["rejects"]:
        rec = recs[gi]
        shape = "k%d:%s" % (rec["k"], "negated-while-writing" if rec["negated"] else "as-merged")
        chk.violation("chain:" + shape, "ShortCircuit_Trace", dict(succ=rec["succ"], printed=rec["text"], merged=rec["merged"], negated=rec["negated"]))
    ex = next(r_ for r_ in recs if r_["k"] == 3 and len(r_["merged"]) == 1)
    chk.sample(dict(succ=ex["succ"], printed=ex["text"], true_false=[m[2:] for m in ex["merged"]]), cap=3)
    rejected = {i for i, _ in res["rejects"]}
    k = next((i for i in range(len(recs)) if i not in rejected and len(recs[i]["merged"]) == 1 and recs[i]["merged"][0][2] != recs[i]["merged"][0][3]), None)
    if k is not None:
        bad = {kk: v for kk, v in recs[k].items() if kk not in ("text", "negated")}
        m = list(bad["merged"][0])
        m[2], m[3] = m[3], m[2]
        bad["merged"] = [m]
        st = tlc.validate("ShortCircuit_Trace", "ShortCircuit_Trace.cfg", [bad], shards=1)
        if not st["rejects"]:
            raise tlc.TLCError("binding self-test failed")
        chk.extra["self_test_rejected"] = True
    chk.assumptions += ["conditions are mock comparisons whose neg() toggles a flag (as IR conditions do); the printed text is parsed with Java's precedence of !, &&, ||",
                        "chain graphs: successors are later condition nodes or exits (acyclic)"]


def _vals(f):
    return f.values() if isinstance(f, dict) else f
