"""C39 API-level fallback: spec ApiLevels / ApiLevels_Trace."""
import json
import os
import re

from .. import tlc


def level_files(sub):
    import androguard.core.api_specific_resources as m
    root = os.path.join(os.path.dirname(os.path.realpath(m.__file__)), sub)
    out = {}
    for f in os.listdir(root):
        mm = re.match(r"^permissions_(\d+)\.json$", f)
        if mm:
            with open(os.path.join(root, f)) as fp:
                out[int(mm.group(1))] = json.load(fp)
    return out


def run(chk):
    from androguard.core import androconf
    from androguard.core import api_specific_resources as asr
    default = androconf.CONF["DEFAULT_API"]
    perm = level_files("aosp_permissions")
    maps = level_files("api_permission_mappings")
    chk.bounds = dict(model="every non-empty set of levels within 1..8, every request in -2..10", requests="-5..100 as int and as str",
                      available_permission_levels=sorted(perm), available_mapping_levels=sorted(maps), default=default)
    r = tlc.check_model("ApiLevels", "ApiLevels.cfg", need_actions=("Hop",), timeout=600)
    chk.model(r, "ApiLevels (fallback chain = Pick, at most one re-request, terminates)")
    recs = []

    def same(a, b):
        return a == b
    for req in range(-5, 101):
        for asstr in (False, True):
            arg = str(req) if asstr else req
            for permtype in ("permissions", "groups"):
                try:
                    got = asr.load_permissions(arg, permtype)
                    lv = [k for k, v in perm.items() if same(v[permtype], got)]
                except Exception as e:
                    lv = []
                recs.append(dict(kind="permissions", api="load_permissions-" + permtype, levels=sorted(perm), req=req, asstr=asstr, default=default, got=lv))
            try:
                got = androconf.load_api_specific_resource_module("aosp_permissions", arg)
                lv = [k for k, v in perm.items() if same(v["permissions"], got)]
            except Exception:
                lv = []
            recs.append(dict(kind="permissions", api="load_api_specific_resource_module", levels=sorted(perm), req=req, asstr=asstr, default=default, got=lv))
            try:
                got = androconf.load_api_specific_resource_module("api_permission_mappings", arg)
                lv = [k for k, v in maps.items() if same(v, got)]
            except Exception:
                lv = []
            recs.append(dict(kind="mappings", api="load_api_specific_resource_module", levels=sorted(maps), req=req, asstr=asstr, default=default, got=lv))
    res = tlc.validate("ApiLevels_Trace", "ApiLevels_Trace.cfg", recs, shards=4)
    chk.trace_result(res, "ApiLevels_Trace")
    for gi, why in res["rejects"]:
        rec = recs[gi]
        where = "inside" if min(rec["levels"]) <= rec["req"] <= max(rec["levels"]) else "outside"
        zero = "zero" if rec["req"] == 0 else "nonzero"
        chk.violation("%s:%s:%s:%s:%s" % (rec["kind"], rec["api"], "str" if rec["asstr"] else "int", zero, where), "ApiLevels_Trace", rec)
    chk.sample(recs[0])
    chk.sample(next(r_ for r_ in recs if r_["req"] == 12 and r_["kind"] == "permissions"))
    bad = dict(recs[40], got=[999])
    st = tlc.validate("ApiLevels_Trace", "ApiLevels_Trace.cfg", [bad], shards=1)
    if not st["rejects"]:
        raise tlc.TLCError("binding self-test failed")
    chk.extra["self_test_rejected"] = True
    chk.assumptions += ["the loaded data are identified with the level file(s) of equal content"]
