"""C17 renaming: spec Rename (RenameDict + RenameHook) / Rename_Trace."""
import random

from .. import tlc
from ..dexgen import Dex

KNOWN = "C17:hook-keyed-by-string-id:name-leaks-to-items-sharing-the-string"


def universe():
    code = [("const-string", 0, "foo"), ("const-string", 0, "La/A;"), ("return-void",)]
    rv = dict(regs=1, ins=0, outs=0, insns=[("return-void",)])
    a = dict(name="La/A;", super="Ljava/lang/Object;", flags=1, sfields=[("foo", "I", 9)], ifields=[],
             dmethods=[dict(name="foo", ret="V", params=[], flags=9, code=rv),
                       dict(name="bar", ret="V", params=[], flags=9, code=dict(regs=1, ins=0, outs=0, insns=code))], vmethods=[])
    b = dict(name="Lb/B;", super="Ljava/lang/Object;", flags=1, sfields=[], ifields=[],
             dmethods=[dict(name="foo", ret="V", params=[], flags=9, code=rv)], vmethods=[])
    return Dex([a, b]).build()


class Tracked:
    """the tracked items of one fresh DEX object: objects, kinds, string ids, original names"""

    def __init__(self, d, items, cls=None):
        self.d = d
        self.items = items           # list of (kind, object, sid, original)
        self.cls = cls               # (given when the items must not be queried before the first operation)

    def begin(self):
        """the first record of a history: string ids, kinds, and for members the index of their (tracked) class"""
        class_idx = {it[3]: k + 1 for k, it in enumerate(self.items) if it[0] == "class"}
        cls = self.cls or [class_idx.get(it[1].get_class_name(), 0) if it[0] in ("method", "field") else 0 for it in self.items]
        return dict(op="begin", item=0, name=0, obs=[], sid=[it[2] for it in self.items], kinds=[it[0] for it in self.items], cls=cls, err="")

    def name_for(self, kind, n):
        return "Ln/N%d;" % n if kind == "class" else "x%d" % n

    def observe(self):
        out = []
        for kind, obj, sid, orig in self.items:
            try:
                v = obj.get_string() if kind == "const" else obj.get_name()
            except Exception as e:
                v = "<exception %s>" % type(e).__name__
            if v == orig:
                out.append(0)
            elif isinstance(v, str) and v.startswith("Ln/N") and v.endswith(";") and v[4:-1].isdigit():
                out.append(int(v[4:-1]))
            elif isinstance(v, str) and v.startswith("x") and v[1:].isdigit():
                out.append(int(v[1:]))
            else:
                out.append(-1)
        return out

    def apply(self, op, i, n):
        kind, obj, sid, orig = self.items[i - 1]
        try:
            if op == "rename":
                obj.set_name(orig if n == 0 else self.name_for(kind, n))      # 0: back to the original name
            else:
                obj.reload()
            return None
        except Exception as e:
            return repr(e)


def untouched_twin(dex, raw, t):
    """the same items of a second DEX object, located by position only: no accessor has been called on them before the first
    operation of the history (members are loaded lazily; a rename can be the first thing that happens to an item)"""
    d1, d2 = t.d, dex.DEX(raw)
    if getattr(d1, "_vf_exported", False):
        d2.create_python_export()
        d2._vf_exported = True

    def pos(lst, o):
        return next(k for k, x in enumerate(lst) if x is o)
    ms1, fs1, cs1 = list(d1.get_encoded_methods()), list(d1.get_encoded_fields()), list(d1.get_classes())
    ms2, fs2, cs2 = list(d2.get_encoded_methods()), list(d2.get_encoded_fields()), list(d2.get_classes())
    cls = t.begin()["cls"]
    items = []
    for kind, obj, sid, orig in t.items:
        if kind == "method":
            items.append((kind, ms2[pos(ms1, obj)], sid, orig))
        elif kind == "field":
            items.append((kind, fs2[pos(fs1, obj)], sid, orig))
        elif kind == "class":
            items.append((kind, cs2[pos(cs1, obj)], sid, orig))
        else:
            owner = next(m for m in ms1 if any(i is obj for i in m.get_instructions()))
            k = pos(list(owner.get_instructions()), obj)
            items.append((kind, list(ms2[pos(ms1, owner)].get_instructions())[k], sid, orig))
    return Tracked(d2, items, cls=cls)


def fresh_universe(dex, raw, export=False):
    d = dex.DEX(raw)
    if export:                       # the interactive shell's attribute export (Session(export_ipython=True)): renames also maintain those attributes
        d.create_python_export()
        d._vf_exported = True
    cm = d.get_class_manager()
    mA = d.get_encoded_method_descriptor("La/A;", "foo", "()V")
    mB = d.get_encoded_method_descriptor("Lb/B;", "foo", "()V")
    fA = d.get_encoded_field_descriptor("La/A;", "foo", "I")
    mC = d.get_encoded_method_descriptor("La/A;", "bar", "()V")
    cA, cB = d.get_class("La/A;"), d.get_class("Lb/B;")
    ks = [i for i in mC.get_instructions() if i.get_name() == "const-string"]
    items = [("method", mA, 1, "foo"), ("method", mB, 1, "foo"), ("field", fA, 1, "foo"), ("method", mC, 2, "bar"),
             ("class", cA, 3, "La/A;"), ("class", cB, 4, "Lb/B;"), ("const", ks[0], 1, "foo"), ("const", ks[1], 3, "La/A;")]
    return Tracked(d, items)


def shipped_universe(dex, raw, rnd, export=False):
    """tracked items of the shipped classes.dex: members sharing names, classes, const-strings equal to member names"""
    d = dex.DEX(raw)
    if export:
        d.create_python_export()
        d._vf_exported = True
    by_name = {}
    for m in d.get_encoded_methods():
        if not m.get_name().startswith("<"):
            by_name.setdefault(m.get_name(), []).append(("method", m))
    for f in d.get_encoded_fields():
        by_name.setdefault(f.get_name(), []).append(("field", f))
    shared = sorted(k for k, v in by_name.items() if len(v) >= 2)
    items = []
    strs = list(d.get_strings())
    sid_of = {s: i for i, s in enumerate(strs)}
    for name in rnd.sample(shared, min(4, len(shared))):
        for kind, obj in by_name[name][:3]:
            items.append((kind, obj, sid_of[name], name))
    singles = sorted(k for k, v in by_name.items() if len(v) == 1)
    for name in rnd.sample(singles, min(3, len(singles))):
        kind, obj = by_name[name][0]
        items.append((kind, obj, sid_of[name], name))
    for c in rnd.sample(list(d.get_classes()), 3):
        items.append(("class", c, sid_of[c.get_name()], c.get_name()))
    names = {it[3] for it in items}
    consts = 0
    for m in d.get_encoded_methods():
        if consts >= 3:
            break
        for ins in m.get_instructions():
            if ins.get_name() == "const-string" and ins.get_string() in names and consts < 3:
                items.append(("const", ins, sid_of[ins.get_string()], ins.get_string()))
                consts += 1
    return Tracked(d, items)


def run(chk):
    from androguard.core import dex
    quick = chk.tier == "quick"
    rnd = random.Random(chk.seed)
    raw = universe()
    cfg = "Rename_dict.cfg" if quick else "Rename_dict4.cfg"
    depth = 3 if quick else 4
    chk.bounds = dict(cfg=cfg, history_depth=depth, operations="rename x {6 items} x {2 names}, reload x {6 items}",
                      universe="A.foo(), B.foo(), A.foo:I, A.bar(), class A, class B, const-string \"foo\", const-string \"La/A;\"")
    r, states = tlc.dump_states("Rename", cfg, only={"hist", "truth"}, timeout=3000, heap="6g",
                                stride=None if quick else (5, chk.seed))
    chk.model(r, "Rename/" + cfg + " (dictionary model invariants; hook model only leaks through shared string ids)")
    rr = tlc.run("Rename", "Rename_refine.cfg", timeout=600)
    chk.extra["hook_model_refines_dictionary"] = rr.ok
    chk.extra["hook_model_counterexample_found"] = any("HookRefinesDict is violated" in e for e in rr.errors)
    leaves = [st for st in states if len(st["hist"]) == depth]
    del states
    recs, starts, want_final = [], [], []
    sid = None
    for k, st in enumerate(leaves):
        t = fresh_universe(dex, raw, export=(k % 3 == 2))
        if k % 2:
            t = untouched_twin(dex, raw, t)
        starts.append(len(recs))
        recs.append(t.begin())
        for (op, i, n) in st["hist"]:
            err = t.apply(op, i, n)
            recs.append(dict(op=op, item=i, name=n, obs=t.observe(), sid=[], err=err or ""))
        want_final.append(list(st["truth"]))
    chk.replayed(len(leaves))
    # S->C: final observation against the truth TLC computed for that history
    strict_fail_final = set()
    for k, st in enumerate(leaves):
        final = recs[starts[k] + depth]["obs"]
        if final != want_final[k]:
            strict_fail_final.add(starts[k] + depth)
    chk.sample(dict(history=[list(x) for x in leaves[0]["hist"]], spec_truth=want_final[0], observed=recs[starts[0] + depth]["obs"]), cap=2)
    n_model = len(recs)
    # C->S: long random histories on the generated universe and on the shipped classes.dex
    shipped = open("/repo/tests/data/APK/classes.dex", "rb").read()
    for h in range(30 if quick else 600):
        t = fresh_universe(dex, raw, export=(h % 3 == 1)) if h % 2 == 0 else shipped_universe(dex, shipped, rnd, export=(h % 3 == 1))
        if h % 4 >= 2:
            t = untouched_twin(dex, raw if h % 2 == 0 else shipped, t)
        starts.append(len(recs))
        recs.append(t.begin())
        ren = [i + 1 for i, it in enumerate(t.items) if it[0] != "const"]
        for _ in range(rnd.randrange(3, 25)):
            i = rnd.choice(ren)
            if rnd.random() < 0.6:
                op, n = "rename", rnd.randrange(0, 6)
            else:
                op, n = "reload", 0
            err = t.apply(op, i, n)
            recs.append(dict(op=op, item=i, name=n, obs=t.observe(), sid=[], err=err or ""))
    res = tlc.validate("Rename_Trace", "Rename_Trace.cfg", recs, shards=16, boundary=lambda r: r["op"] == "begin", heap="3g", timeout=3000)
    chk.trace_result(res, "Rename_Trace")
    chk.c2s = len(starts) - len(leaves)
    chk.extra["events_validated"] = len(recs)
    rejected = {}
    for gi, why in res["rejects"]:
        rejected[gi] = (set(why[0]), set(why[1]))
    # the two oracles must agree on the final observation of every enumerated history
    for gi in strict_fail_final:
        if gi not in rejected:
            raise tlc.TLCError("oracles disagree: TLC truth differs from observation at record %d but Rename_Trace accepted it" % gi)
    for gi, (wrong, unexplained) in sorted(rejected.items()):
        rec = recs[gi]
        src = "model" if gi < n_model else "random"
        if wrong - unexplained:
            chk.violation(KNOWN, "Rename_Trace: observed name differs from the dictionary model",
                          dict(source=src, event=dict(op=rec["op"], item=rec["item"], name=rec["name"]), observed=rec["obs"], wrong_items=sorted(wrong - unexplained)))
        if unexplained:
            kinds = sorted({("exception" if rec["err"] else "value")})
            chk.violation("C17:unexplained:%s" % "+".join(kinds), "Rename_Trace: observed name is neither the dictionary value nor what the hook model (the recorded known finding, exactly) predicts",
                          dict(source=src, event=dict(op=rec["op"], item=rec["item"], name=rec["name"], error=rec["err"]), observed=rec["obs"], items=sorted(unexplained)))
    # binding self-test
    ok_idx = next((i for i in range(1, n_model) if i not in rejected and recs[i]["op"] == "rename" and recs[i]["name"] != 0 and recs[i - 1]["op"] == "begin"), None)
    if ok_idx is not None:
        bad = [dict(recs[ok_idx - 1]), dict(recs[ok_idx])]
        bad[1]["obs"] = list(bad[1]["obs"])
        bad[1]["obs"][bad[1]["item"] - 1] = 0
        st = tlc.validate("Rename_Trace", "Rename_Trace.cfg", bad, shards=1)
        if not st["rejects"]:
            raise tlc.TLCError("binding self-test failed")
        chk.extra["self_test_rejected"] = True
    chk.assumptions += ["observations: get_name() of methods/fields/classes, get_string() of const-string instructions; 0 = original, k = k-th new name",
                        "a difference is attributed to the recorded known finding only if the hook model of Rename.tla (string-id keyed hook table, id / encoded caches, class-rename cascade), advanced along the same history, predicts exactly the observed name"]
