"""C07 map-list order: spec MapLoad (+ generated instance) / MapLoad_Trace."""
import glob
import itertools
import os
import random
import shutil
import struct

from .. import tlc
from ..dexgen import Dex, fix
from . import c05


class LogDict(dict):
    """dict that reports every lookup (harness-side observation of 'Consult')."""

    def __init__(self, log, label):
        super().__init__()
        self._log = log
        self._label = label

    def _note(self, key):
        self._log(self._label if self._label is not None else int(key))

    def __getitem__(self, key):
        self._note(key)
        return dict.__getitem__(self, key)

    def get(self, key, default=None):
        self._note(key)
        return dict.get(self, key, default)

    def __contains__(self, key):
        self._note(key)
        return dict.__contains__(self, key)


class Instrument:
    """Wraps MapItem.parse / ClassManager.add_type_item / the item tables; produces the event list of one parse."""

    def __init__(self, dexmod):
        self.dex = dexmod
        self.events = None

    def __enter__(self):
        d = self.dex
        self.o_init, self.o_parse, self.o_add = d.ClassManager.__init__, d.MapItem.parse, d.ClassManager.add_type_item
        inst = self
        T = d.TypeMapItem

        def cm_init(cm, *a, **k):
            inst.o_init(cm, *a, **k)
            cm._ClassManager__manage_item = LogDict(lambda u: inst.ev("consult", u=u), None)
            cm._ClassManager__strings_off = LogDict(lambda u: inst.ev("consult", u=u), int(T.STRING_DATA_ITEM))
            cm._ClassManager__typelists_off = LogDict(lambda u: inst.ev("consult", u=u), int(T.TYPE_LIST))
            cm._ClassManager__classdata_off = LogDict(lambda u: inst.ev("consult", u=u), int(T.CLASS_DATA_ITEM))

        def parse(mi):
            inst.ev("parse", t=int(mi.get_type()))
            inst.parsing = True
            try:
                return inst.o_parse(mi)
            finally:
                inst.parsing = False

        def add(cm, type_item, c_item, item):
            inst.adding = True
            try:
                r = inst.o_add(cm, type_item, c_item, item)
            finally:
                inst.adding = False
            inst.ev("loaded", t=int(type_item))
            return r
        d.ClassManager.__init__, d.MapItem.parse, d.ClassManager.add_type_item = cm_init, parse, add
        return self

    def __exit__(self, *a):
        d = self.dex
        d.ClassManager.__init__, d.MapItem.parse, d.ClassManager.add_type_item = self.o_init, self.o_parse, self.o_add

    def ev(self, name, **kw):
        if self.events is None or getattr(self, "adding", False):
            return
        if name == "consult" and not getattr(self, "parsing", False):
            return          # lookups after loading (lazy accessors used by the projection) are not scheduler events
        self.events.append(dict(ev=name, t=kw.get("t", -1), u=kw.get("u", -1)))

    def parse_file(self, raw):
        """-> (DEX | None, events, error)"""
        self.events = []
        self.parsing = False
        try:
            d = self.dex.DEX(raw)
            err = None
        except Exception as e:
            d, err = None, repr(e)
        evs, self.events = self.events, None
        return d, evs, err


def projection(d):
    if d is None:
        return None
    try:
        o = c05.project(d)
        o["strings"] = list(d.get_strings())
        o["code"] = [(m.get_class_name(), m.get_name(), [(off, i.get_name(), i.get_output()) for off, i in m.get_instructions_idx()])
                     for m in d.get_encoded_methods() if m.get_code() is not None]
        return repr(o)
    except Exception as e:
        return "projection-error " + repr(e)


def map_entries(raw):
    (map_off,) = struct.unpack_from("<I", raw, 0x34)
    (n,) = struct.unpack_from("<I", raw, map_off)
    return map_off, [struct.unpack_from("<HHII", raw, map_off + 4 + 12 * i) for i in range(n)]


def permute(raw, perm):
    map_off, ents = map_entries(raw)
    buf = bytearray(raw)
    for i, j in enumerate(perm):
        struct.pack_into("<HHII", buf, map_off + 4 + 12 * i, *ents[j])
    return bytes(fix(buf))


def small_file():
    """7 map entries: header, string_id, type_id, class_def, type_list, string_data, map_list"""
    return Dex([dict(name="La/A;", super="Ljava/lang/Object;", ifaces=["Ljava/lang/Runnable;", "La/I;"], flags=0x601, src="A.java",
                     sfields=[], ifields=[], dmethods=[], vmethods=[])]).build()


def rich_file():
    code = [("const-string", 0, "héllo"), ("new-instance", 1, "La/B;"), ("invoke-virtual", [1], ("La/B;", ("V", []), "run")),
            ("sget", 0, ("La/A;", "I", "S")), ("return-void",)]
    classes = [dict(name="La/A;", super="Ljava/lang/Object;", ifaces=["Ljava/lang/Runnable;"], flags=1, src="A.java",
                    sfields=[("S", "I", 9), ("T", "Ljava/lang/String;", 9)], ifields=[("f", "J", 2)],
                    static_values=[("int", -2), ("string", "x")],
                    annotations=[(1, "La/Ann;", [("v", ("int", -5)), ("n", ("array", [("short", -1), ("null",)]))])],
                    dmethods=[dict(name="<init>", ret="V", params=[], flags=0x10001, code=dict(regs=1, ins=1, outs=0, insns=[("return-void",)])),
                              dict(name="nat", ret="I", params=["J", "Ljava/lang/String;"], flags=0x109)],
                    vmethods=[dict(name="run", ret="V", params=[], flags=1,
                                   code=dict(regs=3, ins=1, outs=1, insns=code, tries=[(0, 2, 0)], handlers=[([("Ljava/lang/Exception;", 9)], 9)]))]),
               dict(name="La/B;", super="La/A;", flags=0x401)]
    return Dex(classes).build()


def run(chk):
    from androguard.core import dex
    quick = chk.tier == "quick"
    rnd = random.Random(chk.seed)
    T = dex.TypeMapItem
    rank = {int(k): v for k, v in T.determine_load_order().items()}
    small, rich = small_file(), rich_file()
    files = [("small", small), ("rich", rich)]
    shipped = sorted(glob.glob("/repo/tests/data/APK/*.dex"), key=os.path.getsize)
    for f in shipped[:2] if quick else shipped[:6]:
        files.append((os.path.basename(f), open(f, "rb").read()))

    traces = []
    observed = set()
    with Instrument(dex) as ins:
        base = {}
        for name, raw in files:
            d, evs, err = ins.parse_file(raw)
            if err:
                raise tlc.TLCError("unpermuted file %s does not parse: %s" % (name, err))
            base[name] = projection(d)
            cur = None
            for e in evs:
                if e["ev"] == "parse":
                    cur = e["t"]
                elif e["ev"] == "consult" and cur is not None:
                    observed.add((cur, e["u"]))

        def one(name, raw, perm):
            _, ents = map_entries(raw)
            d, evs, err = ins.parse_file(permute(raw, perm))
            same = err is None and projection(d) == base[name]
            types = [ents[j][0] for j in perm]
            tr = [dict(ev="begin", t=-1, u=-1, perm=types, rank=[[t, r] for t, r in sorted(rank.items())], file=name)] + evs + \
                 [dict(ev="end", t=-1, u=-1, same=same, err=err or "")]
            traces.append(tr)
            return same, err

        # ---- model: the scheduler for every permutation of the small file's entries, with the *real* rank and observed consults ----
        _, ents = map_entries(small)
        entries = [e[0] for e in ents]
        r = model_check(entries, rank, observed, quick)
        if not r.ok:
            # (a constant-level invariant such as RankInjective is reported by TLC as "The invariant of X is equal to FALSE")
            verdicts = [e for e in r.errors if "violated" in e or "is equal to FALSE" in e]
            if not verdicts:
                raise tlc.TLCError("MapLoad instance failed: %s\n%s" % (r.errors[:3], r.stdout[-3000:]))
            for e in verdicts:
                chk.violation("model:" + e[:60], "MapLoad: " + e, dict(rank=sorted(rank.items()), observed_consults=sorted(observed)))
        chk.model(r, "MapLoad (Entries = small file's %d entries, Rank = determine_load_order(), Deps = %d observed consult pairs)" % (len(entries), len(observed)))
        chk.bounds = dict(entries=entries, permutations="all %d! of the small file" % len(entries), observed_consult_pairs=sorted(observed))
        # ---- S->C: every permutation of the small file end to end -----------------------------------------------------------------
        n = 0
        for perm in itertools.permutations(range(len(entries))):
            same, err = one("small", small, perm)
            if not same:
                chk.violation("perm:small:" + ("error" if err else "different-result"), "MapLoad.SameSequence", dict(perm=[entries[j] for j in perm], error=err))
            n += 1
        chk.replayed(n)
        traces_small = len(traces)
        # ---- C->S: rotations / adjacent swaps / reversal / random permutations of full files -----------------------------------------
        for name, raw in files[1:]:
            _, ents = map_entries(raw)
            k = len(ents)
            perms = [list(range(k))[i:] + list(range(k))[:i] for i in range(k)]
            perms += [list(range(k))[::-1]]
            for i in range(k - 1):
                p = list(range(k))
                p[i], p[i + 1] = p[i + 1], p[i]
                perms.append(p)
            for _ in range(10 if quick else 200):
                p = list(range(k))
                rnd.shuffle(p)
                perms.append(p)
            for p in perms:
                same, err = one(name, raw, p)
    # validate traces (small-file ones sampled in quick)
    sel = traces if not quick else traces[:traces_small:7] + traces[traces_small:]
    recs = [e for t in sel for e in t]
    for e in recs:
        e.setdefault("perm", [])
        e.setdefault("rank", [])
        e.setdefault("same", True)
    res = tlc.validate("MapLoad_Trace", "MapLoad_Trace.cfg", recs, shards=16, boundary=lambda r: r["ev"] == "begin", heap="3g", timeout=3000)
    chk.trace_result(res, "MapLoad_Trace")
    chk.c2s = len(sel) - len({_trace_of(sel, gi) for gi, _ in res["rejects"]})
    chk.extra["events_validated"] = len(recs)
    for gi, why in res["rejects"]:
        ti = _trace_of(sel, gi)
        t = sel[ti]
        chk.violation("trace:%s:%s" % ("small" if t[0]["file"] == "small" else "full", why[0]), "MapLoad_Trace:" + str(why[0]),
                      dict(file=t[0]["file"], perm=t[0]["perm"], event=recs[gi], end=t[-1]))
    chk.sample(dict(file=sel[0][0]["file"], perm=sel[0][0]["perm"], events=[(e["ev"], e["t"], e["u"]) for e in sel[0][1:12]]))
    # binding self-test: swap two parse events
    t = [dict(e) for e in sel[0]]
    pi = [i for i, e in enumerate(t) if e["ev"] == "parse"]
    if len(pi) >= 2:
        t[pi[0]]["t"], t[pi[1]]["t"] = t[pi[1]]["t"], t[pi[0]]["t"]
        st = tlc.validate("MapLoad_Trace", "MapLoad_Trace.cfg", t, shards=1)
        if not st["rejects"]:
            raise tlc.TLCError("binding self-test failed")
        chk.extra["self_test_rejected"] = True
    chk.assumptions += ["Consult events are lookups in the ClassManager's item tables made while a map item is being parsed (lazy lookups made later by accessors are not scheduler events)",
                        "'same parse' = identical projection of classes, members, strings, code listings and register counts"]


def _trace_of(traces, gi):
    k = 0
    for i, t in enumerate(traces):
        if gi < k + len(t):
            return i
        k += len(t)
    return len(traces) - 1


def model_check(entries, rank, observed, quick):
    """generate the MapLoad instance with the implementation's rank and the observed consult relation; run TLC on it"""
    d = tlc.scratch_dir("mapload_")
    try:
        types = sorted(set(entries) | {u for _, u in observed} | {t for t, _ in observed})
        rk = " @@ ".join("%d :> %d" % (t, rank.get(t, 999)) for t in types)
        deps = ", ".join("<<%d, %d>>" % p for p in sorted(observed)) or ""
        with open(os.path.join(d, "MapLoadMC.tla"), "w") as f:
            f.write("---- MODULE MapLoadMC ----\nEXTENDS MapLoad\nEntriesC == <<%s>>\nRankC == %s\nDepsC == {%s}\n====\n"
                    % (", ".join(map(str, entries)), rk, deps))
        with open(os.path.join(d, "MapLoadMC.cfg"), "w") as f:
            f.write("SPECIFICATION Spec\nCONSTANTS\n  Entries <- EntriesC\n  Rank <- RankC\n  Deps <- DepsC\n"
                    "INVARIANT ConsultOnlyLoaded\nINVARIANT SameSequence\nINVARIANT RankInjective\nPROPERTY Terminates\nCHECK_DEADLOCK FALSE\n")
        r = tlc.run(os.path.join(d, "MapLoadMC.tla"), os.path.join(d, "MapLoadMC.cfg"), timeout=3000, heap="6g", coverage=True, cwd=d)
        if not r.ok:
            # a verdict of the model on the implementation's own constants is a finding about the implementation
            r.model_violation = [e for e in r.errors]
        for a in ("Sort", "Parse", "Finish"):
            if r.ok and r.coverage.get(a, 0) == 0:
                raise tlc.TLCError("vacuity: action %s never taken" % a)
        return r
    finally:
        shutil.rmtree(d, ignore_errors=True)
