"""C34 APK file access: spec ApkFiles / ApkFiles_Trace."""
import io
import random
import zipfile

from .. import tlc


def codes(s):
    return [ord(c) for c in s]


def build(names, rnd):
    """zip archive with the given entry names; contents derived from the name; stored and deflated entries mixed"""
    bio = io.BytesIO()
    contents = {}
    _VARIANT[0] += 1
    variant = _VARIANT[0] % 4
    # variants of the container met in real APKs: 1 = written as a stream (sizes in data descriptors behind the data, flag bit 3),
    # 2 = archive comment and extra fields (alignment padding) in the local headers, 3 = one large multi-block deflated entry
    out = _Stream(bio) if variant == 1 else bio
    with zipfile.ZipFile(out, "w") as z:
        if variant == 2:
            z.comment = b"signed by nobody"
        for i, n in enumerate(names):
            data = (("content of %s " % n) * (1 + i % 5)).encode("utf-8") + bytes(range(i % 7))
            if (i + len(names)) % 4 == 3:
                data = b""              # zero-length entries (stored and deflated) are entries too
            if variant == 3 and i == 0:
                data = bytes(rnd.randrange(256) for _ in range(70000)) + data
            contents[n] = data
            info = zipfile.ZipInfo(n)
            if variant == 2:
                info.extra = b"\x35\xd9" + bytes([4 + i % 3, 0]) + b"\x04\x00" + b"\0" * (2 + i % 3)      # the alignment extra field zipalign writes
            z.writestr(info, data, compress_type=zipfile.ZIP_DEFLATED if i % 2 else zipfile.ZIP_STORED)
    return bio.getvalue(), contents


_VARIANT = [0]


class _Stream:
    """write-only, not seekable: zipfile then sets flag bit 3 and writes a data descriptor after every entry"""

    def __init__(self, f):
        self.f = f

    def write(self, b):
        return self.f.write(b)

    def flush(self):
        pass


_ORDER = [0]


def observe(apkmod, names, rnd):
    raw, contents = build(names, rnd)
    a = apkmod.APK(raw, raw=True, skip_analysis=True)
    r = {}

    def q_listed():
        r["listed"] = list(a.get_files())

    def q_content():
        ok = True
        for n in names:
            try:
                ok &= bytes(a.get_file(n)) == contents[n]
            except Exception:
                ok = False
        r["content_ok"] = ok

    def q_missing():
        ok = True
        for n in ("no/such/file", "classes99.dex", ""):
            if n in names:
                continue
            try:
                a.get_file(n)
                ok = False
            except apkmod.FileNotPresent:
                pass
            except Exception:
                ok = False
        r["missing_ok"] = ok

    def q_dexnames():
        r["dexnames"] = list(a.get_dex_names())

    def q_alldex():
        try:
            r["alldex"] = sorted(bytes(x) for x in a.get_all_dex())
        except Exception:
            r["alldex"] = None

    def q_multidex():
        r["multidex"] = bool(a.is_multidex())
    # every accessor is the first one asked on some of the archives
    qs = [q_listed, q_content, q_missing, q_dexnames, q_alldex, q_multidex]
    k = _ORDER[0] % len(qs)
    _ORDER[0] += 1
    for q in qs[k:] + qs[:k]:
        q()
    listed, content_ok, missing_ok, dexnames = r["listed"], r["content_ok"], r["missing_ok"], r["dexnames"]
    alldex_ok = r["alldex"] is not None and r["alldex"] == sorted(contents[n] for n in dexnames if n in contents)
    multidex = r["multidex"]
    return dict(names=[codes(n) for n in names], listed=[codes(n) for n in listed], content_ok=bool(content_ok), missing_ok=bool(missing_ok),
                dexnames=[codes(n) for n in dexnames], alldex_ok=bool(alldex_ok), multidex=multidex)


def feats(names):
    f = set()
    import re
    for n in names:
        if re.match(r"^classes\d*\.dex$", n):
            continue
        if re.match(r"^classes(\d*).dex$", n):
            f.add("look-alike-any-char-for-dot")
        elif re.search(r"classes(\d+)?.dex$", n):
            f.add("look-alike-not-at-root-or-suffix")
    return "+".join(sorted(f)) or "plain"


def run(chk):
    from androguard.core import apk
    quick = chk.tier == "quick"
    rnd = random.Random(chk.seed)
    chk.bounds = dict(model="every set of <= 4 names out of a 10-name universe (classes.dex, classes2.dex, classes10.dex, classes-dex, classes1xdex, classesx.dex, lib/classes.dex, Classes.dex, classes.dex2, res/x.png)",
                      random="archives of 0..12 entries with nested, non-ASCII and look-alike names, stored and deflated")
    r, states = tlc.dump_states("ApkFiles", "ApkFiles.cfg", timeout=300)
    chk.model(r, "ApkFiles")
    recs, metas = [], []
    for st in states:
        names = sorted("".join(map(chr, n)) for n in st["names"])
        rec = observe(apk, names, rnd)
        want = sorted("".join(map(chr, n)) for n in st["dex"])
        if sorted("".join(map(chr, n)) for n in rec["dexnames"]) != want or rec["multidex"] != st["multi"]:
            chk.violation("model:dex-listing-or-multidex:" + feats(names), "ApkFiles.DexNames", dict(names=names, want_dex=want, want_multidex=st["multi"],
                                                                                                       got_dex=["".join(map(chr, n)) for n in rec["dexnames"]], got_multidex=rec["multidex"]))
        recs.append(rec)
        metas.append(names)
    n_s2c = len(recs)
    pool = ["classes.dex", "classes2.dex", "classes3.dex", "classes10.dex", "classes-dex", "classes1xdex", "classes.dex.bak", "assets/classes.dex", "lib/arm/classes2.dex",
            "AndroidManifest.xml", "res/drawable/icon.png", "résumé.txt", "目录/文件.bin", "META-INF/CERT.RSA", "a/b/c/d.e", "classesA.dex", "classes.DEX", "xclasses.dex", "classes"]
    for _ in range(150 if quick else 3000):
        names = rnd.sample(pool, rnd.randrange(0, 13))
        recs.append(observe(apk, names, rnd))
        metas.append(names)
    res = tlc.validate("ApkFiles_Trace", "ApkFiles_Trace.cfg", recs, shards=8)
    chk.trace_result(res, "ApkFiles_Trace")
    chk.c2s -= res["accepted"]
    chk.s2c += n_s2c
    chk.c2s += len(recs) - n_s2c
    for gi, why in res["rejects"]:
        cl = "+".join(sorted(w.split(".", 1)[1] for w in why[0]))
        chk.violation("%s:%s" % (cl, feats(metas[gi])), "ApkFiles_Trace:" + cl, dict(names=metas[gi], dex=["".join(map(chr, n)) for n in recs[gi]["dexnames"]], multidex=recs[gi]["multidex"]))
    chk.sample(dict(names=metas[3], dex=["".join(map(chr, n)) for n in recs[3]["dexnames"]], multidex=recs[3]["multidex"]))
    rejected = {i for i, _ in res["rejects"]}
    k = next((i for i in range(len(recs)) if i not in rejected and recs[i]["listed"]), None)
    if k is not None:
        bad = dict(recs[k], listed=recs[k]["listed"][1:])
        st = tlc.validate("ApkFiles_Trace", "ApkFiles_Trace.cfg", [bad], shards=1)
        if not st["rejects"]:
            raise tlc.TLCError("binding self-test failed")
        chk.extra["self_test_rejected"] = True
    chk.assumptions += ["archives are written by Python's zipfile (independent of apkInspector, which androguard reads them with)"]
