"""C26 binary XML -> tree: spec Axml / AxmlMC / Axml_Trace (attribute values through ResValue)."""
import glob
import random
import struct

from .. import tlc
from ..axmlgen import Axml
from ..core import limbs32

U = "http://schemas.android.com/apk/res/android"
V = "urn:x-other"
KNOWN = {16842752: "theme", 16842753: "label", 16842754: "icon", 16842755: "name", 16842758: "permission", 16842767: "debuggable", 16842768: "exported",
         16843276: "minSdkVersion", 16843291: "versionCode", 16843292: "versionName"}


def codes(s):
    return [ord(c) for c in (s or "")]


def split(tag):
    if tag.startswith("{"):
        uri, name = tag[1:].split("}", 1)
        return uri, name
    return "", tag


def observed(e):
    from lxml import etree
    uri, name = split(e.tag)
    attrs = []
    for k, v in e.attrib.items():
        au, an = split(k)
        attrs.append([au, an, codes(v)])
    kids = [observed(c) for c in e if isinstance(c.tag, str)]
    return dict(tag=name, ns=uri, attrs=attrs, text=codes(e.text), kids=kids)


def declared(e):
    attrs = []
    for a in e.get("attrs", []):
        t = a["type"]
        attrs.append([a.get("ns") or "", a["name"], a.get("resid") or 0, t, limbs32(a.get("data", 0)), codes(a.get("value")) if t == 3 else []])
    return dict(tag=e["tag"], ns=e.get("ns") or "", attrs=attrs, text=codes(e.get("text")), kids=[declared(c) for c in e.get("children", [])])


def run_doc(axml, doc, namespaces, utf8, extra=()):
    raw = Axml(doc, namespaces, utf8, extra).build()
    rec = dict(doc=declared(doc), parsed=True, got=dict(tag="", ns="", attrs=[], text=[], kids=[]))
    try:
        p = axml.AXMLPrinter(raw)
        root = p.get_xml_obj()
        if root is None or not p.is_valid():
            rec["parsed"] = False
        else:
            rec["got"] = observed(root)
    except Exception as e:
        rec["parsed"] = False
        rec["error"] = repr(e)[:200]
    return rec


def from_model(st):
    """AxmlMC document -> generator document (namespace "U" -> the android URI; values as strings)"""
    def conv(e):
        e = dict(e)
        attrs = []
        for (ns, name, val) in sorted(e["attrs"]):
            attrs.append(dict(name=name, ns=U if ns == "U" else None, type=3, value=val))
        return dict(tag=e["tag"], ns=U if e["ns"] == "U" else None, attrs=attrs, text=(e["text"] or None), children=[conv(k) for k in e["kids"]])
    return conv(st["doc"])


# (XML names: a letter or '_' first, then letters, digits, '.', '-', '_')
NAMES = ["a", "b", "manifest", "application", "activity", "uses-sdk", "intent-filter", "x.y", "data-1", "_config", "__x", "a_b", "A1", "_"]
ANAMES = ["x", "y", "name", "label", "theme", "value", "scheme", "host", "_id", "_", "a_1", "B.c-d"]


def rand_attr(rnd, used):
    while True:
        ns = rnd.choice([None, U, U, V])
        name = rnd.choice(ANAMES)
        resid = None
        if ns == U and rnd.random() < 0.6:
            resid, name2 = rnd.choice(sorted(KNOWN.items()))
            # aapt may leave the pool string empty when the id is known; obfuscators rename it: the resource id decides
            name = rnd.choice([name2, "", name2, "o" + name2[:2]])
            key = (ns, name2)
        elif ns == U and rnd.random() < 0.2:
            resid, key = 0x7F010000 + rnd.randrange(4), (ns, name)
        else:
            key = (ns, name)
        if key not in used:
            used.add(key)
            break
    t = rnd.choice([3, 3, 3, 1, 2, 16, 16, 17, 18, 28, 5, 6, 4])
    a = dict(name=name, ns=ns, resid=resid, type=t)
    if t == 3:
        a["value"] = rnd.choice(["", "v", "héllo wörld", "中文", "a&b<c>\"q\"", "😀", "line1\nline2", "  spaced  ", ".Main", "com.example.App",
                                 # around the one- / two-byte length prefixes of the string pool (UTF-16 length and UTF-8 byte count differ)
                                 "a" * 127, "a" * 128, "b" * 200, "é" * 63, "é" * 64, "é" * 100, "中" * 42, "中" * 43, "中" * 50, "é" * 127 + "z", "😀" * 33])
    else:
        a["data"] = rnd.choice([0, 1, 0x7FFFFFFF, 0x80000001, 0xFFFFFFFF, 0x01010003, 0x7F020001, rnd.getrandbits(32)])
        if t == 5:
            a["data"] = (a["data"] & ~0xF) | rnd.randrange(6)
        if t == 6:
            a["data"] = (a["data"] & ~0xF) | rnd.randrange(2)
    return a


def rand_tree(rnd, depth, budget):
    used = set()
    e = dict(tag=rnd.choice(NAMES), ns=rnd.choice([None, None, None, V]), attrs=[rand_attr(rnd, used) for _ in range(rnd.randrange(0, 4))],
             text=rnd.choice([None, None, None, "text", "tëxt ünïcode", " "]), children=[])
    if depth > 0:
        for _ in range(rnd.randrange(0, 4)):
            if budget[0] <= 0:
                break
            budget[0] -= 1
            e["children"].append(rand_tree(rnd, depth - 1, budget))
    return e


def shape(rec):
    f = []

    def walk(e):
        if e["ns"]:
            f.append("element-namespace")
        if e["text"]:
            f.append("text")
        for a in e["attrs"]:
            if a[2]:
                f.append("resource-id-attribute")
            if a[3] != 3:
                f.append("typed-attribute")
        for k in e["kids"]:
            walk(k)
    walk(rec["doc"])
    return "+".join(sorted(set(f))) or "plain"


def run(chk):
    from androguard.core import axml
    quick = chk.tier == "quick"
    rnd = random.Random(chk.seed)
    cfg = "AxmlMC_quick.cfg" if quick else "AxmlMC_thorough.cfg"
    chk.bounds = dict(cfg=cfg, model="documents of <= 3 elements (4 shapes), 2 tags, optional namespace, <= 2 of 4 attributes, optional text, optional unknown chunk at every position",
                      random="trees of depth <= %d, every value type, UTF-8 and UTF-16 pools, resource-id maps" % (4 if quick else 6))
    stride = (12, chk.seed) if quick else (20, chk.seed)
    r, states = tlc.dump_states("AxmlMC", cfg, only={"doc", "stream", "cur"}, stride=stride, timeout=6000, heap="10g")
    chk.model(r, "AxmlMC/" + cfg)
    recs, meta = [], []
    seen = set()
    for st in states:
        if st["cur"] != 1:
            continue
        has_skip = any(c[0] == "skip" for c in st["stream"])
        doc = from_model(st)
        pos = next((i for i, c in enumerate(st["stream"]) if c[0] == "skip"), None)
        key = (repr(doc), pos)
        if key in seen:
            continue
        seen.add(key)
        extra = [struct.pack("<HHI", 0x0999, 8, 12) + b"\xAA\xBB\xCC\xDD"] if has_skip else []       # an unknown chunk type (after the pool)
        for utf8 in (False, True):
            recs.append(run_doc(axml, doc, [("android", U)], utf8, extra))
            meta.append("model")
    n_s2c = len(recs)
    chk.sample(dict(document=recs[0]["doc"], parsed=recs[0]["got"]), cap=2)
    for _ in range(200 if quick else 5000):
        doc = rand_tree(rnd, 4 if quick else 6, [200])
        ns = [("android", U)] + ([("o", V)] if rnd.random() < 0.7 else [("o", V), ("p2", "urn:unused")])
        recs.append(run_doc(axml, doc, ns, rnd.random() < 0.5))
        meta.append("random")
    res = tlc.validate("Axml_Trace", "Axml_Trace.cfg", [dict(doc=r_["doc"], got=r_["got"], parsed=r_["parsed"]) for r_ in recs], shards=16, heap="3g", timeout=3000)
    chk.trace_result(res, "Axml_Trace")
    chk.c2s -= res["accepted"]
    chk.s2c += n_s2c
    chk.c2s += len(recs) - n_s2c
    for gi, why in res["rejects"]:
        rec = recs[gi]
        chk.violation("%s:%s:%s" % (meta[gi], "+".join(sorted(w.split(".", 1)[1] for w in why[0])), shape(rec)), "Axml_Trace",
                      dict(document=_short(rec["doc"]), got=_short(rec["got"]), error=rec.get("error")))
    rejected = {i for i, _ in res["rejects"]}
    k = next((i for i in range(len(recs)) if i not in rejected and recs[i]["doc"]["attrs"]), None)
    if k is not None:
        import copy
        bad = copy.deepcopy(dict(doc=recs[k]["doc"], got=recs[k]["got"], parsed=True))
        bad["got"]["attrs"][0][1] += "x"
        st = tlc.validate("Axml_Trace", "Axml_Trace.cfg", [bad], shards=1)
        if not st["rejects"]:
            raise tlc.TLCError("binding self-test failed")
        chk.extra["self_test_rejected"] = True
    chk.assumptions += ["names are XML-valid and contain no '_' when they come from the framework attribute table; values contain only XML characters (so _fix_name / _fix_value are identities)",
                        "one text chunk per element, placed before its children", "attribute names follow the resource-id map when the id is a framework attribute (9-entry slice of public.xml in the trace spec)",
                        "the text of dimension / fraction / float attributes is checked by C27, not here"]


def _short(e):
    import json
    s = json.dumps(e)
    return e if len(s) < 1500 else s[:1500]
