"""C28: see vf/arscobs.py (spec Arsc / ArscMC / ResResolve / Arsc_Trace)."""
from ..arscobs import run_property


def run(chk):
    run_property(chk, "C28")
