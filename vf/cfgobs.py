"""Shared machinery of C10, C11, C12, C40: methods at byte-offset level <-> real bytecode <-> observed basic blocks."""
import struct

from . import tlc
from .dalvik_table import T, kind as op_kind
from .dexgen import Dex

CLAUSES = {
    "C10": ("C10.Partition", "C10.LeaderRule", "C10.OnlyLast", "C10.InstructionCount"),
    "C11": ("C11.SuccExact", "C11.PredInverse", "C11.PredsAreBlocks"),
    "C12": ("C12.ExcCover",),
    "C40": ("C40.OffsetsAgree", "C40.PayloadLinks"),
}


# ---- abstract method (byte-offset level) -> bytecode --------------------------------------------------------------
def realise(m):
    """m: dict(ins=[[off, len, kind, [targets], pay, (sub)]...], tries=[[s, e, [h...]]...], endoff) -> (code bytes, tries, handlers)"""
    out = bytearray()
    ins = m["ins"]
    owner = {}
    for x in ins:
        if x[2] in ("switch", "fill") and x[4] >= 0:
            owner.setdefault(x[4], x)
    for x in ins:
        off, ln, k, tg, pay = x[:5]
        sub = x[5] if len(x) > 5 else None
        assert len(out) == off, (len(out), off, m)
        rel = lambda t: (t - off) // 2
        if k == "plain":
            if ln == 2:
                out += struct.pack("<H", 0x0000 if sub == "nop" else 0x1012)          # nop | const/4 v0, 1
            elif ln == 4:
                out += struct.pack("<Hh", 0x0013, 7)                                   # const/16 v0, 7
            elif ln == 6:
                out += struct.pack("<Hi", 0x0014, 9)                                   # const v0, 9
            else:
                raise ValueError(ln)
        elif k == "goto":
            if ln == 2:
                out += struct.pack("<Bb", 0x28, rel(tg[0]))
            elif ln == 4:
                out += struct.pack("<Hh", 0x0029, rel(tg[0]))
            else:
                out += struct.pack("<Hi", 0x002a, rel(tg[0]))
        elif k == "if":
            out += struct.pack("<Hh", 0x0038 if sub != "if-eq" else 0x0032, rel(tg[0]))      # if-eqz v0 | if-eq v0, v0
        elif k == "switch":
            p = next((y for y in ins if y[0] == pay), None)
            sparse = (sub == "sparse") or (p is not None and p[1] == 4 + 8 * len(tg) and p[1] != 8 + 4 * len(tg))
            out += struct.pack("<Hi", 0x002c if sparse else 0x002b, rel(pay))
        elif k == "fill":
            out += struct.pack("<Hi", 0x0026, rel(pay))
        elif k == "return":
            out += struct.pack("<H", (0x000e, 0x000f, 0x0010, 0x0011)[(off // 2) % 4])      # return-void | return v0 | return-wide v0 | return-object v0
        elif k == "throw":
            out += struct.pack("<H", 0x0027)
        elif k == "payload":
            o = owner.get(off)
            if o is not None and o[2] == "switch":
                n = len(o[3])
                if ln == 8 + 4 * n and sub != "sparse":
                    out += struct.pack("<HHi", 0x0100, n, 10) + b"".join(struct.pack("<i", (t - o[0]) // 2) for t in o[3])
                else:
                    assert ln == 4 + 8 * n, (ln, n)
                    out += struct.pack("<HH", 0x0200, n) + b"".join(struct.pack("<i", 3 * j) for j in range(n)) + \
                        b"".join(struct.pack("<i", (t - o[0]) // 2) for t in o[3])
            else:
                # array payload: element width 1, size such that the length matches
                size = ln - 8
                if size % 2 == 0 and size > 0:
                    size -= 1 if (sub == "odd") else 0
                body = bytes(range(1, size + 1))
                if len(body) % 2:
                    body += b"\0"
                assert 8 + len(body) == ln, (ln, size)
                out += struct.pack("<HHI", 0x0300, 1, size) + body
        else:
            raise ValueError(k)
    tries, handlers = [], []
    for (s, e, hs) in m["tries"]:
        typed = [("Ljava/lang/Exception;", h // 2) for h in hs[:-1]]
        entry = (typed, hs[-1] // 2)
        if entry not in handlers:            # try ranges with the same catch list share one encoded_catch_handler, as compilers emit them
            handlers.append(entry)
        tries.append((s // 2, (e + 1 - s) // 2, handlers.index(entry)))
    return bytes(out), tries, handlers


def dex_of(methods):
    """methods: list of abstract m -> DEX bytes with class Lt/M; methods m0.. (static, ()V)"""
    ms = []
    for i, m in enumerate(methods):
        code, tries, handlers = realise(m)
        ms.append(dict(name="m%d" % i, ret="V", params=[], flags=9, code=dict(regs=1, ins=0, outs=0, insns=code, tries=tries, handlers=handlers)))
    cls = dict(name="Lt/M;", super="Ljava/lang/Object;", flags=1, sfields=[], ifields=[], dmethods=ms, vmethods=[])
    return Dex([cls]).build()


# ---- real bytecode -> abstract method (own decoder) ------------------------------------------------------------------
def abstract_from_units(units):
    """Own linear sweep + branch decoding (vf.dalvik_table); returns dict(ins, endoff) or None when the code is not sweepable."""
    ins = []
    i = 0
    n = len(units)

    def s16(v):
        return v - 0x10000 if v & 0x8000 else v

    def s32(lo, hi):
        v = lo | hi << 16
        return v - (1 << 32) if v & 0x80000000 else v
    while i < n:
        u = units[i]
        if u in (0x0100, 0x0200, 0x0300):
            if u == 0x0100:
                ln = 4 + 2 * units[i + 1] if i + 1 < n else 0
            elif u == 0x0200:
                ln = 2 + 4 * units[i + 1] if i + 1 < n else 0
            else:
                if i + 3 >= n:
                    return None
                ln = 4 + ((units[i + 2] | units[i + 3] << 16) * units[i + 1] + 1) // 2
            if ln == 0 or i + ln > n:
                return None
            ins.append([2 * i, 2 * ln, "payload", [], -1])
            i += ln
            continue
        op = u & 0xFF
        if op not in T:
            return None
        name, fmt, _ = T[op]
        ln = int(fmt[0])
        if i + ln > n:
            return None
        k = op_kind(op)
        tg, pay = [], -1
        if fmt == "10t":
            b = u >> 8
            tg = [2 * (i + (b - 256 if b & 0x80 else b))]
        elif fmt == "20t":
            tg = [2 * (i + s16(units[i + 1]))]
        elif fmt == "30t":
            tg = [2 * (i + s32(units[i + 1], units[i + 2]))]
        elif fmt in ("21t", "22t"):
            tg = [2 * (i + s16(units[i + 1]))]
        elif fmt == "31t":
            pay = 2 * (i + s32(units[i + 1], units[i + 2]))
        ins.append([2 * i, 2 * ln, k, tg, pay])
        i += ln
    offs = {x[0]: x for x in ins}
    for x in ins:
        if x[2] == "switch":
            p = x[4] // 2
            if x[4] in offs and offs[x[4]][2] == "payload" and units[p] in (0x0100, 0x0200):
                cnt = units[p + 1]
                base = p + (4 if units[p] == 0x0100 else 2 + 2 * cnt)
                x[3] = [x[0] + 2 * s32(units[base + 2 * j], units[base + 2 * j + 1]) for j in range(cnt)]
            else:
                x[3] = [-7]        # payload not where the instruction says: out of domain
    return dict(ins=ins, endoff=2 * n)


# ---- MethodAnalysis -> observed blocks -----------------------------------------------------------------------------
def observe(ma):
    meth = ma.get_method()
    listing = list(meth.get_instructions_idx())
    by_id = {id(i): off for off, i in listing}
    offs = [off for off, _ in listing]
    B = []
    for b in ma.get_basic_blocks():
        ea = b.get_exception_analysis()
        exc = []
        if ea is not None:
            exc = [ea.start, ea.end, [(h[2].start if h[2] is not None else -1) for h in ea.exceptions]]
        sp = []
        for idx, obj in sorted(b.special_ins.items()):
            via = b.get_special_ins(idx)              # the accessor and the table must tell the same
            sp.append([idx, (by_id.get(id(obj), -1) if obj is not None else -1) if via is obj else -98])
        for off in offs:                              # ... and the accessor links nothing else
            if b.start <= off < b.end and off not in b.special_ins and b.get_special_ins(off) is not None:
                sp.append([off, -97])
        nxt, prv = b.get_next(), b.get_prev()         # successors / predecessors through the accessors, cross-checked with the attributes
        same = [id(x[2]) for x in nxt] == [id(x[2]) for x in b.childs] and [id(x[2]) for x in prv] == [id(x[2]) for x in b.fathers]
        B.append(dict(s=b.start, e=b.end, nb=b.get_nb_instructions(), ins=[o for o in offs if b.start <= o < b.end],
                      ch=[c[2].start for c in nxt if c[2] is not None] if same else [-99], choff=[[c[0], c[1]] for c in nxt],
                      fa=[f[2].start for f in prv if f[2] is not None] if same else [-99], exc=exc, sp=sp))
    return B


def analyse(dexmod, raw):
    from androguard.core.analysis.analysis import Analysis
    d = dexmod.DEX(raw)
    dx = Analysis(d)
    return d, dx


def features(m):
    """stable classification of a method for violation signatures"""
    f = []
    offs = {x[0] for x in m["ins"]}
    nexts = {x[0] + x[1] for x in m["ins"] if x[2] in ("goto", "if", "switch", "return", "throw")}
    targets = {t for x in m["ins"] for t in x[3]}
    for (s, e, hs) in m["tries"]:
        after = e + 1
        if after in offs and after not in nexts and after not in targets and after not in {t[0] for t in m["tries"]} \
                and after not in {h for t in m["tries"] for h in t[2]}:
            f.append("try-ends-inside-block")
        inner = {o for o in offs if s < o <= e and (o in nexts or o in targets or o in {h for t in m["tries"] for h in t[2]})}
        if inner:
            f.append("block-boundary-inside-try")
    if len(m["tries"]) > 1:
        f.append("multi-try")
    return sorted(set(f))


def run_property(chk, pid):
    """Common driver: model checking + S->C (TLC-enumerated methods realised and analysed) + C->S (random / shipped methods);
    reports only the clauses of property `pid`."""
    import glob
    import os
    import random
    from androguard.core import dex
    quick = chk.tier == "quick"
    rnd = random.Random(chk.seed)
    mine = CLAUSES[pid]
    cfg = "MethodCFGMC_q.cfg"
    chk.bounds = dict(model="all methods of <= 3 instructions x <= 1 try range (every start/end/handler); thorough adds 4 instructions without tries and two adjacent try ranges",
                      kinds="plain 1/2 units, goto, if, packed-switch(2 cases), fill-array-data, return, throw; payloads 4-byte aligned")
    stride = (16, chk.seed) if quick else (3, chk.seed)
    r, states = tlc.dump_states("MethodCFGMC", cfg, only={"m", "phase"}, keep_if='"done"', stride=stride, timeout=3000, heap="8g")
    chk.model(r, "MethodCFGMC/" + cfg + " (intended algorithm satisfies C10-C12, C40)")
    ms = [st["m"] for st in states if st["phase"] == "done"]
    del states
    if not quick:
        for extra in ("MethodCFGMC_n4.cfg", "MethodCFGMC_two.cfg"):
            r2, st2 = tlc.dump_states("MethodCFGMC", extra, only={"m", "phase"}, keep_if='"done"', stride=(23, chk.seed), timeout=6000, heap="12g")
            chk.model(r2, "MethodCFGMC/" + extra)
            ms += [st["m"] for st in st2 if st["phase"] == "done"]
            del st2
        rc = tlc.run("MethodCFGMC", "MethodCFGMC_cex.cfg", timeout=3000, heap="8g")
        chk.extra["impl_shaped_model_violates_C12"] = any("C12 is violated" in e for e in rc.errors)
    recs = []

    def to_py(mm):
        return dict(ins=[[x[0], x[1], x[2], list(x[3]), x[4]] for x in mm["ins"]], tries=[[t[0], t[1], list(t[2])] for t in mm["tries"]], endoff=mm["endoff"])
    pym = [to_py(mm) for mm in ms]
    n_s2c = len(pym)
    # ---- random offset-level methods (C->S): longer, sparse switches, goto/32, several handlers, shared payloads, misaligned payloads
    for _ in range(150 if quick else 4000):
        pym.append(random_method(rnd, aligned=True))
    n_aligned = len(pym)
    for _ in range(40 if quick else 800):
        pym.append(random_method(rnd, aligned=False))
    for k in range(0, len(pym), 300):
        batch = pym[k:k + 300]
        raw = dex_of(batch)
        d, dx = analyse(dex, raw)
        got = {}
        for ma in dx.get_methods():
            if ma.is_external():
                continue
            got[int(ma.get_method().get_name()[1:])] = observe(ma)
        for i, mm in enumerate(batch):
            recs.append(dict(m=dict(ins=[x[:5] for x in mm["ins"]], tries=mm["tries"], endoff=mm["endoff"]), B=got[i],
                             aligned=(k + i) < n_aligned, src="model" if (k + i) < n_s2c else "random"))
    # ---- methods of shipped files
    from .corpus import shipped_dex
    files = shipped_dex(quick)
    n_ship = n_out = 0
    for f in files:
        d, dx = analyse(dex, open(f, "rb").read())
        mas = list(dx.get_methods())
        if quick and len(mas) > 1500:
            mas = rnd.sample(mas, 1500)
        for ma in mas:
            if ma.is_external() or ma.get_method().get_code() is None:
                continue
            meth = ma.get_method()
            rawc = bytes(meth.get_code().get_bc().get_insn())
            units = list(struct.unpack("<%dH" % (len(rawc) // 2), rawc[:len(rawc) // 2 * 2]))
            if len(units) > 400 or (quick and n_ship >= 400):
                continue
            am = abstract_from_units(units)
            if am is None:
                n_out += 1
                continue
            tries = []
            code = meth.get_code()
            if code.get_tries_size() > 0:
                hl = {h.get_off(): h for h in code.get_handlers().get_list()}
                base = code.get_handlers().get_off()
                for t in code.get_tries():
                    h = hl.get(t.get_handler_off() + base)
                    if h is None:
                        continue
                    addrs = [p.get_addr() * 2 for p in h.get_handlers()]
                    if h.get_size() <= 0:
                        addrs.append(h.get_catch_all_addr() * 2)
                    tries.append([t.get_start_addr() * 2, (t.get_start_addr() + t.get_insn_count()) * 2 - 1, addrs])
            am["tries"] = tries
            recs.append(dict(m=am, B=observe(ma), aligned=True, src="shipped:" + os.path.basename(f)))
            n_ship += 1
    chk.extra["shipped_methods"] = n_ship
    chk.extra["not_sweepable_skipped"] = n_out
    res = tlc.validate("MethodCFG_Trace", "MethodCFG_Trace.cfg", recs, shards=16, heap="3g", timeout=6000)
    chk.trace_result(res, "MethodCFG_Trace")
    rej_idx = {i for i, _ in res["rejects"]}
    # records examined; trace_result() already added the accepted ones to c2s
    chk.c2s -= res["accepted"]
    chk.s2c += n_s2c
    chk.c2s += len(recs) - n_s2c
    for gi, why in res["rejects"]:
        rec = recs[gi]
        rel = sorted(w for w in why[0] if w in mine)
        if not rel:
            continue
        feats = features(rec["m"])
        chk.violation("%s:%s:%s" % (rec["src"].split(":")[0], "+".join(rel), "+".join(feats) or "plain"), "MethodCFG_Trace:" + "+".join(rel),
                      dict(method=rec["m"] if len(rec["m"]["ins"]) < 40 else "(%d instructions)" % len(rec["m"]["ins"]), blocks=rec["B"][:12], src=rec["src"]))
    chk.extra["records_rejected_for_other_properties"] = sum(1 for _, why in res["rejects"] if not any(w in mine for w in why[0]))
    chk.sample(dict(method=recs[0]["m"], blocks=recs[0]["B"]), cap=2)
    chk.sample(dict(method=recs[n_s2c]["m"], blocks=recs[n_s2c]["B"][:6]), cap=2)
    # binding self-test
    rejected = {i for i, _ in res["rejects"]}
    k = next((i for i in range(len(recs)) if i not in rejected and len(recs[i]["B"]) >= 2 and recs[i]["aligned"]), None)
    if k is not None:
        import copy
        bad = copy.deepcopy(recs[k])
        if pid == "C10":
            bad["B"][0]["e"] += 2
        elif pid == "C11":
            bad["B"][0]["ch"] = bad["B"][0]["ch"] + [bad["B"][-1]["s"]] if bad["B"][-1]["s"] not in bad["B"][0]["ch"] else []
        elif pid == "C12":
            bad["B"][0]["exc"] = [0, 1, [0]] if not bad["B"][0]["exc"] else []
        else:
            bad["B"][0]["s"] += 1
            bad["B"][0]["ins"] = bad["B"][0]["ins"]
        st = tlc.validate("MethodCFG_Trace", "MethodCFG_Trace.cfg", [bad], shards=1)
        if not st["rejects"]:
            raise tlc.TLCError("binding self-test failed")
        chk.extra["self_test_rejected"] = True
    chk.assumptions += ["branches into the middle of an instruction and payload references that do not point at a payload are outside the domain (InDomain); such records are skipped and counted",
                        "successor / predecessor / leader / exception clauses are evaluated only for 4-byte-aligned switch payloads; mis-aligned payloads are generated for the C40 link rule only",
                        "try tables of shipped methods are read through DalvikCode.get_tries/get_handlers (checked by C08)"]


def random_method(rnd, aligned=True):
    """random well-formed method at instruction level, converted to byte-offset level.
    Payloads are appended after the code or (in 40% of the methods) placed between instructions, as hand-written assemblers and
    obfuscators emit them; switches of the same form and case count share one payload 40% of the time."""
    n = rnd.randrange(2, 30)
    kinds = []
    for i in range(n):
        c = rnd.random()
        if c < 0.35:
            kinds.append(("plain", rnd.choice([2, 4, 6])))
        elif c < 0.5:
            kinds.append(("goto", rnd.choice([4, 6])))
        elif c < 0.7:
            kinds.append(("if", 4))
        elif c < 0.8:
            kinds.append(("switch", 6))
        elif c < 0.86:
            kinds.append(("fill", 6))
        elif c < 0.95:
            kinds.append(("return", 2))
        else:
            kinds.append(("throw", 2))
    meta = {}
    for i, (k, ln) in enumerate(kinds):
        if k == "switch":
            meta[i] = dict(sub=rnd.choice(["packed", "sparse"]), cnt=rnd.randrange(0, 4))
        elif k == "fill":
            meta[i] = dict(size=rnd.choice([1, 2, 3, 6]))
    share = {}
    for i in sorted(meta):
        if kinds[i][0] != "switch":
            continue
        cands = [j for j in meta if j < i and kinds[j][0] == "switch" and j not in share
                 and meta[j]["sub"] == meta[i]["sub"] and meta[j]["cnt"] == meta[i]["cnt"]]
        if cands and rnd.random() < 0.4:
            share[i] = rnd.choice(cands)
    inline = rnd.random() < 0.4
    place = {i: (rnd.randrange(n) if inline and rnd.random() < 0.6 else None) for i in meta if i not in share}
    ins, offs, payoff = [], [], {}
    at = 0

    def emit_payload(i):
        nonlocal at
        if aligned:
            if at % 4:
                ins.append([at, 2, "plain", [], -1, "nop"])
                at += 2
        elif at % 4 == 0 and rnd.random() < 0.7:
            ins.append([at, 2, "plain", [], -1, "nop"])
            at += 2
        if kinds[i][0] == "switch":
            cnt = meta[i]["cnt"]
            ln = 8 + 4 * cnt if meta[i]["sub"] == "packed" else 4 + 8 * cnt
            ins.append([at, ln, "payload", [], -1, meta[i]["sub"]])
        else:
            size = meta[i]["size"]
            ln = 8 + size + (size % 2)
            ins.append([at, ln, "payload", [], -1, "odd" if size % 2 else None])
        payoff[i] = at
        at += ln
    real = {}
    for i, (k, ln) in enumerate(kinds):
        offs.append(at)
        real[i] = len(ins)
        ins.append([at, ln, k, [], -1, None])
        at += ln
        for j in sorted(place):
            if place[j] == i:
                emit_payload(j)
    for j in sorted(place):
        if place[j] is None:
            emit_payload(j)
    offset_set = set(offs)
    sharers = {}
    for i, j in share.items():
        sharers.setdefault(j, []).append(i)
    for i, (k, ln) in enumerate(kinds):
        x = ins[real[i]]
        if k in ("goto", "if"):
            x[3] = [offs[rnd.randrange(n)]]
            if k == "if":
                x[5] = rnd.choice(["if-eqz", "if-eq"])
        elif k == "switch":
            x[5] = meta[i]["sub"]
            if i in share:
                continue
            x[4] = payoff[i]
            tg = []
            for _ in range(meta[i]["cnt"]):
                # a case target of a shared payload is relative to each switch using it: prefer targets that are instructions for all of them
                good = [c for c in offs if all(c - offs[i] + offs[s] in offset_set for s in sharers.get(i, []))]
                tg.append(rnd.choice(good) if good else offs[rnd.randrange(n)])
            x[3] = tg
        elif k == "fill":
            x[4] = payoff[i]
    for i, j in share.items():
        x = ins[real[i]]
        x[4] = payoff[j]
        x[3] = [t - offs[j] + offs[i] for t in ins[real[j]][3]]
    # sparse payload with cnt = 1 has length 12 = packed length for cnt = 1: realise() tells them apart by sub
    tries = []
    cur = 0
    for _ in range(rnd.randrange(0, 4)):
        if cur >= n:
            break
        s = rnd.randrange(cur, n)
        e = rnd.randrange(s, min(n, s + 6))
        hs = [offs[rnd.randrange(n)] for _ in range(rnd.randrange(1, 3))]
        if tries and rnd.random() < 0.35:
            hs = list(tries[-1][2])          # the same catch list as the previous range (one shared handler entry)
        tries.append([offs[s], offs[e] + kinds[e][1] - 1, hs])
        cur = e + 1
    return dict(ins=ins, tries=tries, endoff=at)
