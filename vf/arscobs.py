"""Shared machinery of C28 (resource tables) and C29 (reference resolution): spec Arsc / ArscMC / ResResolve / Arsc_Trace."""
import random
import sys

from . import tlc
from .arscgen import Arsc

CLAUSES = {"C28": ("C28.values-per-configuration", "C28.key-to-id", "C28.packages", "C28.types", "C28.locales"),
           "C29": ("C29.resolution-terminates", "C29.resolved-values")}


def codes(s):
    return [ord(c) for c in s]


def parse_label(label):
    parts = label.split("|")                   # locale | density [| screen round: 1 = notround, 2 = round]
    loc, dens = parts[0], parts[1]
    if loc:
        lang, _, region = loc.partition("-r")
        locale = (lang, region)
    else:
        locale = None
    return dict(locale=locale, density=int(dens), round=int(parts[2]) if len(parts) > 2 else 0)


def realise(entries, layouts=("plain", "plain"), utf8=False, entry_style="simple"):
    """entries: list of dicts (pkg, pid, type, tid, idx, cfg, kind, val, key) -> resources.arsc bytes"""
    pkgs = {}
    for e in entries:
        p = pkgs.setdefault((e["pid"], e["pkg"]), {})
        t = p.setdefault((e["tid"], e["type"]), dict(keys={}, cfgs={}))
        t["keys"][e["idx"]] = e["key"]
        t["cfgs"].setdefault(e["cfg"], {})[e["idx"]] = e
    table = dict(packages=[])
    for (pid, pname), types in sorted(pkgs.items()):
        tl = []
        maxtid = max(t for t, _ in types)
        byid = {t: (n, v) for (t, n), v in types.items()}
        for tid in range(1, maxtid + 1):
            if tid not in byid:
                tl.append(dict(name="unused%d" % tid, keys=[], configs=[]))
                continue
            name, v = byid[tid]
            n = max(v["keys"]) + 1
            keys = [v["keys"].get(i, "unusedkey%d" % i) for i in range(n)]
            cfgs = []
            for ci, (label, ents) in enumerate(sorted(v["cfgs"].items())):
                c = parse_label(label)
                lay = layouts[min(ci, len(layouts) - 1)]
                c["flags"] = set() if lay == "plain" else {lay}
                c["entries"] = {}
                for idx, e in ents.items():
                    c["entries"][idx] = to_entry(e, entry_style)
                cfgs.append(c)
            tl.append(dict(name=name, keys=keys, configs=cfgs))
        table["packages"].append(dict(id=pid, name=pname, types=tl))
    # (ResTable_config has grown over the platform versions: 28, 32, 36, 48, 52, 56, 64 bytes are all met in real files; the fields used
    #  here -- locale, density -- lie in the first 28)
    _CONFIG_SIZE[0] += 1
    if any(c.get("round") for pk in table["packages"] for t in pk["types"] for c in t["configs"]):
        # screenLayout2 (the round qualifier) is the first field beyond 48 bytes: the smallest structure that carries it is 52 bytes
        return Arsc(table, utf8=utf8, config_size=(52, 64, 56)[_CONFIG_SIZE[0] % 3]).build()
    return Arsc(table, utf8=utf8, config_size=(64, 28, 36, 48, 52, 56, 32)[_CONFIG_SIZE[0] % 7]).build()


_CONFIG_SIZE = [0]


def to_entry(e, style):
    k, v = e["kind"], e["val"]
    if k == "bag":
        items = []
        for j, (ik, iv) in enumerate(v):
            items.append((0x01010000 + j,) + item(ik, iv))
        return ("complex", 0, items)
    t, d = item(k, v)
    if style == "compact" and k in ("str", "int"):
        return ("compact", t, d)
    return ("simple", t, d)


def item(k, v):
    if k == "str":
        return (3, "".join(map(chr, v)))
    if k == "int":
        return (0x10, v)
    if k == "ref":
        return (0x01, v)
    raise ValueError(k)


def cfg_label(cfg):
    loc = cfg.get_language_and_region()
    if loc == "\x00\x00":
        loc = ""
    rnd = cfg.screenConfig2 & 0x3              # screenLayout2: SCREENROUND_NO = 1, SCREENROUND_YES = 2
    return "%s|%d" % (loc, (cfg.screenType >> 16) & 0xFFFF) + ("|%d" % rnd if rnd else "")


def ate_value(ate):
    if ate.is_complex():
        return "bag", len(ate.item.items)
    if ate.is_compact():
        t, d = ate.datatype, ate.data
        s = (lambda: ate.parent.stringpool_main.getString(d))
    else:
        t, d = ate.key.get_data_type(), ate.key.get_data()
        s = ate.key.get_data_value
    if t == 3:
        return "str", codes(s())
    if t == 0x10:
        return "int", d
    if t == 0x01:
        return "ref", d
    return "other", d


def flatten(res, out):
    for x in res:
        if isinstance(x, tuple) and len(x) == 2:
            v = x[1]
            if isinstance(v, list):
                flatten(v, out)
            else:
                out.append(v)
        elif isinstance(x, list):
            flatten(x, out)
        else:
            out.append(x)


_ORDER = [0]


def observe(axml, raw, entries):
    a = axml.ARSCParser(raw)
    rids = sorted({e["pid"] << 24 | e["tid"] << 16 | e["idx"] for e in entries})
    obs = dict(stored=[], keys=[], packages=[], types=[], locales=[], resolved=[], app=[])

    def q_stored():
        for rid in rids:
            for cfg, ate in a.get_res_configs(rid):
                k, v = ate_value(ate)
                obs["stored"].append([rid, cfg_label(cfg), k, v])

    def q_keys():
        seen = set()
        for e in entries:
            key = (e["pkg"], e["type"], e["key"])
            if key in seen:
                continue
            seen.add(key)
            r = a.get_res_id_by_key(e["pkg"], e["type"], e["key"])
            obs["keys"].append([e["pkg"], e["type"], e["key"], -1 if r is None else r])

    def q_names():
        obs["packages"] = sorted(a.get_packages_names())
        for p in obs["packages"]:
            ts = set()
            for loc in a.get_locales(p):
                ts |= {t for t in a.get_types(p, loc) if t != "public"}
            obs["types"].append([p, sorted(ts)])
            obs["locales"].append([p, sorted("" if x == "\x00\x00" else x for x in a.get_locales(p))])

    def q_resolved():
        old = sys.getrecursionlimit()
        sys.setrecursionlimit(600)
        try:
            for rid in rids:
                try:
                    res = a.get_resolved_res_configs(rid)
                    vals = []
                    flatten(res, vals)
                    obs["resolved"].append([rid, "ok", sorted(codes(v) for v in {str(x) for x in vals})])
                except RecursionError:
                    obs["resolved"].append([rid, "recursion-depth-exceeded", []])
        finally:
            sys.setrecursionlimit(old)
    # the parser fills its tables on demand: every accessor is the first one asked on some of the tables
    qs = [q_stored, q_keys, q_names, q_resolved]
    k = _ORDER[0] % 4
    _ORDER[0] += 1
    for q in qs[k:] + qs[:k]:
        q()
    return obs


def observe_app(apkmod, raw_arsc, label_id, icon_id):
    """APK.get_app_name / get_app_icon on an archive whose manifest names `label_id` / `icon_id`: -> [[accessor, outcome]]
    (outcome: ok | recursion-depth-exceeded | timeout | <exception>)"""
    import io
    import signal
    import zipfile
    from .axmlgen import Axml
    from .props import c31
    m = dict(pkg=["com", "a"], vcode=1, vname="1", perms=[], features=[], libraries=[], acts=[], svcs=[], rcvs=[], prvs=[], minsdk=21, target=0)
    doc = c31.manifest_doc(m)
    app = next(c for c in doc["children"] if c["tag"] == "application")
    app["attrs"] = [dict(name="label", ns=c31.U, resid=0x01010001, type=1, data=label_id), dict(name="icon", ns=c31.U, resid=0x01010002, type=1, data=icon_id)]
    bio = io.BytesIO()
    with zipfile.ZipFile(bio, "w", zipfile.ZIP_DEFLATED) as z:
        z.writestr("AndroidManifest.xml", Axml(doc, [("android", c31.U)], False).build())
        z.writestr("resources.arsc", raw_arsc)
        z.writestr("classes.dex", b"dex\n035\0" + b"\0" * 104)
    a = apkmod.APK(bio.getvalue(), raw=True)
    out = []

    class Timeout(Exception):
        pass

    def alarm(*_):
        raise Timeout()
    old_rec = sys.getrecursionlimit()
    sys.setrecursionlimit(600)
    old_h = signal.signal(signal.SIGALRM, alarm)
    try:
        for name, fn in (("get_app_name", a.get_app_name), ("get_app_icon", a.get_app_icon)):
            signal.alarm(20)
            try:
                fn()
                out.append([name, "ok"])
            except RecursionError:
                out.append([name, "recursion-depth-exceeded"])
            except Timeout:
                out.append([name, "timeout"])
            except Exception as e:
                out.append([name, "ok"])          # an error is an answer (termination is the property); its kind is not judged here
            finally:
                signal.alarm(0)
    finally:
        signal.signal(signal.SIGALRM, old_h)
        sys.setrecursionlimit(old_rec)
    return out


def record(entries, obs):
    cfgs = sorted({e["cfg"] for e in entries})
    return dict(ent=[[e["pkg"], e["pid"], e["type"], e["tid"], e["idx"], e["cfg"], e["kind"], e["val"], e["key"]] for e in entries],
                pkgs=sorted({e["pkg"] for e in entries}), cfgs=[[c, c.split("|")[0]] for c in cfgs], obs=obs)


def has_cycle(entries):
    refs = {}
    for e in entries:
        rid = e["pid"] << 24 | e["tid"] << 16 | e["idx"]
        items = e["val"] if e["kind"] == "bag" else [(e["kind"], e["val"])]
        for k, v in items:
            if k == "ref":
                refs.setdefault(rid, set()).add(v)
    longest = 0
    for s in refs:
        seen, todo = {s: 0}, [s]
        while todo:
            x = todo.pop()
            for y in refs.get(x, ()):
                if y == s:
                    longest = max(longest, seen[x] + 1)
                elif y not in seen:
                    seen[y] = seen[x] + 1
                    todo.append(y)
    return longest


def random_table(rnd, npk, big):
    entries = []
    rids = []
    for p in range(npk):
        pid = [0x7F, 0x02, 0x01][p]
        pname = ["com.a", "org.lib", "android"][p]
        for tid in range(1, rnd.randrange(2, 4)):
            tname = ["string", "id", "style"][tid - 1]
            n = rnd.randrange(1, 6 if not big else 14)
            for idx in range(n):
                rids.append((pid, pname, tid, tname, idx))
    labels = ["|0", "de|0", "de-rDE|0", "fil|0", "es-r419|0", "|240", "fr|320", "|0|2", "de|0|1", "|240|2"]
    for (pid, pname, tid, tname, idx) in rids:
        for label in rnd.sample(labels, rnd.randrange(1, 3)):
            # complex entries live in style / array types, never in type "string" (as aapt writes tables)
            k = rnd.choice(["str", "str", "int", "ref", "bag"] if tname != "string" else ["str", "str", "str", "ref"])
            if k == "str":
                v = codes(rnd.choice(["hello", "wörld", "", "x" * 40, "日本"]))
            elif k == "int":
                v = rnd.randrange(0, 100000)
            elif k == "ref":
                t = rnd.choice(rids)
                v = t[0] << 24 | t[2] << 16 | t[4]
            else:
                v = []
                for _ in range(rnd.randrange(0, 4)):
                    if rnd.random() < 0.5:
                        t = rnd.choice(rids)
                        v.append(["ref", t[0] << 24 | t[2] << 16 | t[4]])
                    else:
                        v.append(["str", codes(rnd.choice(["a", "bb", "ccc"]))])
            entries.append(dict(pkg=pname, pid=pid, type=tname, tid=tid, idx=idx, cfg=label, kind=k, val=v, key="%s_%d" % (tname, idx)))
    return entries


def run_property(chk, pid):
    from androguard.core import axml
    quick = chk.tier == "quick"
    rnd = random.Random(chk.seed)
    mine = CLAUSES[pid]
    recs, meta = [], []
    if pid == "C29":
        for cfg in (["ResResolve_3_visited.cfg"] + ([] if quick else ["ResResolve_4_visited.cfg"])):
            r = tlc.check_model("ResResolve", cfg, timeout=1200, heap="6g")
            chk.model(r, "ResResolve/" + cfg + " (visited guard: terminates, returns the reachable values, bounded work)")
        ru = tlc.run("ResResolve", "ResResolve_3_self.cfg", timeout=300)
        chk.extra["self_reference_guard_only_terminates_in_model"] = ru.ok
        chk.extra["divergence_counterexample_found"] = any("Terminates" in e for e in ru.errors)
        # reference graphs on <= 4 (5) ids: every id is a string, a reference, or a bag (string + reference)
        n = 4 if quick else 5
        base = 0x7F010000
        opts = []
        for j in range(n):
            opts += [("ref", j), ("bag", j)]
        opts += [("str", None)]
        import itertools
        combos = list(itertools.product(opts, repeat=n))
        if len(combos) > (700 if quick else 20000):
            combos = rnd.sample(combos, 700 if quick else 20000)
        for combo in combos:
            entries = []
            for i, (k, j) in enumerate(combo):
                if k == "str":
                    kind, val = "str", codes("s%d" % i)
                elif k == "ref":
                    kind, val = "ref", base + j
                else:
                    kind, val = "bag", [["str", codes("b%d" % i)], ["ref", base + j]]
                entries.append(dict(pkg="com.a", pid=0x7F, type="array", tid=1, idx=i, cfg="|0", kind=kind, val=val, key="k%d" % i))
            raw = realise(entries)
            ob = observe(axml, raw, entries)
            if len(recs) % 8 == 0:               # the same table behind an APK: application label = id 0, icon = id 1
                from androguard.core import apk as apkmod
                ob["app"] = observe_app(apkmod, raw, base, base + 1)
            recs.append(record(entries, ob))
            meta.append(("graph", entries))
        # the same ids stored in two configurations, each with its own outgoing reference (cycles that fan out per configuration)
        n2 = 3
        opts2 = [("str", None)] + [(kk, j) for j in range(n2) for kk in ("ref", "bag")]
        for _ in range(150 if quick else 3000):
            entries = []
            for i in range(n2):
                for cfgname in ("|0", "de|0"):
                    k, j = rnd.choice(opts2)
                    if k == "str":
                        kind, val = "str", codes("s%d%s" % (i, cfgname[:2].strip("|")))
                    elif k == "ref":
                        kind, val = "ref", base + j
                    else:
                        kind, val = "bag", [["str", codes("b%d%s" % (i, cfgname[:2].strip("|")))], ["ref", base + j]]
                    entries.append(dict(pkg="com.a", pid=0x7F, type="array", tid=1, idx=i, cfg=cfgname, kind=kind, val=val, key="k%d" % i))
            raw = realise(entries)
            recs.append(record(entries, observe(axml, raw, entries)))
            meta.append(("graph2cfg", entries))
        chk.bounds = dict(model="all reference tables on 3 ids (thorough: 4) with strings, references and bags", replay="reference graphs on %d ids (%d sampled), cycles of every length" % (n, len(combos)))
    else:
        r, states = tlc.dump_states("ArscMC", "ArscMC.cfg", stride=(40 if quick else 6, chk.seed), timeout=1200, heap="6g")
        chk.model(r, "ArscMC")
        chk.bounds = dict(model="one type x 3 slots x 2 configurations x entry kinds {absent, string, integer, reference, bag} x layouts {plain, sparse, offset16}",
                          replay="1 in %d states, each as simple and compact entries, UTF-8 and UTF-16 pools" % (40 if quick else 6))
        for st in states:
            entries = [dict(e) for e in st["T"]]
            for e in entries:
                if e["kind"] == "str":
                    e["val"] = list(e["val"])
                elif e["kind"] == "bag":
                    e["val"] = [[k, (list(v) if k == "str" else v)] for (k, v) in e["val"]]
            if not entries:
                continue
            for style, utf8 in (("simple", False), ("compact", True)):
                raw = realise(entries, tuple(st["lay"]), utf8, style)
                recs.append(record(entries, observe(axml, raw, entries)))
                meta.append(("model", entries))
    n_s2c = len(recs)
    for _ in range(40 if quick else 1500):
        entries = random_table(rnd, rnd.randrange(1, 4), not quick)
        raw = realise(entries, (rnd.choice(["plain", "sparse", "offset16"]), rnd.choice(["plain", "sparse", "offset16"])), rnd.random() < 0.5, rnd.choice(["simple", "compact"]))
        recs.append(record(entries, observe(axml, raw, entries)))
        meta.append(("random", entries))
    res = tlc.validate("Arsc_Trace", "Arsc_Trace.cfg", recs, shards=16, heap="3g", timeout=3000)
    chk.trace_result(res, "Arsc_Trace")
    chk.c2s -= res["accepted"]
    chk.s2c += n_s2c
    chk.c2s += len(recs) - n_s2c
    for gi, why in res["rejects"]:
        rel = sorted(w for w in why[0] if w in mine or w.startswith("generator"))
        if not rel:
            continue
        src, entries = meta[gi]
        cyc = has_cycle(entries)
        feat = ("cycle-of-length-%s" % ("1" if cyc == 1 else ">=2")) if cyc else "acyclic"
        chk.violation("%s:%s:%s" % (src, "+".join(w.split(".", 1)[-1] for w in rel), feat), "Arsc_Trace:" + "+".join(rel),
                      dict(entries=[[e["idx"], e["cfg"], e["kind"], e["val"]] for e in entries][:12], observed={k: v for k, v in recs[gi]["obs"].items() if k in ("stored", "resolved")}))
    chk.extra["records_rejected_for_other_properties"] = sum(1 for _, why in res["rejects"] if not any(w in mine for w in why[0]))
    chk.sample(dict(entries=recs[0]["ent"][:4], observed_stored=recs[0]["obs"]["stored"][:4], observed_resolved=recs[0]["obs"]["resolved"][:3]), cap=2)
    rejected = {i for i, _ in res["rejects"]}
    k = next((i for i in range(len(recs)) if i not in rejected and recs[i]["obs"]["stored"] and recs[i]["obs"]["resolved"]), None)
    if k is not None:
        import copy
        bad = copy.deepcopy(recs[k])
        if pid == "C28":
            bad["obs"]["stored"] = bad["obs"]["stored"][1:]
        else:
            bad["obs"]["resolved"][0][2] = bad["obs"]["resolved"][0][2] + [[122, 122]]
        st = tlc.validate("Arsc_Trace", "Arsc_Trace.cfg", [bad], shards=1)
        if not st["rejects"]:
            raise tlc.TLCError("binding self-test failed")
        chk.extra["self_test_rejected"] = True
    chk.assumptions += ["configurations are identified by (language-and-region string, density)", "get_res_configs is queried with config=None (all configurations)",
                        "resolution is run under a recursion limit of 600 frames; exceeding it counts as non-termination"]
