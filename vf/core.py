"""Verdict / evidence / known-findings plumbing shared by all property checks."""
from __future__ import annotations

import json
import os
import sys
import time

ROOT = os.path.dirname(os.path.dirname(os.path.abspath(__file__)))
# VERIF_OUT redirects evidence and replay files (tools/seedrun.sh: runs against a seeded worktree must not overwrite the evidence of the real tree)
EVIDENCE = os.path.join(os.environ.get("VERIF_OUT", ROOT), "evidence")
REPLAY = os.path.join(os.environ.get("VERIF_OUT", ROOT), "replay")
FINDINGS = os.path.join(ROOT, "known_findings.json")


def load_findings():
    try:
        with open(FINDINGS) as f:
            return json.load(f)
    except FileNotFoundError:
        return {"known": [], "fixed": []}


class Check:
    """Accumulates what one run of one property check covered and found."""

    def __init__(self, pid, tier, seed):
        self.pid = pid
        self.tier = tier
        self.seed = seed
        self.t0 = time.time()
        self.states = 0
        self.transitions = 0
        self.traces = 0          # S->C cases replayed + C->S records accepted
        self.s2c = 0
        self.c2s = 0
        self.samples = []
        self.violations = []     # dicts: sig, clause, detail
        self.known_hits = {}     # finding id -> count
        self.sig_counts = {}
        self.extra = {}
        self.assumptions = []
        self.bounds = {}
        self.actions = {}
        self._known = [k for k in load_findings().get("known", []) if k.get("property") == pid]

    # ---- accumulation -------------------------------------------------------------------------------------------
    def model(self, r, name=None):
        """Record a bounded TLC run (TLCResult) in the evidence."""
        self.states += r.distinct
        self.transitions += r.generated
        if name:
            self.extra.setdefault("tlc_runs", []).append(dict(name=name, **r.brief()))
        for a, c in r.coverage.items():
            self.actions[a] = self.actions.get(a, 0) + c

    def trace_result(self, res, name=None):
        self.states += res["states"]
        self.transitions += res["transitions"]
        self.c2s += res["accepted"]
        self.extra.setdefault("trace_runs", []).append(dict(name=name, accepted=res["accepted"], rejected=len(res["rejects"]),
                                                          shards=res["shards"], wall=round(res["wall"], 2)))

    def replayed(self, n=1):
        self.s2c += n

    def sample(self, s, cap=6):
        if len(self.samples) < cap:
            self.samples.append(s)

    def violation(self, sig, clause, detail):
        """sig: stable signature of (input class, deviation class); clause: which spec clause failed."""
        for k in self._known:
            if k.get("sig") == sig:
                self.known_hits.setdefault(k["id"], {"what": k.get("what", ""), "n": 0, "example": detail})
                self.known_hits[k["id"]]["n"] += 1
                return False
        self.sig_counts[sig] = self.sig_counts.get(sig, 0) + 1
        if self.sig_counts[sig] > 3:
            return True
        if len(self.violations) < 60:
            self.violations.append(dict(sig=sig, clause=clause, detail=detail))
        else:
            self.extra["violations_truncated"] = self.extra.get("violations_truncated", 0) + 1
        return True

    # ---- verdict ------------------------------------------------------------------------------------------------
    def finish(self, level="model_checking"):
        # ids X.. are extensions of the specification beyond the listed properties: own evidence directory, never a VIOLATION line
        ext = self.pid.startswith("X")
        evdir = os.path.join(os.path.dirname(EVIDENCE), "extensions", "evidence") if ext else EVIDENCE
        os.makedirs(evdir, exist_ok=True)
        replay_path = None
        if self.violations:
            os.makedirs(REPLAY, exist_ok=True)
            replay_path = os.path.join(REPLAY, "%s_%s_%d.json" % (self.pid, self.tier, self.seed))
            with open(replay_path, "w") as f:
                json.dump(dict(property=self.pid, tier=self.tier, seed=self.seed, violations=self.violations), f, indent=1, default=_js)
        cov = dict(states=max(self.states, 0), transitions=max(self.transitions, 0),
                   traces_validated_against_impl=self.s2c + self.c2s,
                   spec_behaviours_replayed_into_code=self.s2c, code_records_validated_by_spec=self.c2s,
                   samples=self.samples or ["(no sample recorded)"], bounds=self.bounds, coverage_actions=self.actions,
                   known_findings_hit={k: v["n"] for k, v in self.known_hits.items()})
        if self.sig_counts:
            cov["violation_signatures"] = self.sig_counts
        cov.update(self.extra)
        ev = dict(property_id=self.pid, tier=self.tier, seed=self.seed, level=level, coverage=cov,
                  assumptions=self.assumptions, wall_s=round(time.time() - self.t0, 2), violations=len(self.violations))
        with open(os.path.join(evdir, self.pid + ".json"), "w") as f:
            json.dump(ev, f, indent=1, default=_js)
        for kid, v in sorted(self.known_hits.items()):
            print("KNOWN-FINDING: property=%s %s [%s, %d case(s)]" % (self.pid, v["what"], kid, v["n"]))
        if self.violations:
            for v in self.violations[:10]:
                print("  mismatch clause=%s sig=%s detail=%s" % (v["clause"], v["sig"], json.dumps(v["detail"], default=_js)[:600]))
            print("  violation signatures: %s" % json.dumps(self.sig_counts))
            if ext:
                print("EXTENSION-FINDING module=%s replay=%s (beyond the listed properties: reported, exit 0)" % (self.pid, replay_path))
                return 0
            print("VIOLATION property=%s replay=%s" % (self.pid, replay_path))
            return 1
        print("OK property=%s tier=%s states=%d transitions=%d s2c=%d c2s=%d wall=%.1fs"
              % (self.pid, self.tier, self.states, self.transitions, self.s2c, self.c2s, time.time() - self.t0))
        return 0


def _js(o):
    if isinstance(o, (set, frozenset)):
        return sorted(o, key=repr)
    if isinstance(o, bytes):
        return o.hex()
    if isinstance(o, tuple):
        return list(o)
    return repr(o)


def limbs32(v):
    v &= 0xFFFFFFFF
    return [v & 0xFFFF, v >> 16]


def limbs64(v):
    v &= 0xFFFFFFFFFFFFFFFF
    return [v & 0xFFFF, (v >> 16) & 0xFFFF, (v >> 32) & 0xFFFF, v >> 48]


def unlimbs(l):
    v = 0
    for i, x in enumerate(l):
        v |= x << (16 * i)
    return v


def quiet_androguard():
    """androguard logs through loguru at DEBUG by default; silence it for the harness."""
    try:
        from loguru import logger
        logger.remove()
    except Exception:
        pass
