"""Small Dalvik assembler for the harness (own encoder, written from the instruction-formats document).

Instruction = tuple.  (mnemonic, operands...) with operand order as in the Dalvik syntax column:
  10x (n,) | 12x (n,A,B) | 11n (n,A,lit) | 11x (n,AA) | 10t/20t/30t (n,target) | 22x/32x (n,A,B)
  21t (n,AA,target) | 21s (n,AA,lit) | 21h (n,AA,lit16) | 21c (n,AA,ref) | 23x (n,AA,BB,CC) | 22b (n,AA,BB,lit)
  22t (n,A,B,target) | 22s (n,A,B,lit) | 22c (n,A,B,ref) | 31i (n,AA,lit) | 31t (n,AA,target) | 31c (n,AA,ref)
  35c (n,[regs],ref) | 3rc (n,first,count,ref) | 45cc (n,[regs],mref,pref) | 4rcc (n,first,count,mref,pref) | 51l (n,AA,lit)
pseudo: ('label', name) | ('align4',) | ('raw', bytes)
        ('packed-payload', first_key, [targets], switch_label) | ('sparse-payload', [(key, target)], switch_label)
        ('array-payload', width, [values])
target: label name (str) or int (relative offset in code units).  ref: symbolic (see dexgen) or int (raw index).
"""
import struct

from .dalvik_table import BY_NAME, T


def refs(ins_list):
    out = []
    for ins in ins_list:
        n = ins[0]
        if n not in BY_NAME:
            continue
        op, fmt, rk = BY_NAME[n]
        if rk is None:
            continue
        if fmt in ('45cc', '4rcc'):
            m, p = ins[-2], ins[-1]
            if not isinstance(m, int):
                out.append(('method', m))
            if not isinstance(p, int):
                out.append(('proto', p))
            continue
        r = ins[-1]
        if isinstance(r, int):
            continue
        if rk in ('string', 'type', 'field', 'method', 'proto'):
            out.append((rk, r))
    return out


def _size(ins):
    n = ins[0]
    if n == 'label':
        return 0
    if n == 'raw':
        return len(ins[1]) // 2
    if n == 'packed-payload':
        return 4 + 2 * len(ins[2])
    if n == 'sparse-payload':
        return 2 + 4 * len(ins[1])
    if n == 'array-payload':
        return 4 + (ins[1] * len(ins[2]) + 1) // 2
    return int(BY_NAME[n][1][0])


def layout(ins_list):
    """-> (offsets in units per instruction, labels dict, total units); align4 resolved."""
    offs, labels, pos = [], {}, 0
    for ins in ins_list:
        if ins[0] == 'align4':
            offs.append(pos)
            if pos % 2:
                pos += 1
            continue
        offs.append(pos)
        if ins[0] == 'label':
            labels[ins[1]] = pos
        pos += _size(ins)
    return offs, labels, pos


def _ref(idx, rk, r):
    if isinstance(r, int):
        return r
    if rk == 'string':
        return idx['s'][r]
    if rk == 'type':
        return idx['t'][r]
    if rk == 'field':
        return idx['f'][tuple(r)]
    if rk == 'method':
        return idx['m'][(r[0], (r[1][0], tuple(r[1][1])), r[2])]
    if rk == 'proto':
        return idx['p'][(r[0], tuple(r[1]))]
    raise ValueError(rk)


def assemble(ins_list, idx=None):
    offs, labels, total = layout(ins_list)
    out = bytearray()

    def tgt(t, at):
        return (labels[t] - at) if isinstance(t, str) else t

    def u16(*vs):
        for v in vs:
            out.extend(struct.pack('<H', v & 0xFFFF))

    for ins, at in zip(ins_list, offs):
        n = ins[0]
        if n == 'label':
            continue
        if n == 'align4':
            if at % 2:
                u16(0)
            continue
        if n == 'raw':
            out.extend(ins[1])
            continue
        if n == 'packed-payload':
            _, first, targets, sw = ins
            base = labels[sw] if isinstance(sw, str) else sw
            u16(0x0100, len(targets))
            out.extend(struct.pack('<i', first))
            for t in targets:
                out.extend(struct.pack('<i', (labels[t] - base) if isinstance(t, str) else t))
            continue
        if n == 'sparse-payload':
            _, pairs, sw = ins
            base = labels[sw] if isinstance(sw, str) else sw
            u16(0x0200, len(pairs))
            for k, _t in pairs:
                out.extend(struct.pack('<i', k))
            for _k, t in pairs:
                out.extend(struct.pack('<i', (labels[t] - base) if isinstance(t, str) else t))
            continue
        if n == 'array-payload':
            _, width, vals = ins
            u16(0x0300, width)
            out.extend(struct.pack('<I', len(vals)))
            body = b''.join((v & ((1 << (8 * width)) - 1)).to_bytes(width, 'little') for v in vals)
            if len(body) % 2:
                body += b'\0'
            out.extend(body)
            continue
        op, fmt, rk = BY_NAME[n]
        a = ins[1:]
        if fmt == '10x':
            u16(op)
        elif fmt == '12x':
            u16(op | (a[0] & 0xF) << 8 | (a[1] & 0xF) << 12)
        elif fmt == '11n':
            u16(op | (a[0] & 0xF) << 8 | (a[1] & 0xF) << 12)
        elif fmt == '11x':
            u16(op | (a[0] & 0xFF) << 8)
        elif fmt == '10t':
            u16(op | (tgt(a[0], at) & 0xFF) << 8)
        elif fmt == '20t':
            u16(op, tgt(a[0], at))
        elif fmt == '30t':
            t = tgt(a[0], at) & 0xFFFFFFFF
            u16(op, t, t >> 16)
        elif fmt == '22x':
            u16(op | (a[0] & 0xFF) << 8, a[1])
        elif fmt == '32x':
            u16(op, a[0], a[1])
        elif fmt == '21t':
            u16(op | (a[0] & 0xFF) << 8, tgt(a[1], at))
        elif fmt in ('21s', '21h'):
            u16(op | (a[0] & 0xFF) << 8, a[1])
        elif fmt == '21c':
            u16(op | (a[0] & 0xFF) << 8, _ref(idx, rk, a[1]))
        elif fmt == '23x':
            u16(op | (a[0] & 0xFF) << 8, (a[1] & 0xFF) | (a[2] & 0xFF) << 8)
        elif fmt == '22b':
            u16(op | (a[0] & 0xFF) << 8, (a[1] & 0xFF) | (a[2] & 0xFF) << 8)
        elif fmt == '22t':
            u16(op | (a[0] & 0xF) << 8 | (a[1] & 0xF) << 12, tgt(a[2], at))
        elif fmt == '22s':
            u16(op | (a[0] & 0xF) << 8 | (a[1] & 0xF) << 12, a[2])
        elif fmt == '22c':
            u16(op | (a[0] & 0xF) << 8 | (a[1] & 0xF) << 12, _ref(idx, rk, a[2]))
        elif fmt == '31i':
            v = a[1] & 0xFFFFFFFF
            u16(op | (a[0] & 0xFF) << 8, v, v >> 16)
        elif fmt == '31t':
            v = tgt(a[1], at) & 0xFFFFFFFF
            u16(op | (a[0] & 0xFF) << 8, v, v >> 16)
        elif fmt == '31c':
            v = _ref(idx, rk, a[1]) & 0xFFFFFFFF
            u16(op | (a[0] & 0xFF) << 8, v, v >> 16)
        elif fmt in ('35c', '45cc'):
            regs = list(a[0]) + [0] * 5
            cnt = len(a[0])
            if fmt == '35c':
                r = _ref(idx, rk, a[1])
            else:
                r = _ref(idx, 'method', a[1])
            u16(op | (regs[4] & 0xF) << 8 | cnt << 12, r, regs[0] | regs[1] << 4 | regs[2] << 8 | regs[3] << 12)
            if fmt == '45cc':
                u16(_ref(idx, 'proto', a[2]))
        elif fmt in ('3rc', '4rcc'):
            if fmt == '3rc':
                r = _ref(idx, rk, a[2])
            else:
                r = _ref(idx, 'method', a[2])
            u16(op | (a[1] & 0xFF) << 8, r, a[0])
            if fmt == '4rcc':
                u16(_ref(idx, 'proto', a[3]))
        elif fmt == '51l':
            v = a[1] & 0xFFFFFFFFFFFFFFFF
            u16(op | (a[0] & 0xFF) << 8, v, v >> 16, v >> 32, v >> 48)
        else:
            raise ValueError(fmt)
    assert len(out) == 2 * total, (len(out), total)
    return bytes(out)
