"""Dalvik opcode table transcribed from the Dalvik bytecode / instruction-formats documents
(https://source.android.com/docs/core/runtime/dalvik-bytecode, .../instruction-formats).
op -> (mnemonic, format, refkind)   refkind in {None,'string','type','field','method','proto','callsite','handle','method+proto'}
Opcodes absent from the table are the ones the specification marks unused: 3e-43, 73, 79-7a, e3-f9.
This file is the harness' own transcription (single source for vf.asm and for spec/DalvikTable.tla); it is not derived from androguard.
"""

T = {}


def _put(op, name, fmt, ref=None):
    T[op] = (name, fmt, ref)


_put(0x00, 'nop', '10x')
for i, n in enumerate(['move', 'move/from16', 'move/16', 'move-wide', 'move-wide/from16', 'move-wide/16',
                       'move-object', 'move-object/from16', 'move-object/16']):
    _put(0x01 + i, n, ['12x', '22x', '32x'][i % 3])
for i, n in enumerate(['move-result', 'move-result-wide', 'move-result-object', 'move-exception']):
    _put(0x0a + i, n, '11x')
_put(0x0e, 'return-void', '10x')
for i, n in enumerate(['return', 'return-wide', 'return-object']):
    _put(0x0f + i, n, '11x')
_put(0x12, 'const/4', '11n')
_put(0x13, 'const/16', '21s')
_put(0x14, 'const', '31i')
_put(0x15, 'const/high16', '21h')
_put(0x16, 'const-wide/16', '21s')
_put(0x17, 'const-wide/32', '31i')
_put(0x18, 'const-wide', '51l')
_put(0x19, 'const-wide/high16', '21h')
_put(0x1a, 'const-string', '21c', 'string')
_put(0x1b, 'const-string/jumbo', '31c', 'string')
_put(0x1c, 'const-class', '21c', 'type')
_put(0x1d, 'monitor-enter', '11x')
_put(0x1e, 'monitor-exit', '11x')
_put(0x1f, 'check-cast', '21c', 'type')
_put(0x20, 'instance-of', '22c', 'type')
_put(0x21, 'array-length', '12x')
_put(0x22, 'new-instance', '21c', 'type')
_put(0x23, 'new-array', '22c', 'type')
_put(0x24, 'filled-new-array', '35c', 'type')
_put(0x25, 'filled-new-array/range', '3rc', 'type')
_put(0x26, 'fill-array-data', '31t')
_put(0x27, 'throw', '11x')
_put(0x28, 'goto', '10t')
_put(0x29, 'goto/16', '20t')
_put(0x2a, 'goto/32', '30t')
_put(0x2b, 'packed-switch', '31t')
_put(0x2c, 'sparse-switch', '31t')
for i, n in enumerate(['cmpl-float', 'cmpg-float', 'cmpl-double', 'cmpg-double', 'cmp-long']):
    _put(0x2d + i, n, '23x')
for i, n in enumerate(['if-eq', 'if-ne', 'if-lt', 'if-ge', 'if-gt', 'if-le']):
    _put(0x32 + i, n, '22t')
for i, n in enumerate(['if-eqz', 'if-nez', 'if-ltz', 'if-gez', 'if-gtz', 'if-lez']):
    _put(0x38 + i, n, '21t')
_sfx = ['', '-wide', '-object', '-boolean', '-byte', '-char', '-short']
for i, s in enumerate(_sfx):
    _put(0x44 + i, 'aget' + s, '23x')
    _put(0x4b + i, 'aput' + s, '23x')
    _put(0x52 + i, 'iget' + s, '22c', 'field')
    _put(0x59 + i, 'iput' + s, '22c', 'field')
    _put(0x60 + i, 'sget' + s, '21c', 'field')
    _put(0x67 + i, 'sput' + s, '21c', 'field')
for i, n in enumerate(['virtual', 'super', 'direct', 'static', 'interface']):
    _put(0x6e + i, 'invoke-' + n, '35c', 'method')
    _put(0x74 + i, 'invoke-' + n + '/range', '3rc', 'method')
for i, n in enumerate(['neg-int', 'not-int', 'neg-long', 'not-long', 'neg-float', 'neg-double', 'int-to-long', 'int-to-float',
                       'int-to-double', 'long-to-int', 'long-to-float', 'long-to-double', 'float-to-int', 'float-to-long',
                       'float-to-double', 'double-to-int', 'double-to-long', 'double-to-float', 'int-to-byte', 'int-to-char',
                       'int-to-short']):
    _put(0x7b + i, n, '12x')
_bin = [o + '-int' for o in ['add', 'sub', 'mul', 'div', 'rem', 'and', 'or', 'xor', 'shl', 'shr', 'ushr']] + \
       [o + '-long' for o in ['add', 'sub', 'mul', 'div', 'rem', 'and', 'or', 'xor', 'shl', 'shr', 'ushr']] + \
       [o + '-float' for o in ['add', 'sub', 'mul', 'div', 'rem']] + [o + '-double' for o in ['add', 'sub', 'mul', 'div', 'rem']]
for i, n in enumerate(_bin):
    _put(0x90 + i, n, '23x')
    _put(0xb0 + i, n + '/2addr', '12x')
for i, n in enumerate(['add-int/lit16', 'rsub-int', 'mul-int/lit16', 'div-int/lit16', 'rem-int/lit16', 'and-int/lit16',
                       'or-int/lit16', 'xor-int/lit16']):
    _put(0xd0 + i, n, '22s')
for i, n in enumerate(['add-int/lit8', 'rsub-int/lit8', 'mul-int/lit8', 'div-int/lit8', 'rem-int/lit8', 'and-int/lit8', 'or-int/lit8',
                       'xor-int/lit8', 'shl-int/lit8', 'shr-int/lit8', 'ushr-int/lit8']):
    _put(0xd8 + i, n, '22b')
_put(0xfa, 'invoke-polymorphic', '45cc', 'method+proto')
_put(0xfb, 'invoke-polymorphic/range', '4rcc', 'method+proto')
_put(0xfc, 'invoke-custom', '35c', 'callsite')
_put(0xfd, 'invoke-custom/range', '3rc', 'callsite')
_put(0xfe, 'const-method-handle', '21c', 'handle')
_put(0xff, 'const-method-type', '21c', 'proto')

UNUSED = sorted(set(range(256)) - set(T))
BY_NAME = {v[0]: (op,) + v[1:] for op, v in T.items()}
UNITS = {f: int(f[0]) for f in {v[1] for v in T.values()}}

# literal semantic width (bits) per mnemonic for formats carrying a literal
WIDE_LIT = {'const-wide/16', 'const-wide/32', 'const-wide', 'const-wide/high16'}


def kind(op):
    """control-flow kind used by the CFG specifications."""
    n = T[op][0]
    if n.startswith('goto'):
        return 'goto'
    if n.startswith('if-'):
        return 'if'
    if n in ('packed-switch', 'sparse-switch'):
        return 'switch'
    if n.startswith('return'):
        return 'return'
    if n == 'throw':
        return 'throw'
    if n == 'fill-array-data':
        return 'fill'
    return 'plain'
