"""The shipped DEX files used as larger real inputs (C->S direction)."""
import glob
import os

DIR = "/repo/tests/data/APK"


def shipped_dex(quick):
    files = sorted(glob.glob(os.path.join(DIR, "*.dex")), key=os.path.getsize)
    small = [f for f in files if os.path.getsize(f) < 100000]
    mid = [f for f in files if os.path.basename(f) == "classes.dex"]
    if quick:
        return small[-3:] + mid
    return files


def sample_methods(methods, quick, rnd, cap_quick=300, cap_thorough=6000):
    methods = list(methods)
    cap = cap_quick if quick else cap_thorough
    if len(methods) <= cap:
        return methods
    return rnd.sample(methods, cap)
