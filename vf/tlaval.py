"""Parser for TLA+ values as TLC prints them (dump files, PrintT output).

Supported: integers, strings, TRUE/FALSE, sequences/tuples <<..>>, sets {..}, records [a |-> v, ..],
functions (a :> b @@ c :> d), integer intervals a..b, model values (bare identifiers).
Returned Python values: int, str, bool, tuple (sequence), frozenset, dict (record / function), ModelValue.
"""
from __future__ import annotations


class ModelValue(str):
    pass


class _P:
    __slots__ = ("s", "i", "n")

    def __init__(self, s):
        self.s = s
        self.i = 0
        self.n = len(s)

    def ws(self):
        s, n = self.s, self.n
        i = self.i
        while i < n and s[i] in " \t\r\n":
            i += 1
        self.i = i

    def peek(self, k=1):
        return self.s[self.i:self.i + k]

    def expect(self, tok):
        self.ws()
        if not self.s.startswith(tok, self.i):
            raise ValueError("expected %r at %d: %r" % (tok, self.i, self.s[self.i:self.i + 40]))
        self.i += len(tok)

    def value(self):
        v = self.atom()
        self.ws()
        # function construction  a :> b @@ c :> d
        if self.s.startswith(":>", self.i):
            d = {}
            k = v
            while True:
                self.expect(":>")
                d[_key(k)] = self.atom()
                self.ws()
                if self.s.startswith("@@", self.i):
                    self.i += 2
                    k = self.atom()
                    self.ws()
                else:
                    break
            return d
        if self.s.startswith("..", self.i):
            self.i += 2
            hi = self.atom()
            return tuple(range(v, hi + 1)) if False else frozenset(range(v, hi + 1))
        return v

    def atom(self):
        self.ws()
        s = self.s
        c = s[self.i] if self.i < self.n else ""
        if c == "<" and s.startswith("<<", self.i):
            self.i += 2
            out = []
            self.ws()
            if s.startswith(">>", self.i):
                self.i += 2
                return tuple(out)
            while True:
                out.append(self.value())
                self.ws()
                if s.startswith(">>", self.i):
                    self.i += 2
                    return tuple(out)
                self.expect(",")
        if c == "{":
            self.i += 1
            out = []
            self.ws()
            if s.startswith("}", self.i):
                self.i += 1
                return frozenset()
            while True:
                out.append(_key(self.value()))
                self.ws()
                if s.startswith("}", self.i):
                    self.i += 1
                    return frozenset(out)
                self.expect(",")
        if c == "[":
            self.i += 1
            d = {}
            self.ws()
            if s.startswith("]", self.i):
                self.i += 1
                return d
            while True:
                self.ws()
                j = self.i
                while j < self.n and (s[j].isalnum() or s[j] == "_"):
                    j += 1
                name = s[self.i:j]
                self.i = j
                self.expect("|->")
                d[name] = self.value()
                self.ws()
                if s.startswith("]", self.i):
                    self.i += 1
                    return d
                self.expect(",")
        if c == "(":
            self.i += 1
            v = self.value()
            self.expect(")")
            return v
        if c == '"':
            j = self.i + 1
            out = []
            while s[j] != '"':
                if s[j] == "\\":
                    j += 1
                    out.append({"n": "\n", "t": "\t", "r": "\r", "f": "\f"}.get(s[j], s[j]))
                else:
                    out.append(s[j])
                j += 1
            self.i = j + 1
            return "".join(out)
        if c == "-" or c.isdigit():
            j = self.i + 1
            while j < self.n and s[j].isdigit():
                j += 1
            v = int(s[self.i:j])
            self.i = j
            return v
        j = self.i
        while j < self.n and (s[j].isalnum() or s[j] == "_"):
            j += 1
        if j == self.i:
            raise ValueError("unexpected %r at %d" % (s[self.i:self.i + 20], self.i))
        name = s[self.i:j]
        self.i = j
        if name == "TRUE":
            return True
        if name == "FALSE":
            return False
        return ModelValue(name)


def _key(v):
    if isinstance(v, dict):
        return tuple(sorted(v.items()))
    return v


def parse(text):
    p = _P(text)
    v = p.value()
    p.ws()
    if p.i != p.n:
        raise ValueError("trailing input at %d: %r" % (p.i, text[p.i:p.i + 40]))
    return v


def parse_dump(path, only=None, skip_if=None, stride=None, keep_if=None):
    """Yield one dict {var: value} per state of a TLC -dump file."""
    ordinal = [0]

    def wanted(cur):
        if skip_if and any(skip_if in v for v in cur.values()):
            return False
        if keep_if and not any(keep_if in v for v in cur.values()):
            return False
        ordinal[0] += 1
        return stride is None or (ordinal[0] % stride[0]) == stride[1] % stride[0]

    with open(path, "r") as f:
        cur = None
        buf = []
        name = None

        def flush_var():
            nonlocal name, buf
            if name is not None:
                if only is None or name in only:
                    cur[name] = "".join(buf)
            name = None
            buf = []

        for line in f:
            if line.startswith("State "):
                if cur is not None:
                    flush_var()
                    if wanted(cur):
                        yield {k: parse(v) for k, v in cur.items()}
                cur = {}
                name = None
                buf = []
                continue
            if cur is None:
                continue
            if line.startswith("/\\ "):
                flush_var()
                eq = line.index(" = ")
                name = line[3:eq]
                buf = [line[eq + 3:]]
            elif name is None and not cur and " = " in line and line.split(" = ", 1)[0].isidentifier():
                # a specification with a single variable is dumped without the leading conjunction
                eq = line.index(" = ")
                name = line[:eq]
                buf = [line[eq + 3:]]
            elif line.strip() == "":
                continue
            else:
                buf.append(line)
        if cur is not None:
            flush_var()
            if cur and wanted(cur):
                yield {k: parse(v) for k, v in cur.items()}


def to_tla(v):
    """Python -> TLA+ source text (ints, bools, str, list/tuple -> sequence, set -> set, dict -> record)."""
    if isinstance(v, bool):
        return "TRUE" if v else "FALSE"
    if isinstance(v, int):
        return str(v)
    if isinstance(v, str):
        return '"' + v.replace("\\", "\\\\").replace('"', '\\"') + '"'
    if isinstance(v, (list, tuple)):
        return "<<" + ", ".join(to_tla(x) for x in v) + ">>"
    if isinstance(v, (set, frozenset)):
        return "{" + ", ".join(to_tla(x) for x in sorted(v, key=repr)) + "}"
    if isinstance(v, dict):
        return "[" + ", ".join("%s |-> %s" % (k, to_tla(x)) for k, x in v.items()) + "]"
    raise TypeError(type(v))
