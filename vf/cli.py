"""Entry point: python -m vf.cli Cxx [--tier quick|thorough] [--replay path]"""
import argparse
import importlib
import os
import sys
import traceback

from . import core, tlc


def main(argv=None):
    ap = argparse.ArgumentParser()
    ap.add_argument("pid")
    ap.add_argument("--tier", default=os.environ.get("VERIF_TIER") or "quick", choices=["quick", "thorough"])
    ap.add_argument("--replay", default=None)
    a = ap.parse_args(argv)
    seed = int(os.environ.get("VERIF_SEED") or 0)
    core.quiet_androguard()
    try:
        mod = importlib.import_module("vf.props." + a.pid.lower())
    except ModuleNotFoundError:
        print("no check for", a.pid)
        return 2
    chk = core.Check(a.pid, a.tier, seed)
    try:
        if a.replay:
            return mod.replay(chk, a.replay)
        mod.run(chk)
        return chk.finish()
    except tlc.TLCError as e:
        print("MACHINERY-FAILURE property=%s: %s" % (a.pid, e))
        return 2
    except Exception:
        traceback.print_exc()
        print("MACHINERY-FAILURE property=%s (harness exception)" % a.pid)
        return 2


if __name__ == "__main__":
    sys.exit(main())
