"""Entry point: python -m vf.cli Cxx [--tier quick|thorough] [--replay path]"""
import argparse
import importlib
import os
import sys
import traceback

from . import core, tlc


def main(argv=None):
    ap = argparse.ArgumentParser()
    ap.add_argument("pid")
    ap.add_argument("--tier", default=os.environ.get("VERIF_TIER") or "quick", choices=["quick", "thorough"])
    ap.add_argument("--replay", default=None)
    a = ap.parse_args(argv)
    seed = int(os.environ.get("VERIF_SEED") or 0)
    core.quiet_androguard()
    try:
        mod = importlib.import_module("vf.props." + a.pid.lower())
    except ModuleNotFoundError:
        print("no check for", a.pid)
        return 2
    chk = core.Check(a.pid, a.tier, seed)
    try:
        if a.replay:
            return mod.replay(chk, a.replay)
        mod.run(chk)
        return chk.finish()
    except tlc.TLCError as e:
        print("MACHINERY-FAILURE property=%s: %s" % (a.pid, e))
        return 2
    except Exception as e:
        traceback.print_exc()
        # an exception raised *inside androguard* while it processes an input the harness generated (all of them well formed or, for the
        # robustness properties, run behind their own guards) means the observation the property speaks about could not be made: that is a
        # verdict about the code under check, not a failure of the machinery.  Exceptions raised in the harness itself stay machinery failures.
        tb = e.__traceback__
        last = None
        while tb is not None:
            last = tb.tb_frame.f_code.co_filename
            tb = tb.tb_next
        repo = os.environ.get("VERIF_REPO", "/repo")
        if last and os.path.abspath(last).startswith(os.path.join(os.path.abspath(repo), "androguard") + os.sep) and not a.pid.startswith("X"):
            chk.violation("androguard-raised:%s" % type(e).__name__, "an accessor the property observes raised instead of answering",
                          dict(exception="%s: %s" % (type(e).__name__, str(e)[:200]), where=last))
            return chk.finish()
        print("MACHINERY-FAILURE property=%s (harness exception)" % a.pid)
        return 2


if __name__ == "__main__":
    sys.exit(main())
