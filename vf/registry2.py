"""Registry entries of the later batches (C26-C35, C21).  Merged into registry.CLAIMED."""
CLAIMED = {}
# growth of the specification beyond the listed properties: `./check Xnn`, evidence under extensions/evidence, findings are printed as EXTENSION-FINDING (exit 0)
EXTENSIONS = [
    dict(name="tlc+AccessFlags", path="/verif/spec/AccessFlags.tla",
         text="X01: access_flags of classes / fields / methods as the DEX format defines them per kind and the words they are rendered with; every single bit and pair of bits replayed through "
              "ClassDefItem / EncodedField / EncodedMethod.get_access_flags_string() (vf/props/x01.py); finding: one table is used for all kinds (volatile -> 'bridge', transient -> 'varargs', annotation unnamed)"),
    dict(name="tlc+SessionStore", path="/verif/spec/SessionStore.tla",
         text="X02: a Session as a dictionary determined by the set of files added since the last reset (add DEX / add APK / reset histories of <= 3 calls, TLC: SetDetermined); every history replayed on "
              "a real Session (vf/props/x02.py), isOpen / get_objects_dex / get_all_apks / get_nb_strings validated by SessionStore_Trace; finding: the answers depend on the order of the add calls when a DEX "
              "file is added on its own and inside an APK (analyzed_vms is keyed by the DEX digest and overwritten)"),
    dict(name="tlc+CallGraph", path="/verif/spec/CallGraph.tla",
         text="X03: Analysis.get_call_graph as a function of the call relation, the methods the filters select and no_isolated (sources, nodes, edges; TLC: EdgesAreCalls, EndpointsAreNodes, NodesJustified, "
              "NoIsolated, AllSelected, Whole, and the action property Monotone over every call relation of 3 methods with code + 1 external method); every enumerated query replayed on a generated program "
              "(vf/props/x03.py), class-filter and whole-program queries on the shipped DEX files, validated by CallGraph_Trace (nodes, edges, each once, external attribute); no finding"),
    dict(name="tlc+ImpliedPerms", path="/verif/spec/ImpliedPerms.tla",
         text="X04: APK.get_uses_implied_permission_list as the platform's package-parser procedure (new permissions below API 4, then the split rules one at a time in any order) over every subset of the "
              "seven permissions x target / min level; TLC: ClosedForm (every order ends in the closed form), NeverAsked, Closed, Justified, Grows, Terminates; every enumerated manifest is written by the "
              "independent AXML writer, parsed by APK and validated by ImpliedPerms_Trace (vf/props/x04.py); no finding"),
    dict(name="tlc+IconSelect", path="/verif/spec/IconSelect.tla",
         text="X05: APK.get_app_icon as a procedure (main activity's icon, else the application's, else mipmap/ic_launcher, else drawable/ic_launcher; then a scan of the resource's configurations for the "
              "largest density not above max_dpi); TLC (IconSelectMC): ClosedForm, PickIsCandidate, OrderFree (independent of the table order), Improves, Terminates; every enumerated case is built as an "
              "APK (independent AXML and ARSC writers), queried and validated by IconSelect_Trace (vf/props/x05.py); finding: the main activity's icon is ignored when the manifest names the activity "
              "relative to the package ('.Main'): the lookup compares the raw attribute with the qualified name"),
    dict(name="tlc+LauncherEntry", path="/verif/spec/LauncherEntry.tla",
         text="X06: APK.get_main_activities as a scan over activities and their intent-filters (filter = {MAIN?, LAUNCHER?}); two scan variants in one spec: PerFilter (the platform's rule: one filter must declare "
              "both) and androguard's (two sets collected over all filters, intersected at the end); TLC: Exact (platform variant only), NoEntryMissed, Justified, DisabledNeverReported, AlignedExact, Grows, "
              "Terminates over 2 activities x enabled x every sequence of <= 2 filters; all 1764 manifests written by the independent AXML writer, parsed by APK and validated by LauncherEntry_Trace "
              "(vf/props/x06.py); finding: an activity with MAIN in one filter and LAUNCHER in another is reported as a main activity"),
]


def _simple(spec, text, note, tech, ref):
    return dict(spec=spec, text=text, note=note, technique=tech, ref=ref)


CLAIMED["C26"] = _simple(["Axml", "AxmlMC", "Axml_Trace"],
    "Axml.tla defines a document tree (tag, namespace, attribute set, text, children), its serialisation to a chunk stream (element start / text / element end / chunk of unknown type) and the parser "
    "as a transition system over the stream (cursor, stack of open elements, finished root); TLC checks on every document of <= 3 elements (four tree shapes, optional namespace, <= 2 of 4 attributes, "
    "text, an unknown chunk at any position) that the reader ends with the tree that was serialised and a balanced stack. Each enumerated document is written by an independent AXML writer (vf/axmlgen.py, "
    "UTF-8 and UTF-16 pools, resource map) and parsed by AXMLPrinter; the observed tree (plus random deep documents) is validated record by record by Axml_Trace.",
    "Trusted: vf/axmlgen.py (written from the format description, shares no code with androguard), TLC. Documents are well formed; malformed streams belong to C35.",
    "TLA+ chunk-stream reader model checked with TLC; enumerated documents written by an independent encoder and parsed by the real parser; parsed trees validated by a TLA+ trace spec", "4/C26")
CLAIMED["C27"] = _simple(["ResValue", "ResValueMC", "ResValue_Trace"],
    "ResValue.tla defines the text of a typed resource value (Res_value): references, attributes, decimal and hexadecimal integers (two's complement over 16-bit limbs), booleans, the four colour "
    "forms, floats, and dimensions / fractions as (signed 24-bit mantissa, radix, unit) -> exact decimal text; TLC checks the definitions against boundary tables (sign bit of the mantissa, every radix and "
    "unit, 0x80000000, 0xFFFFFFFF). format_value / complexToFloat are run on every enumerated (type, data) and on random data words; Trace validates the produced text (floats by exact rational).",
    "Trusted: TLC, the decimal-text comparison of floats as <<numerator, denominator>> limbs.",
    "TLA+ definition of the value text model-checked with TLC; every enumerated value formatted by the real code and validated by a TLA+ trace spec", "4/C27")
CLAIMED["C28"] = _simple(["Arsc", "ArscMC", "Arsc_Trace"],
    "Arsc.tla defines a resource table as a set of entries (package, type, index, configuration, value kind, key) and what the table queries must return (packages, types, ids, per-id configurations "
    "with stored values, name <-> id). ArscMC enumerates tables of one package / one type with three entry slots in two configurations (each slot absent / string / integer / reference / bag; plain, sparse "
    "and 16-bit-offset layouts) and TLC checks WellFormed-ness and query consistency. Each enumerated table is written by an independent resources.arsc writer (vf/arscgen.py; UTF-8/UTF-16 pools, sparse and compact entries) and parsed by "
    "ARSCParser; the answers of get_packages_names / get_types / get_res_configs / get_id / get_resolved_res_configs ... are validated by Arsc_Trace.",
    "Trusted: vf/arscgen.py, TLC. Bags only in non-string types (androguard's table analysis assumes string types hold plain values).",
    "TLA+ table model checked with TLC; enumerated tables written by an independent encoder and parsed by the real parser; query answers validated by a TLA+ trace spec", "4/C28")
CLAIMED["C29"] = _simple(["Arsc", "ResResolve", "Arsc_Trace"],
    "ResResolve.tla models reference resolution as a transition system (work list of ids, visited set, collected concrete values) and checks with TLC, on every reference graph of <= 3 ids including "
    "self references and cycles, that it terminates (liveness) and collects exactly Arsc!ResolvedValues (reachability closure); the variant without the visited set yields the lasso counterexample. Every "
    "enumerated graph is encoded into a resources.arsc and resolved by ARSCParser.ResourceResolver / get_resolved_res_configs under a recursion guard and a time limit; results are validated by Arsc_Trace.",
    "Trusted: vf/arscgen.py, TLC.",
    "TLA+ resolution transition system (safety + liveness) model-checked with TLC; every reference graph replayed into the real resolver; results validated by a TLA+ trace spec", "4/C29")
CLAIMED["C30"] = _simple(["Locale", "Locale_Trace"],
    "Locale.tla defines the packing of language / region codes in ResTable_config (two ASCII bytes, or the 3-letter form: bit 7 of the first byte set, 5-bit letters relative to 'a' (language) or '0' (region)) "
    "and its inverse; TLC checks Unpack(Pack(c)) = c for all 2- and 3-character codes over a bounded alphabet and that the two forms never collide. Every enumerated code and random codes are written into "
    "generated tables, read back through ARSCResTableConfig.get_language / get_country / get_qualifier, and validated by Locale_Trace.",
    "Trusted: TLC, vf/arscgen.py.",
    "TLA+ pack/unpack definitions model-checked with TLC; every code replayed through the real configuration reader; validated by a TLA+ trace spec", "4/C30")
CLAIMED["C31"] = _simple(["Manifest", "ManifestMC", "Manifest_Trace"],
    "Manifest.tla defines what the manifest queries of an APK must return from an abstract manifest (package, version, uses-sdk, permissions with maxSdkVersion, features, libraries, components with "
    "written name shapes '.X', 'X', 'a.b.X', enabled flag, MAIN/LAUNCHER filters): name completion, declared order, main activity, effective target SDK. ManifestMC enumerates manifests over a bounded "
    "universe and TLC checks the definitions' invariants (completed names are qualified, main activity is an enabled launcher, ...). Each (strided) enumerated manifest is encoded to binary XML, zipped and "
    "opened with APK(); the answers are validated by Manifest_Trace together with random larger manifests.",
    "Trusted: vf/axmlgen.py, TLC. MAIN and LAUNCHER in one intent-filter; with several launcher activities any is accepted.",
    "TLA+ manifest query definitions model-checked with TLC; enumerated manifests encoded and opened with the real APK class; answers validated by a TLA+ trace spec", "4/C31")
CLAIMED["C34"] = _simple(["ApkFiles", "ApkFiles_Trace"],
    "ApkFiles.tla defines, over entry names as character sequences, which entries are DEX files (root-level 'classes' digits* '.dex') and the multidex flag; TLC enumerates every archive of <= 4 names "
    "out of a universe with look-alikes ('classes-dex', 'classes1xdex', 'lib/classes.dex', 'Classes.dex', 'classes.dex2') and checks that look-alikes and nested names are never DEX names. Each enumerated "
    "archive is written with Python's zipfile (stored and deflated) and opened with APK(raw=True); listing, content of every entry, FileNotPresent, get_dex_names, get_all_dex and is_multidex are "
    "compared with the state and validated by ApkFiles_Trace together with random archives with nested and non-ASCII names.",
    "Trusted: Python's zipfile as the independent archive writer, TLC.",
    "TLA+ definition of the DEX listing model-checked with TLC over all small archives; every archive built and opened with the real APK class; observations validated by a TLA+ trace spec", "4/C34")
CLAIMED["C33"] = _simple(["SigBlock", "SigBlockMC", "SigBlock_Trace"],
    "SigBlock.tla gives the apksig encoding of v2 / v3 / v3.1 signer lists as byte sequences (Enc*), the reader (Dec*) and the queries of the APK object defined on the block's id-value pairs (presence "
    "flags, first block with an id, duplicate ids, certificates, public keys, signers with digests / signatures / SDK bounds / attributes). SigBlockMC models the object answering query histories with the "
    "block parsed lazily; TLC checks for every block of <= 2 (3) pairs out of 7 and every history of <= 2 of the 13 queries that each answer is the one defined on the encoded pairs, that Dec(Enc(x)) = x and "
    "that the first block wins; three implementation-shaped variants (duplicate query that does not load, v3.1 tied to v3, first-element-only list reader) must yield their counterexamples. Every (strided) "
    "enumerated history is replayed on a fresh APK object built from the bytes TLC produced with Enc*; random blocks written by an independent Python encoder and random histories are validated by "
    "SigBlock_Trace, which decodes the written bytes with the TLA+ reader.",
    "Trusted: TLC, the zip container from Python's zipfile with the block spliced in before the central directory. Well-formed blocks only (malformed ones belong to C35); numbers < 2^31.",
    "TLA+ codec + lazy-loading query model checked with TLC (incl. expected counterexamples of implementation-shaped variants); histories replayed on real objects; answers validated by a TLA+ trace spec", "4/C33")
CLAIMED["C21"] = _simple(["Alu", "AluMC", "DalvikMachine", "DalvikMachineMC", "DalvikMachine_Trace"],
    "Alu.tla defines two's complement add / sub / mul / div / rem / shifts / comparisons / extensions on little-endian byte sequences (TLC integers have 32 bits); AluMC checks them against TLC's integers "
    "on small values and against algebraic laws at the int and long boundaries (MIN / -1, wrap-around, truncating division). DalvikMachine.tla is the integer part of the Dalvik machine (one Step per "
    "instruction: moves, constants in all encodings, int / long arithmetic in 3-register, 2addr, lit8, lit16 forms, conversions, cmp-long, if-tests, goto, packed / sparse switch, returns). DalvikMachineMC "
    "runs every operation as a one-operation method on all tuples of 6 (12) boundary values (TLC: type invariant, halting). Each enumerated method is assembled into a DEX file, decompiled by DAD, compiled "
    "by javac and run in a JVM on the same tuples; so are random structured methods (assignments in every instruction form, if/else with && and ||, nested counted loops, switches, early returns). "
    "DalvikMachine_Trace executes each method on each tuple one instruction per TLC step and compares the outcome (value or exception class) with the JVM's; the harness' own Python interpreter must agree "
    "with the machine on result and step count (machinery failure otherwise).",
    "Trusted: vf/asm.py + vf/dexgen.py (abstract instruction -> DEX), javac 17 / the JVM as the meaning of Java source, TLC. Known findings: shapes for which DAD emits source javac rejects, identified by "
    "the class of the compiler message; every semantic difference is a violation.",
    "TLA+ Dalvik machine over byte-sequence arithmetic, model-checked with TLC; enumerated and random methods decompiled, compiled with javac and executed; executions validated step by step by a TLA+ trace spec", "4/C21")
CLAIMED["C35"] = _simple(["NullTerm", "ResHeader", "ChunkWalk", "ParseRun_Trace"],
    "Three loop shapes of the parsers are transition systems with a termination measure: NullTerm (read_null_terminated_string: chunks of 128 bytes until a zero byte; buffer abstracted to length, start and "
    "position of the first zero), ResHeader (ARSCHeader.__init__ at byte level, incl. the retry loop skipping dummy bytes) and ChunkWalk (the chunk loops of AXMLParser / ARSCParser over ResHeader's "
    "guarantee that an accepted header declares >= 8 bytes). TLC checks termination (liveness under weak fairness) and a step bound linear (ChunkWalk: quadratic) in the buffer length on every bounded "
    "buffer; the variants 'no end-of-buffer check' and 'any declared size accepted' must yield their counterexamples. Every NullTerm state and every (strided) ResHeader buffer is replayed into the real "
    "function under a call budget; DEX / AXML / ARSC / APK parsers are run in forked workers on crafted files (unterminated string data, huge declared counts) and on truncation / byte / 32-bit word / fill "
    "mutants of 13 seed files (DEX mutants with recomputed checksum), work measured in call events; ParseRun_Trace validates every run against the budget BASE + PER_BYTE * size.",
    "Trusted: sys.setprofile call events as the measure of work (deterministic, load independent), the wall-clock alarm as a backstop only. The budget leaves a factor of ~250 above the largest work per "
    "byte seen on any explored input; a parser slower than that by design would need the constants in ParseRun_Trace.tla revisited.",
    "TLA+ loop models with liveness checked by TLC (incl. expected counterexamples); model states replayed into the real loop functions under a call budget; whole-parser runs validated by a TLA+ trace spec", "4/C35")
CLAIMED["C32"] = _simple(["V1Verify", "V1VerifyMC", "V1Verify_Trace"],
    "V1Verify.tla models a v1 signature block with abstract cryptography (a signature is the pair of signing key and signed message; certificates [issuer, serial, key]; signer infos with optional signed "
    "attributes) and get_certificate_der as a step machine (next signer info, find the referenced certificate, check the attributes against the .SF digest, verify the signature); TLC checks on every block "
    "of the universe (10 single alterations of the signer info, altered .SF, four certificate bags incl. a substituted certificate with the same issuer and serial, minSdk below / from 24, one or two signer "
    "infos) that the reported certificate verifies the signature file (ReportedVerifies), that the procedure terminates, and that two weakened variants (digest attribute not compared, any certificate used) "
    "yield counterexamples. Every enumerated block is realised with real RSA-2048 / EC P-256 / DSA-2048 keys, X.509 certificates and PKCS#7 structures inside a generated APK; what "
    "get_certificate_der / get_certificates_v1 report is validated by V1Verify_Trace against the property (Sound), together with single-byte alterations of the .SF and of the signature value at every "
    "(quick: 10 sampled) position and random multi-signer blocks.",
    "Trusted: TLC, `cryptography` and asn1crypto as the means to produce signatures and structures; the abstraction (which signature verifies under which certificate over which message) is cross-checked "
    "for every block by direct verification, a disagreement is a machinery failure. An exception escaping the call counts as nothing reported.",
    "TLA+ step machine of the verification procedure over abstract cryptography, model-checked with TLC (safety, termination, counterexamples of weakened variants); blocks realised with real keys and "
    "replayed; reports validated by a TLA+ trace spec", "4/C32")
