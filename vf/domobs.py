"""Shared machinery of C18 (dominators) and C19 (reverse post-order): spec Dominators / DominatorsMC / Dominators_Trace."""
import itertools
import random

from . import tlc

CLAUSES = {"C18": ("C18.immediate-dominators",), "C19": ("C19.valid-rpo", "C19.forward-across-components")}


def run_graph(n, edges, catch=()):
    """build the decompiler's Graph over nodes 1..n (node 1 = entry); -> (idom list (0 = none), num list)"""
    from androguard.decompiler import graph, node
    g = graph.Graph()
    nodes = {k: node.Node("n%d" % k) for k in range(1, n + 1)}
    for k in range(1, n + 1):
        g.add_node(nodes[k])
    catch = set(catch)
    for (a, b) in edges:
        if (a, b) in catch:
            # bare Nodes carry no catch type (add_catch_edge needs basic blocks): fill the catch-edge tables directly
            if nodes[b] not in g.catch_edges[nodes[a]]:
                g.catch_edges[nodes[a]].append(nodes[b])
                g.reverse_catch_edges[nodes[b]].append(nodes[a])
        else:
            g.add_edge(nodes[a], nodes[b])
    g.entry = nodes[1]
    inv = {id(v): k for k, v in nodes.items()}
    dom = g.immediate_dominators()
    idom = [0 if dom.get(nodes[k]) is None else inv[id(dom[nodes[k]])] for k in range(1, n + 1)]
    g.compute_rpo()
    num = [nodes[k].num for k in range(1, n + 1)]
    return idom, num


def run_history(n, edges, catch, rnd):
    """the same Graph object numbered, then edited (a node removed / another entry chosen) and numbered again, as the decompiler's
    passes do; -> (kind, n', edges', idom', num') of the edited graph relabelled 1..n' with its entry as node 1, or None when no edit
    leaves a rooted graph"""
    from androguard.decompiler import graph, node
    g = graph.Graph()
    nodes = {k: node.Node("n%d" % k) for k in range(1, n + 1)}
    for k in range(1, n + 1):
        g.add_node(nodes[k])
    catch = set(catch)
    for (a, b) in edges:
        if (a, b) in catch:
            if nodes[b] not in g.catch_edges[nodes[a]]:
                g.catch_edges[nodes[a]].append(nodes[b])
                g.reverse_catch_edges[nodes[b]].append(nodes[a])
        else:
            g.add_edge(nodes[a], nodes[b])
    g.entry = nodes[1]
    g.immediate_dominators()
    g.compute_rpo()
    options = []
    for v in range(2, n + 1):
        rest = [(a, b) for (a, b) in edges if v not in (a, b)]
        keep = [k for k in range(1, n + 1) if k != v]
        ren = {k: i + 1 for i, k in enumerate(keep)}
        if rooted(n - 1, [(ren[a], ren[b]) for a, b in rest]):
            options.append(("remove", v, keep, rest))
    for r in range(2, n + 1):
        keep = [r] + [k for k in range(1, n + 1) if k != r]
        ren = {k: i + 1 for i, k in enumerate(keep)}
        if rooted(n, [(ren[a], ren[b]) for a, b in edges]):
            options.append(("reroot", r, keep, list(edges)))
    if not options:
        return None
    kind, v, keep, rest = rnd.choice(options)
    if kind == "remove":
        g.remove_node(nodes[v])
    else:
        g.entry = nodes[v]
    ren = {k: i + 1 for i, k in enumerate(keep)}
    dom = g.immediate_dominators()
    inv = {id(nodes[k]): ren[k] for k in keep}
    idom = [0 if dom.get(nodes[k]) is None else inv[id(dom[nodes[k]])] for k in keep]
    g.compute_rpo()
    num = [nodes[k].num for k in keep]
    return kind, len(keep), sorted((ren[a], ren[b]) for a, b in rest), idom, num


def rooted(n, edges):
    succ = {}
    for a, b in edges:
        succ.setdefault(a, []).append(b)
    seen, todo = {1}, [1]
    while todo:
        x = todo.pop()
        for y in succ.get(x, ()):
            if y not in seen:
                seen.add(y)
                todo.append(y)
    return len(seen) == n


def random_graph(rnd, n, kind):
    """rooted digraph on n nodes: spanning arborescence plus extra edges (dense / sparse / irreducible patterns / self loops)"""
    edges = set()
    order = list(range(2, n + 1))
    rnd.shuffle(order)
    placed = [1]
    for v in order:
        edges.add((rnd.choice(placed), v))
        placed.append(v)
    extra = {"sparse": n // 3, "dense": 3 * n, "loops": n}[kind]
    for _ in range(extra):
        a, b = rnd.randrange(1, n + 1), rnd.randrange(1, n + 1)
        if kind == "loops" and rnd.random() < 0.3:
            b = a
        edges.add((a, b))
    if n >= 3 and rnd.random() < 0.5:      # classic irreducible triangle: two entries into a cycle
        a, b = rnd.sample(range(2, n + 1), 2)
        edges |= {(1, a), (1, b), (a, b), (b, a)}
    return sorted(edges)


def shape(n, edges):
    self_loops = any(a == b for a, b in edges)
    return "n%s%s" % (n if n <= 5 else ">5", "+selfloop" if self_loops else "")


def run_property(chk, pid):
    quick = chk.tier == "quick"
    rnd = random.Random(chk.seed)
    mine = CLAUSES[pid]
    recs = []
    cfgs = ["DominatorsMC_3.cfg"] + ([] if quick else ["DominatorsMC_4.cfg"])
    chk.bounds = dict(exhaustive="all rooted digraphs on 1..3 nodes" + ("" if quick else " and on 4 nodes (38 912)"),
                      sampled="4-node graphs (1 in 6)" if quick else "5-node graphs (random 60 000)", random="6..%d nodes" % (100 if quick else 300))
    n_s2c = 0
    for cfg in cfgs:
        r, states = tlc.dump_states("DominatorsMC", cfg, timeout=3000, heap="6g")
        chk.model(r, "DominatorsMC/" + cfg)
        nn = int(cfg.split("_")[1][0])
        for st in states:
            edges = sorted((a, b) for (a, b) in st["E"])
            want = list(st["idom"])          # a function over 1..n is printed by TLC as a sequence
            catch = [e for e in edges if rnd.random() < 0.3]
            idom, num = run_graph(nn, edges, catch)
            if pid == "C18" and idom != want:
                chk.violation("model:C18.immediate-dominators:" + shape(nn, edges), "Dominators.IDom", dict(n=nn, edges=edges, want=want, got=idom))
            recs.append(dict(n=nn, edges=[list(e) for e in edges], idom=idom, num=num, full=True, src="model"))
            n_s2c += 1
            h = run_history(nn, edges, catch, rnd)
            if h is not None:
                recs.append(dict(n=h[1], edges=[list(e) for e in h[2]], idom=h[3], num=h[4], full=True, src="numbered-again-after-" + h[0]))
        if states:
            chk.sample(dict(n=nn, edges=sorted(map(list, states[len(states) // 2]["E"])), spec_idom=list(states[len(states) // 2]["idom"])), cap=2)
    # 1- and 2-node graphs, and 4-node graphs enumerated by the harness (quick: 1 in 6), judged by the trace spec
    for nn in (1, 2, 4):
        pairs = [(a, b) for a in range(1, nn + 1) for b in range(1, nn + 1)]
        if nn == 4 and not quick:
            continue
        k = 0
        for mask in range(1 << len(pairs)):
            edges = [pairs[i] for i in range(len(pairs)) if mask >> i & 1]
            if not rooted(nn, edges):
                continue
            k += 1
            if nn == 4 and k % 6 != chk.seed % 6:
                continue
            idom, num = run_graph(nn, edges, [e for e in edges if rnd.random() < 0.3])
            recs.append(dict(n=nn, edges=[list(e) for e in edges], idom=idom, num=num, full=True, src="enum%d" % nn))
    if not quick:
        pairs = [(a, b) for a in range(1, 6) for b in range(1, 6)]
        for _ in range(60000):
            edges = [p for p in pairs if rnd.random() < rnd.choice([0.15, 0.3, 0.5])]
            if rooted(5, edges):
                idom, num = run_graph(5, edges, [e for e in edges if rnd.random() < 0.3])
                recs.append(dict(n=5, edges=[list(e) for e in edges], idom=idom, num=num, full=True, src="rand5"))
    # (mistakes in the path compression of the dominator algorithm only show on larger graphs: measured with a seeded change, 1 graph in
    #  75 at 25 nodes, 1 in 12 at 60, 1 in 6 at 100 -- hence the block of 100-node graphs in the quick tier too)
    sizes = [6, 7, 8, 10, 15, 25, 40, 60, 100] if quick else [6, 8, 12, 20, 40, 80, 100, 150, 300]
    reps = 12 if quick else 120
    for n in sizes:
        for k in range((reps if n <= 80 else 6) if n != 100 else (36 if quick else 150)):
            edges = random_graph(rnd, n, rnd.choice(["sparse", "dense", "loops"]))
            idom, num = run_graph(n, edges, [e for e in edges if rnd.random() < 0.2])
            recs.append(dict(n=n, edges=[list(e) for e in edges], idom=idom, num=num, full=n <= 5, src="random"))
            h = run_history(n, edges, [e for e in edges if rnd.random() < 0.2], rnd) if n <= 40 else None
            if h is not None:
                recs.append(dict(n=h[1], edges=[list(e) for e in h[2]], idom=h[3], num=h[4], full=h[1] <= 5, src="numbered-again-after-" + h[0]))
    # deep graphs (the depth-first searches are recursive): ladders of 1500 (and 3000) nodes, judged by their closed forms
    for n in ([1500] if quick else [1500, 3000]):
        edges = [(k, k + 1) for k in range(1, n)] + [(k, n) for k in range(1, n - 1)]
        try:
            idom, num = run_graph(n, edges)
        except RecursionError:
            idom, num = [0] * n, [0] * n
        recs.append(dict(n=n, edges=[], idom=idom, num=num, full=False, deep=True, src="ladder"))
    for r_ in recs:
        r_.setdefault("deep", False)
    res = tlc.validate("Dominators_Trace", "Dominators_Trace.cfg", recs, shards=16, heap="3g", timeout=6000)
    chk.trace_result(res, "Dominators_Trace")
    chk.c2s -= res["accepted"]
    chk.s2c += n_s2c
    chk.c2s += len(recs) - n_s2c
    for gi, why in res["rejects"]:
        rel = sorted(w for w in why[0] if w in mine or w.startswith("generator"))
        if not rel:
            continue
        rec = recs[gi]
        chk.violation("%s:%s:%s" % (rec["src"], "+".join(rel), shape(rec["n"], [tuple(e) for e in rec["edges"]])), "Dominators_Trace:" + "+".join(rel),
                      rec if rec["n"] <= 12 else dict(n=rec["n"], idom=rec["idom"][:20], num=rec["num"][:20]))
    big = next(r for r in recs if r["src"] == "random")
    chk.sample(dict(n=big["n"], edges=big["edges"][:12], idom=big["idom"], num=big["num"]), cap=3)
    rejected = {i for i, _ in res["rejects"]}
    k = next((i for i in range(len(recs)) if i not in rejected and recs[i]["n"] == 4 and len(recs[i]["edges"]) >= 4), None)
    if k is None:
        k = next((i for i in range(len(recs)) if i not in rejected and recs[i]["n"] == 3 and len(recs[i]["edges"]) >= 3), None)
    if k is not None:
        bad = dict(recs[k])
        bad.setdefault("deep", False)
        if pid == "C18":
            bad["idom"] = [0] + [1 + (x % bad["n"]) for x in bad["idom"][1:]]
        else:
            bad["num"] = [bad["num"][1], bad["num"][0]] + bad["num"][2:]
        st = tlc.validate("Dominators_Trace", "Dominators_Trace.cfg", [bad], shards=1)
        if not st["rejects"]:
            raise tlc.TLCError("binding self-test failed")
        chk.extra["self_test_rejected"] = True
    chk.assumptions += ["'rooted' = every node reachable from the entry (as Graph construction guarantees)",
                        "for graphs with more than 5 nodes C19 is checked through its search-independent consequence (entry = 1, bijection, edges between different strongly connected components go upwards)"]
