#!/usr/bin/env python3
"""DESIGN.md = design/part1_plan.md (written before the code) + design/asbuilt.md + the table of seeded changes (from seeded/*/)."""
import glob, json, os
root = os.path.dirname(os.path.dirname(os.path.abspath(__file__)))
out = [open(os.path.join(root, "design/part1_plan.md")).read().rstrip("\n"), "", open(os.path.join(root, "design/asbuilt.md")).read().rstrip("\n"), ""]
rows = []
for d in sorted(glob.glob(os.path.join(root, "seeded/*/"))):
    try:
        meta = json.load(open(os.path.join(d, "meta.json")))
        res = json.load(open(os.path.join(d, "result.json")))
    except (OSError, ValueError):
        continue
    rows.append("| %s | %s | %s | %s | %s |" % (os.path.basename(d.rstrip("/")), meta.get("summary", "").replace("|", "/"), meta.get("trigger", "").replace("|", "/"),
                                         ", ".join(res.get("caught_by", [])) or "-", res.get("note", "")))
out += ["### 8.7 Seeded changes and the checks that catch them", "",
        "Each change was produced by a fresh sub-agent that saw only the property text and its own scratch worktree, was confirmed by me (demonstration fails with / passes without the change, the pinned "
        "128-test baseline still passes with it: `confirm.txt`, written by `tools/seedverify.sh` from a fresh worktree), is kept under `seeded/<id>/` (patch.diff, demo.py, meta.json, result.json) and "
        "was applied to a scratch worktree of /repo's HEAD (never to /repo itself) for the check runs (`tools/seedrun.sh`, `VERIF_REPO` / `VERIF_OUT`). "
        "Five rounds (`<id>`, `<id>b` ... `<id>e`; 40 + 40 + 40 + 40 + 13 changes): in every round between a quarter and a third of the changes showed a gap of a generator, "
        "a call history or an access path at first (9 of 40 in round three, 13 of 40 in round four, 9 of 13 in round five, which targeted the weakest properties); every gap was closed by "
        "widening what is enumerated (section 8.5a), after which all 173 changes are caught by the quick check of their property. The `note` column says what was missing.", "",
        "| seed | change | needs | caught by (check:tier) | note |", "|---|---|---|---|---|"] + rows + [""]
open(os.path.join(root, "DESIGN.md"), "w").write("\n".join(out))
print("DESIGN.md written:", len(rows), "seeded rows")
