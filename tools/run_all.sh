#!/bin/sh
# usage: run_all.sh <tier> <seed> <parallel>   -- runs every claimed check, prints one line per check
tier=${1:-quick}; seed=${2:-1}; par=${3:-3}
out=/tmp/scratch/runall_${tier}_${seed}; mkdir -p $out
jq -r '.checks[].property_id // empty' /verif/MANIFEST.json 2>/dev/null | sort -u > $out/ids.txt
[ -s $out/ids.txt ] || jq -r '.checks | keys[]' /verif/MANIFEST.json > $out/ids.txt
cat $out/ids.txt | xargs -P $par -I{} sh -c 'start=$(date +%s); VERIF_SEED='$seed' /verif/check {} --tier '$tier' > '$out'/{}.log 2>&1; rc=$?; echo "{} rc=$rc $(( $(date +%s) - start ))s $(grep -E "^(OK|VIOLATION|MACHINERY)" '$out'/{}.log | head -1 | cut -c1-160)"' | tee $out/summary.txt
