#!/bin/sh
# usage: seed3.sh <id> <checks...>  -- stores /tmp/seed5/<id> as seeded/<id>d, starts the from-scratch confirmation in the background, runs the checks
id=$1; shift
mkdir -p /verif/seeded/${id}e && cp /tmp/seed5/$id/patch.diff /tmp/seed5/$id/demo.py /tmp/seed5/$id/meta.json /verif/seeded/${id}e/
git -C /repo worktree remove --force /tmp/wt5/$id 2>/dev/null
(nohup /verif/tools/seedverify.sh ${id}e >/dev/null 2>&1 &)
/verif/tools/seedrun.sh ${id}e "$@"
