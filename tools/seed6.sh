#!/bin/sh
# usage: seed6.sh <id> <checks...>  -- stores /tmp/seed6/<id> as seeded/<id>f, starts the from-scratch confirmation in the background, runs the checks
id=$1; shift
mkdir -p /verif/seeded/${id}f && cp /tmp/seed6/$id/patch.diff /tmp/seed6/$id/demo.py /tmp/seed6/$id/meta.json /verif/seeded/${id}f/
git -C /repo worktree remove --force /tmp/wt6/$id 2>/dev/null
(nohup /verif/tools/seedverify.sh ${id}f >/dev/null 2>&1 &)
/verif/tools/seedrun.sh ${id}f "$@"
