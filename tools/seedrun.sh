#!/bin/sh
# usage: seedrun.sh <seed-id> <check> [<check> ...]
# applies seeded/<id>/patch.diff to /repo, runs the named quick checks (4 at a time), undoes the change, writes seeded/<id>/result.json
id=$1; shift
mkdir -p /tmp/scratch/seedrun
cd /repo && git diff --quiet || { echo "/repo is dirty"; exit 2; }
git -C /repo apply /verif/seeded/$id/patch.diff || exit 2
printf '%s\n' "$@" | xargs -P 4 -I{} sh -c '/verif/check {} --tier quick > /tmp/scratch/seedrun/'$id'_{}.log 2>&1; echo "{} rc=$?" > /tmp/scratch/seedrun/'$id'_{}.rc'
git -C /repo checkout -- .
/venv/bin/python - "$id" "$@" <<'PY'
import json, re, sys
sid, checks = sys.argv[1], sys.argv[2:]
caught, quiet, broken = [], [], []
for c in checks:
    log = open('/tmp/scratch/seedrun/%s_%s.log' % (sid, c)).read()
    rc = int(open('/tmp/scratch/seedrun/%s_%s.rc' % (sid, c)).read().split('rc=')[1])
    if rc == 1 and re.search(r'^VIOLATION property=%s ' % c, log, re.M):
        caught.append(c + ':quick')
    elif rc == 0:
        quiet.append(c)
    else:
        broken.append('%s(rc=%d)' % (c, rc))
res = dict(seed=sid, caught_by=caught, not_caught_by=quiet, machinery_failure=broken, note='')
try:
    old = json.load(open('/verif/seeded/%s/result.json' % sid))
    res['note'] = old.get('note', '')
except (OSError, ValueError):
    pass
json.dump(res, open('/verif/seeded/%s/result.json' % sid, 'w'), indent=1)
print(sid, 'caught by', caught, '| quiet', quiet, '| machinery', broken)
PY
