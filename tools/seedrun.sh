#!/bin/sh
# usage: seedrun.sh <seed-id> <check> [<check> ...]
# applies seeded/<id>/patch.diff to a scratch worktree of /repo's HEAD, runs the named quick checks against it (VERIF_REPO; 4 at a time),
# removes the worktree, writes seeded/<id>/result.json.  /repo itself is not touched.
id=$1; shift
mkdir -p /tmp/scratch/seedrun
wt=/tmp/scratch/seedrun/wt_$id
git -C /repo worktree remove --force $wt 2>/dev/null
git -C /repo worktree add -q --detach $wt HEAD || exit 2
git -C $wt apply /verif/seeded/$id/patch.diff || { git -C /repo worktree remove --force $wt; exit 2; }
printf '%s\n' "$@" | xargs -P 4 -I{} sh -c 'VERIF_OUT=/tmp/scratch/seedrun/out VERIF_REPO='$wt' /verif/check {} --tier quick > /tmp/scratch/seedrun/'$id'_{}.log 2>&1; echo "{} rc=$?" > /tmp/scratch/seedrun/'$id'_{}.rc'
git -C /repo worktree remove --force $wt
/venv/bin/python - "$id" "$@" <<'PY'
import json, re, sys
sid, checks = sys.argv[1], sys.argv[2:]
caught, quiet, broken = [], [], []
for c in checks:
    log = open('/tmp/scratch/seedrun/%s_%s.log' % (sid, c)).read()
    rc = int(open('/tmp/scratch/seedrun/%s_%s.rc' % (sid, c)).read().split('rc=')[1])
    if rc == 1 and re.search(r'^VIOLATION property=%s ' % c, log, re.M):
        caught.append(c + ':quick')
    elif rc == 0:
        quiet.append(c)
    else:
        broken.append('%s(rc=%d)' % (c, rc))
res = dict(seed=sid, caught_by=caught, not_caught_by=quiet, machinery_failure=broken, note='')
try:
    old = json.load(open('/verif/seeded/%s/result.json' % sid))
    res['note'] = old.get('note', '')
except (OSError, ValueError):
    pass
json.dump(res, open('/verif/seeded/%s/result.json' % sid, 'w'), indent=1)
print(sid, 'caught by', caught, '| quiet', quiet, '| machinery', broken)
PY
