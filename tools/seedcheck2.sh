#!/bin/sh
# usage: seedcheck.sh <id>   -- confirms a seeded change left applied in /tmp/wt/<id> (patch in /tmp/seed/<id>/patch.diff)
id=$1; wt=/tmp/wt2/$id; sd=/tmp/seed2/$id; out=$sd/confirm.txt
# the worktree is brought to exactly HEAD + patch.diff (agents share one stash stack and may have disturbed each other)
git -C $wt checkout -q -- . && git -C $wt apply $sd/patch.diff
{
echo "== patch applies to /repo HEAD: $(git -C /repo apply --check $sd/patch.diff 2>&1 && echo yes)"
echo "== demo on changed worktree"; (cd $sd && PYTHONPATH=$wt /venv/bin/python demo.py 2>&1 | grep -v DEBUG | tail -3; echo "exit=$?")
echo "== demo on /repo (unchanged)"; (cd $sd && PYTHONPATH=/repo /venv/bin/python demo.py 2>&1 | grep -v DEBUG | tail -3)
echo "== test suite with the change"
cd $wt && env -u ANDROGUARD_VERIF PYTHONPATH=$wt /venv/bin/python -m pytest -ra -q -p no:cacheprovider --timeout=900 --continue-on-collection-errors --junitxml=$sd/junit.xml > $sd/tests.log 2>&1
/venv/bin/python - "$sd/junit.xml" <<'PY'
import json, sys, xml.etree.ElementTree as ET
base = set(json.load(open('/root/.vp/BASELINE.json'))['stable_pass'])
ok = set()
for tc in ET.parse(sys.argv[1]).getroot().iter('testcase'):
    if not any(c.tag in ('failure', 'error', 'skipped') for c in tc):
        ok.add(tc.get('classname') + '::' + tc.get('name'))
print('baseline', len(base), 'passing with the change', len(base & ok), 'missing', sorted(base - ok))
PY
} > $out 2>&1
