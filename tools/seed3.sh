#!/bin/sh
# usage: seed3.sh <id> <checks...>  -- stores /tmp/seed3/<id> as seeded/<id>c, starts the from-scratch confirmation in the background, runs the checks
id=$1; shift
mkdir -p /verif/seeded/${id}c && cp /tmp/seed3/$id/patch.diff /tmp/seed3/$id/demo.py /tmp/seed3/$id/meta.json /verif/seeded/${id}c/
git -C /repo worktree remove --force /tmp/wt3/$id 2>/dev/null
(nohup /verif/tools/seedverify.sh ${id}c >/dev/null 2>&1 &)
/verif/tools/seedrun.sh ${id}c "$@"
