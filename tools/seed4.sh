#!/bin/sh
# usage: seed3.sh <id> <checks...>  -- stores /tmp/seed4/<id> as seeded/<id>d, starts the from-scratch confirmation in the background, runs the checks
id=$1; shift
mkdir -p /verif/seeded/${id}d && cp /tmp/seed4/$id/patch.diff /tmp/seed4/$id/demo.py /tmp/seed4/$id/meta.json /verif/seeded/${id}d/
git -C /repo worktree remove --force /tmp/wt4/$id 2>/dev/null
(nohup /verif/tools/seedverify.sh ${id}d >/dev/null 2>&1 &)
/verif/tools/seedrun.sh ${id}d "$@"
