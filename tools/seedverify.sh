#!/bin/sh
# usage: seedverify.sh <seed-id>   -- re-confirms a stored seeded change from scratch: fresh worktree of /repo's HEAD + seeded/<id>/patch.diff,
# demo on changed / unchanged code, pinned baseline with the change; writes seeded/<id>/confirm.txt
id=$1; sd=/verif/seeded/$id; wt=/tmp/scratch/seedverify_$id; out=$sd/confirm.txt
git -C /repo worktree remove --force $wt 2>/dev/null
git -C /repo worktree add -q --detach $wt HEAD || exit 2
git -C $wt apply $sd/patch.diff || exit 2
{
echo "== fresh worktree of $(git -C /repo rev-parse --short HEAD) + patch.diff"
echo "== demo on changed worktree"; (cd $sd && PYTHONPATH=$wt /venv/bin/python demo.py 2>&1 | grep -v DEBUG | tail -3)
echo "== demo on /repo (unchanged)"; (cd $sd && PYTHONPATH=/repo /venv/bin/python demo.py 2>&1 | grep -v DEBUG | tail -3)
echo "== test suite with the change"
cd $wt && env -u ANDROGUARD_VERIF PYTHONPATH=$wt /venv/bin/python -m pytest -ra -q -p no:cacheprovider --timeout=900 --continue-on-collection-errors --junitxml=/tmp/scratch/seedverify_$id.xml > /tmp/scratch/seedverify_$id.log 2>&1
/venv/bin/python - "/tmp/scratch/seedverify_$id.xml" <<'PY'
import json, sys, xml.etree.ElementTree as ET
base = set(json.load(open('/root/.vp/BASELINE.json'))['stable_pass'])
ok = set()
for tc in ET.parse(sys.argv[1]).getroot().iter('testcase'):
    if not any(c.tag in ('failure', 'error', 'skipped') for c in tc):
        ok.add(tc.get('classname') + '::' + tc.get('name'))
print('baseline', len(base), 'passing with the change', len(base & ok), 'missing', sorted(base - ok))
PY
} > $out 2>&1
cd /; git -C /repo worktree remove --force $wt
