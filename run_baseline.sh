#!/bin/sh
# Runs the repository's pinned suite with the hook guard OFF and compares with BASELINE.json's stable_pass list.
cd /repo && env -u ANDROGUARD_VERIF /venv/bin/python -m pytest -ra -q -p no:cacheprovider --timeout=900 --continue-on-collection-errors --junitxml=/tmp/baseline.junit.xml > /tmp/baseline.log 2>&1
/venv/bin/python - <<'PY'
import json, xml.etree.ElementTree as ET
base = set(json.load(open('/root/.vp/BASELINE.json'))['stable_pass'])
ok = set()
for tc in ET.parse('/tmp/baseline.junit.xml').getroot().iter('testcase'):
    if not any(c.tag in ('failure', 'error', 'skipped') for c in tc):
        ok.add(tc.get('classname') + '::' + tc.get('name'))
missing = sorted(base - ok)
print('baseline', len(base), 'passing now', len(base & ok), 'missing', missing)
PY
