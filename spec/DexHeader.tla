------------------------------ MODULE DexHeader ------------------------------
(* Header acceptance of a DEX buffer as a decision procedure over abstract corruption classes, and Adler-32   *)
(* with the lemma behind "changing any single byte after the checksum field makes the file rejected".         *)
EXTENDS Naturals, Integers, Sequences, FiniteSets, TLC

(* ---- Adler-32 (RFC 1950): a = 1 + sum of bytes, b = sum of the running a's, both mod 65521 ---- *)
MOD == 65521
RECURSIVE AdlerFrom(_, _, _)
AdlerFrom(bs, a, b) == IF bs = <<>> THEN <<a, b>>
                       ELSE LET a2 == (a + Head(bs)) % MOD IN AdlerFrom(Tail(bs), a2, (b + a2) % MOD)
Adler(bs) == AdlerFrom(bs, 1, 0)
\* the lemma: a single-byte change moves `a` by a non-zero amount below the modulus, so the checksum changes
SingleByteLemma(bs) == \A i \in 1..Len(bs) : \A v \in 0..255 : v # bs[i] => Adler([bs EXCEPT ![i] = v]) # Adler(bs)

(* ---- the decision: which buffers must be rejected before any structure is parsed ---- *)
MagicClass  == {"dex", "dey", "first-byte", "newline", "terminator", "version-digits"}
EndianClass == {"little", "swapped", "garbage"}
HSizeClass  == {"0x70", "zero", "0x6f", "0x71", "huge"}
SumClass    == {"ok", "stale"}
LenClass    == {"full", "lt-0x70", "empty"}
Verdict(magic, endian, hsize, sum, len) ==
  IF len # "full" THEN "reject"
  ELSE IF endian # "little" THEN "reject"
  ELSE IF magic \in {"first-byte", "newline", "terminator"} THEN "reject"
  ELSE IF sum = "stale" THEN "reject"
  ELSE IF hsize # "0x70" THEN "reject"
  ELSE "accept"
=============================================================================
