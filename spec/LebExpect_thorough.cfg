SPECIFICATION Spec
CONSTANTS
  ByteAll <- AllBytes
  ByteEdge = {0,1,2,63,64,65,127,128,129,130,191,192,193,255}
  Vals <- BoundaryVals
CHECK_DEADLOCK FALSE
