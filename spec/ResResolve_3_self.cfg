SPECIFICATION Spec
CONSTANTS
  Ids = {1, 2, 3}
  Strs = {"a", "b"}
  Guard = "self"
  WithBags = FALSE
INVARIANT ReturnsReachable

PROPERTY Terminates
CHECK_DEADLOCK FALSE
