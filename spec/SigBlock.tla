------------------------------- MODULE SigBlock -------------------------------
(* APK Signing Block (C33).                                                                                          *)
(*   block  = sequence of pairs [id, val]; id \in {"v2", "v3", "v31"} or any other string (unknown id), val = bytes   *)
(*   the value of a v2 / v3 / v3.1 pair is a length-prefixed sequence of length-prefixed signers (apksig format):     *)
(*     signer      = LP( LP(signed data) [minSDK maxSDK] LP(signatures) LP(public key) )                             *)
(*     signed data = LP(digests) LP(certificates) [minSDK maxSDK] LP(additional attributes)                          *)
(*     digests / signatures = sequence of LP( uint32 algorithm id, LP(bytes) );  certificates = sequence of LP(bytes) *)
(*   ([..] only in v3 / v3.1).  Bytes are sequences over 0..255, numbers are < 2^31 (uint32, little endian).          *)
(* Enc* is the format, Dec* the reader; the queries of the APK object are defined on the pairs through Dec*.          *)
EXTENDS Naturals, Sequences, FiniteSets, TLC

U32(n) == <<n % 256, (n \div 256) % 256, (n \div 65536) % 256, (n \div 16777216) % 256>>
LP(b) == U32(Len(b)) \o b
RECURSIVE Cat(_)
Cat(ss) == IF ss = <<>> THEN <<>> ELSE Head(ss) \o Cat(Tail(ss))

EncAlgBytes(p) == LP(U32(p[1]) \o LP(p[2]))
EncAlgList(ps) == LP(Cat([i \in 1..Len(ps) |-> EncAlgBytes(ps[i])]))
EncCerts(cs) == LP(Cat([i \in 1..Len(cs) |-> LP(cs[i])]))
EncSignedData(s, v3) == EncAlgList(s.digests) \o EncCerts(s.certs) \o (IF v3 THEN U32(s.smin) \o U32(s.smax) ELSE <<>>) \o LP(s.attrs)
EncSigner(s, v3) == LP(LP(EncSignedData(s, v3)) \o (IF v3 THEN U32(s.min) \o U32(s.max) ELSE <<>>) \o EncAlgList(s.sigs) \o LP(s.key))
EncSigners(ss, v3) == LP(Cat([i \in 1..Len(ss) |-> EncSigner(ss[i], v3)]))

U32At(b, i) == b[i] + 256 * b[i + 1] + 65536 * b[i + 2] + 16777216 * b[i + 3]
TakeLP(b, i) == LET n == U32At(b, i) IN <<SubSeq(b, i + 4, i + 3 + n), i + 4 + n>>      \* <<chunk, index after it>>
RECURSIVE Chunks(_, _)
Chunks(b, i) == IF i > Len(b) THEN <<>> ELSE LET t == TakeLP(b, i) IN <<t[1]>> \o Chunks(b, t[2])
DecAlgBytes(c) == <<U32At(c, 1), TakeLP(c, 5)[1]>>
DecAlgList(b) == LET cs == Chunks(b, 1) IN [i \in 1..Len(cs) |-> DecAlgBytes(cs[i])]
\* named deviation "first-only": a reader that takes the length prefix of the first element for the length of the list
DecAlgListFirstOnly(b) == IF b = <<>> THEN <<>> ELSE <<DecAlgBytes(TakeLP(b, 1)[1])>>
DecSignedDataWith(AL(_), b, v3) ==
  LET d == TakeLP(b, 1)
      c == TakeLP(b, d[2])
      k == IF v3 THEN c[2] + 8 ELSE c[2]
      a == TakeLP(b, k)
  IN [digests |-> AL(d[1]), certs |-> Chunks(c[1], 1), attrs |-> a[1],
      smin |-> (IF v3 THEN U32At(b, c[2]) ELSE 0), smax |-> (IF v3 THEN U32At(b, c[2] + 4) ELSE 0)]
DecSignerWith(AL(_), b, v3) ==
  LET sd == TakeLP(b, 1)
      k == IF v3 THEN sd[2] + 8 ELSE sd[2]
      sg == TakeLP(b, k)
      pk == TakeLP(b, sg[2])
      D == DecSignedDataWith(AL, sd[1], v3)
  IN [digests |-> D.digests, certs |-> D.certs, attrs |-> D.attrs, smin |-> D.smin, smax |-> D.smax,
      min |-> (IF v3 THEN U32At(b, sd[2]) ELSE 0), max |-> (IF v3 THEN U32At(b, sd[2] + 4) ELSE 0),
      sigs |-> AL(sg[1]), key |-> pk[1]]
DecSignersWith(AL(_), val, v3) == LET cs == Chunks(TakeLP(val, 1)[1], 1) IN [i \in 1..Len(cs) |-> DecSignerWith(AL, cs[i], v3)]
DecSigners(val, v3) == DecSignersWith(DecAlgList, val, v3)
DecSignersFirstOnly(val, v3) == DecSignersWith(DecAlgListFirstOnly, val, v3)

(* ---- queries on the block ---- *)
Kinds == {"v2", "v3", "v31"}
Present(pairs, k) == \E i \in 1..Len(pairs) : pairs[i].id = k
FirstVal(pairs, k) == pairs[CHOOSE i \in 1..Len(pairs) : pairs[i].id = k /\ \A j \in 1..(i - 1) : pairs[j].id # k].val
HasDup(pairs) == \E i, j \in 1..Len(pairs) : i < j /\ pairs[i].id = pairs[j].id
Signers(pairs, k) == IF Present(pairs, k) THEN DecSigners(FirstVal(pairs, k), k # "v2") ELSE <<>>
Certs(pairs, k) == LET S == Signers(pairs, k) IN Cat([i \in 1..Len(S) |-> S[i].certs])
Keys(pairs, k) == LET S == Signers(pairs, k) IN [i \in 1..Len(S) |-> S[i].key]

Queries == {"is_v2", "is_v3", "is_v31", "dup", "certs_v2", "certs_v3", "certs_v31", "keys_v2", "keys_v3", "keys_v31", "signers_v2", "signers_v3", "signers_v31"}
KindOf(q) == IF q \in {"is_v2", "certs_v2", "keys_v2", "signers_v2"} THEN "v2" ELSE IF q \in {"is_v3", "certs_v3", "keys_v3", "signers_v3"} THEN "v3" ELSE "v31"
\* every answer has the same shape: [b, bl, sg] (flag, list of byte strings, list of signers)
Ans(b, bl, sg) == [b |-> b, bl |-> bl, sg |-> sg]
Expected(q, pairs) ==
  IF q = "dup" THEN Ans(HasDup(pairs), <<>>, <<>>)
  ELSE LET k == KindOf(q) IN
       IF q \in {"is_v2", "is_v3", "is_v31"} THEN Ans(Present(pairs, k), <<>>, <<>>)
       ELSE IF q \in {"certs_v2", "certs_v3", "certs_v31"} THEN Ans(FALSE, Certs(pairs, k), <<>>)
       ELSE IF q \in {"keys_v2", "keys_v3", "keys_v31"} THEN Ans(FALSE, Keys(pairs, k), <<>>)
       ELSE Ans(FALSE, <<>>, Signers(pairs, k))
=============================================================================
