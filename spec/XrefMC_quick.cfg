SPECIFICATION Spec
CONSTANTS
  LenA = 2
  LenB = 1
INVARIANT C13_CallsExact
INVARIANT C14_FieldOwner
INVARIANT C15_Exact
INVARIANT C16_OrderFree
PROPERTY Terminates
CHECK_DEADLOCK FALSE
