------------------------------ MODULE TypeName ------------------------------
(* Java source names of type descriptors (C24).  A descriptor is [dims, prim, segs]: dims array dimensions,   *)
(* prim a primitive letter ("" for a class type), segs the '/'-separated segments of a class descriptor.      *)
EXTENDS Naturals, Sequences, FiniteSets, TLC
Prim == [V |-> "void", Z |-> "boolean", B |-> "byte", S |-> "short", C |-> "char", I |-> "int", J |-> "long", F |-> "float", D |-> "double"]
PrimLetters == {"V", "Z", "B", "S", "C", "I", "J", "F", "D"}
RECURSIVE Join(_, _)
Join(segs, sep) == IF Len(segs) = 1 THEN segs[1] ELSE segs[1] \o sep \o Join(Tail(segs), sep)
RECURSIVE Rep(_, _)
Rep(s, n) == IF n = 0 THEN "" ELSE s \o Rep(s, n - 1)
Descriptor(d) == Rep("[", d.dims) \o (IF d.prim # "" THEN d.prim ELSE "L" \o Join(d.segs, "/") \o ";")
\* the java.lang. prefix may be dropped only for a *direct* member of java.lang
DirectJavaLang(segs) == Len(segs) = 3 /\ segs[1] = "java" /\ segs[2] = "lang"
BaseNames(d) == IF d.prim # "" THEN {Prim[d.prim]}
                ELSE {Join(d.segs, ".")} \cup (IF DirectJavaLang(d.segs) THEN {d.segs[3]} ELSE {})
Names(d) == {b \o Rep("[]", d.dims) : b \in BaseNames(d)}
=============================================================================
