--------------------------- MODULE MethodCFG_Trace ---------------------------
(* C->S for C10, C11, C12, C40: one record per analysed method: the method at byte-offset level (built by the  *)
(* harness with its own decoder / from the TLC-enumerated model) and the basic blocks MethodAnalysis reported. *)
(* Every predicate of MethodCFG is evaluated by TLC on the reported blocks.                                    *)
EXTENDS MethodCFG, Json, IOUtils, TLCExt
Tr == ndJsonDeserialize(IOEnv.TRACE_FILE)
VARIABLE l

Blocks(r) == [k \in 1..Len(r.B) |->
               [s |-> r.B[k].s, e |-> r.B[k].e, ins |-> r.B[k].ins, ch |-> Range(r.B[k].ch), fa |-> Range(r.B[k].fa),
                choff |-> r.B[k].choff, exc |-> r.B[k].exc, sp |-> r.B[k].sp]]
Check(name, ok) == IF ok THEN {} ELSE {name}
Failing(r) ==
  LET m == r.m B == Blocks(r) IN
  IF ~InDomain(m) THEN {}                                     \* counted by the harness as out of domain, never judged
  ELSE LET p == Partition(m, B) IN
       Check("C10.Partition", p)
       \cup (IF ~p \/ ~r.aligned THEN {}        \* mis-aligned switch payloads: only the C40 rules are in the domain
             ELSE Check("C10.LeaderRule", LeaderRule(m, B))
                  \cup Check("C10.OnlyLast", OnlyLast(m, B))
                  \cup Check("C10.InstructionCount", \A k \in 1..Len(B) : r.B[k].nb = Len(B[k].ins))
                  \cup Check("C11.SuccExact", SuccExact(m, B)) \cup Check("C11.PredInverse", PredInverse(B))
                  \cup Check("C11.PredsAreBlocks", PredsAreBlocks(B))
                  \cup Check("C12.ExcCover", ExcCover(m, B)))
       \* the offset rules do not presuppose a partition: they are judged on whatever blocks were reported
       \cup Check("C40.OffsetsAgree", OffsetsAgree(m, B))
       \cup Check("C40.PayloadLinks", PayloadLinks(m, B))
Init == l = 1
Next == /\ l <= Len(Tr)
        /\ LET f == Failing(Tr[l]) IN IF f = {} THEN TRUE ELSE PrintT(<<"REJECT", l, f>>)
        /\ l' = l + 1
Spec == Init /\ [][Next]_l
Accepted == TLCGet("stats").diameter - 1 = Len(Tr)
=============================================================================
