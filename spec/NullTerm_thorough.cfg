SPECIFICATION Spec
CONSTANTS
 K = 128
 Lens <- LensThorough
 Starts = {0, 1, 127, 128, 129}
 EofCheck = TRUE
INVARIANT Bounded
INVARIANT Result
PROPERTY Terminates
CONSTRAINT LimitReads
CHECK_DEADLOCK FALSE
