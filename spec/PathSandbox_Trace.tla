-------------------------- MODULE PathSandbox_Trace --------------------------
(* C->S for C37: one record per export run in a sandbox: for every file or directory that exists afterwards and   *)
(* did not exist before, its path segments relative to the sandbox root (the output directory is <<"out">>).      *)
EXTENDS Naturals, Sequences, FiniteSets, TLC, Json, IOUtils, TLCExt
Tr == ndJsonDeserialize(IOEnv.TRACE_FILE)
VARIABLE l
Failing(r) == IF \A i \in 1..Len(r.created) : (Len(r.created[i]) >= 1 /\ r.created[i][1] = "out") THEN {} ELSE {"C37.created-inside-the-output-directory"}
Init == l = 1
Next == /\ l <= Len(Tr)
        /\ LET f == Failing(Tr[l]) IN IF f = {} THEN TRUE ELSE PrintT(<<"REJECT", l, f>>)
        /\ l' = l + 1
Spec == Init /\ [][Next]_l
Accepted == TLCGet("stats").diameter - 1 = Len(Tr)
=============================================================================
