----------------------------- MODULE Leb_Trace -----------------------------
(* C->S: records of real calls of readuleb128 / readuleb128p1 / readsleb128 / writeuleb128 / writesleb128 *)
(* are accepted only if the specification explains them.                                                 *)
EXTENDS Leb, Json, IOUtils, TLCExt
Tr == ndJsonDeserialize(IOEnv.TRACE_FILE)
VARIABLE l

Holds(r) ==
  CASE r.k = "u"  -> << <<"wellformed", WellFormed(r.b)>>, <<"consumed", r.n = Len(r.b)>>,
                        <<"value", InDomainU(r.b) => r.v = ULeb(r.b)>> >>
    [] r.k = "s"  -> << <<"wellformed", WellFormed(r.b)>>, <<"consumed", r.n = Len(r.b)>>,
                        <<"value", InDomainS(r.b) => r.v = SLeb(r.b)>> >>
    [] r.k = "p1" -> << <<"wellformed", WellFormed(r.b)>>, <<"consumed", r.n = Len(r.b)>>,
                        <<"value", InDomainU(r.b) => (r.neg = P1(r.b).neg /\ r.v = P1(r.b).v)>> >>
    \* encoders: what the code wrote must denote the value (canonical or not), and the code's own reader must read it back
    [] r.k = "wu" -> << <<"wellformed", WellFormed(r.b)>>, <<"denotes", ULeb(r.b) = r.v>>, <<"indomain", InDomainU(r.b)>>, <<"readback", r.r = r.v>> >>
    [] r.k = "ws" -> << <<"wellformed", WellFormed(r.b)>>, <<"denotes", SLeb(r.b) = r.v>>, <<"indomain", InDomainS(r.b)>>, <<"readback", r.r = r.v>> >>
    [] OTHER      -> << <<"known-record-kind", FALSE>> >>

Failing(r) == LET h == Holds(r) IN {h[i][1] : i \in {j \in 1..Len(h) : ~h[j][2]}}

Init == l = 1
Next == /\ l <= Len(Tr)
        /\ LET f == Failing(Tr[l]) IN IF f = {} THEN TRUE ELSE PrintT(<<"REJECT", l, f>>)
        /\ l' = l + 1
Spec == Init /\ [][Next]_l
Accepted == TLCGet("stats").diameter - 1 = Len(Tr)
=============================================================================
