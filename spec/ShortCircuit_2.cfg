SPECIFICATION Spec
CONSTANTS
  K = 2
  Exits = {101, 102, 103}
INVARIANT SameRouting
INVARIANT NoLoop
CHECK_DEADLOCK FALSE
