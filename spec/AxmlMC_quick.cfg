SPECIFICATION MCSpec
CONSTANT Rich = FALSE
INVARIANT ParsesToTheDocument
PROPERTY CursorAdvances
PROPERTY Terminates
CHECK_DEADLOCK FALSE
