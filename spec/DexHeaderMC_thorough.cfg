SPECIFICATION Spec
CONSTANTS
  MaxLen = 4
  Bytes = {0, 1, 127, 128, 254, 255}
INVARIANT Lemma
INVARIANT OnlyCleanAccepted
CHECK_DEADLOCK FALSE
