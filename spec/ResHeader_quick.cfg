SPECIFICATION Spec
CONSTANTS
 Alphabet = {0, 1, 8}
 MinLen = 7
 MaxLen = 9
 Starts = {0, 1, 3}
INVARIANT Bounded
INVARIANT Advances
PROPERTY Terminates
CHECK_DEADLOCK FALSE
