------------------------------- MODULE Arsc_Trace -------------------------------
(* C->S for C28 / C29: one record per generated resources.arsc: the declared entries and what ARSCParser reported:   *)
(*   stored    <<rid, cfg label, kind, value>> for every pair returned by get_res_configs(rid) of every declared id   *)
(*   keys      <<package, type, key, rid>> from get_res_id_by_key for every declared key                              *)
(*   packages, types (per package), locales (per package)                                                            *)
(*   resolved  <<rid, status, Seq(value as character codes)>> from get_resolved_res_configs(rid)                      *)
EXTENDS Arsc, Json, IOUtils, TLCExt
Tr == ndJsonDeserialize(IOEnv.TRACE_FILE)
VARIABLE l
Ent(x) == [pkg |-> x[1], pid |-> x[2], type |-> x[3], tid |-> x[4], idx |-> x[5], cfg |-> x[6], kind |-> x[7], val |-> x[8], key |-> x[9]]
Table(r) == {Ent(r.ent[i]) : i \in 1..Len(r.ent)}
Check(n, ok) == IF ok THEN {} ELSE {n}
LocalePart(r, cfg) == (CHOOSE p \in Range(r.cfgs) : p[1] = cfg)[2]
Failing(r) ==
  LET T == Table(r) o == r.obs IN
  Check("generator-table-wellformed", WellFormed(T))
  \cup Check("C28.values-per-configuration", Range(o.stored) = StoredAll(T) /\ Len(o.stored) = Cardinality(StoredAll(T)))
  \cup Check("C28.key-to-id", Range(o.keys) = KeyToId(T))
  \cup Check("C28.packages", Range(o.packages) = Range(r.pkgs))
  \cup Check("C28.types", \A p \in Range(o.types) : Range(p[2]) = TypesOf(T, p[1]))
  \cup Check("C28.locales", \A p \in Range(o.locales) : Range(p[2]) = {LocalePart(r, e.cfg) : e \in {x \in T : x.pkg = p[1]}})
  \cup Check("C29.resolution-terminates", (\A x \in Range(o.resolved) : x[2] = "ok") /\ (\A y \in Range(o.app) : y[2] = "ok"))
  \cup Check("C29.resolved-values", \A x \in Range(o.resolved) : x[2] = "ok" => Range(x[3]) = ResolvedValues(T, x[1]))
Init == l = 1
Next == /\ l <= Len(Tr)
        /\ LET f == Failing(Tr[l]) IN IF f = {} THEN TRUE ELSE PrintT(<<"REJECT", l, f>>)
        /\ l' = l + 1
Spec == Init /\ [][Next]_l
Accepted == TLCGet("stats").diameter - 1 = Len(Tr)
=============================================================================
