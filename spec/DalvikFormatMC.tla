--------------------------- MODULE DalvikFormatMC ---------------------------
(* Bounded instance of DalvikFormat: enumerates instruction encodings (every opcode, a set of first-unit    *)
(* high bytes, boundary tails) with the decoding the specification assigns; TLC checks the spec-level       *)
(* round trip and sanity invariants; each state is replayed into get_instruction (S->C).                    *)
EXTENDS DalvikFormat
CONSTANTS AASet
VARIABLES u, exp

B == {0, 1, 255, 32767, 32768, 65280, 65535}
Tails == {<<b, b, b, b>> : b \in B}
         \cup { <<0, 65535, 0, 65535>>, <<65535, 0, 65535, 0>>, <<4660, 22136, 39612, 57072>>,
                <<32768, 0, 0, 0>>, <<0, 32768, 0, 0>>, <<0, 0, 0, 32768>>, <<65535, 32767, 65535, 32767>>, <<8, 33825, 1, 2>> }
Invalid == [len |-> 0, name |-> "", regs |-> <<>>, lit |-> <<>>, off |-> <<>>, idx |-> <<>>, idx2 |-> <<>>]

Init == /\ u \in {<<op + 256 * aa>> \o t : op \in 0..255, aa \in AASet, t \in Tails}
        /\ exp = IF Unused(Op(u)) THEN Invalid ELSE Decode(u)
Next == UNCHANGED <<u, exp>>
Spec == Init /\ [][Next]_<<u, exp>>

AllAA == 0..255
EdgeAA == {a + 16 * b : a \in {0, 1, 7, 8, 15}, b \in {0, 1, 4, 5, 6, 7, 8, 15}}

RoundTrip == (~Unused(Op(u)) /\ Canonical(u)) => Encode(Op(u), exp) = SubSeq(u, 1, Units(Op(u)))
Shape     == ~Unused(Op(u)) =>
               /\ exp.len \in 1..5
               /\ exp.lit # <<>> => Len(exp.lit) = LitLimbs(Op(u))
               /\ exp.off # <<>> => (Len(exp.off) = 2 /\ FlowKind(Op(u)) \in {"goto", "if", "switch", "fill"})
               /\ (exp.idx # <<>>) = (RefKind(Op(u)) # "")
               /\ (exp.idx2 # <<>>) = (RefKind(Op(u)) = "method+proto")
               /\ \A i \in 1..Len(exp.regs) : exp.regs[i] \in 0..65790
UnusedSet == {op \in 0..255 : Unused(op)} = (62..67) \cup {115, 121, 122} \cup (227..249)
=============================================================================
