SPECIFICATION Spec
CONSTANT MaxRuns = 4
INVARIANT Satisfiable
INVARIANT KeepsCleanNames
CHECK_DEADLOCK FALSE
