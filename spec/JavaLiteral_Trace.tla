--------------------------- MODULE JavaLiteral_Trace ---------------------------
(* C->S for C23: one record per call of writer.string(s): the UTF-16 code units of s and the character codes of   *)
(* the literal that was written (kind "string"); and, to bind the lexer specification to the real Java rules,     *)
(* records (kind "javac") holding a literal text and the code units javac + the JVM produced for it.              *)
EXTENDS JavaLiteral, Json, IOUtils, TLCExt
Tr == ndJsonDeserialize(IOEnv.TRACE_FILE)
VARIABLE l
Failing(r) == IF Lex(r.lit) = r.units THEN {} ELSE {IF r.kind = "javac" THEN "lexer-spec-disagrees-with-javac" ELSE "C23.literal-denotes-the-string"}
Init == l = 1
Next == /\ l <= Len(Tr)
        /\ LET f == Failing(Tr[l]) IN IF f = {} THEN TRUE ELSE PrintT(<<"REJECT", l, f, Lex(Tr[l].lit)>>)
        /\ l' = l + 1
Spec == Init /\ [][Next]_l
Accepted == TLCGet("stats").diameter - 1 = Len(Tr)
=============================================================================
