----------------------------- MODULE DalvikMachineMC -----------------------------
(* Every arithmetic / bitwise / shift / conversion / comparison / constant instruction of DalvikMachine as a one-      *)
(* operation method, run on every tuple of boundary arguments.  method = [prog, nregs, first, sig, ret].                *)
EXTENDS DalvikMachine
CONSTANT Wide          \* TRUE: the larger sets of boundary values
VARIABLES meth, args, m
vars == <<meth, args, m>>
MinI == <<0, 0, 0, 128>>   MaxI == <<255, 255, 255, 127>>
MinL == <<0, 0, 0, 0, 0, 0, 0, 128>>   MaxL == <<255, 255, 255, 255, 255, 255, 255, 127>>
BI == {MinI, MaxI, FromInt(-1, 4), Zero(4), One(4), FromInt(33, 4)}
      \cup (IF Wide THEN {<<120, 86, 52, 18>>, FromInt(-46340, 4), <<255, 255, 0, 0>>, <<1, 0, 0, 128>>, FromInt(-7, 4), FromInt(200, 4)} ELSE {})
BL == {MinL, MaxL, FromInt(-1, 8), Zero(8), One(8), <<0, 0, 0, 0, 1, 0, 0, 0>>}
      \cup (IF Wide THEN {<<239, 205, 171, 137, 103, 69, 35, 1>>, <<255, 255, 255, 255, 0, 0, 0, 0>>, <<0, 0, 0, 128, 255, 255, 255, 255>>, FromInt(-1000, 8), FromInt(65, 8), <<1, 0, 0, 0, 0, 0, 0, 128>>} ELSE {})
Lits16 == {-32768, -1, 0, 1, 7, 32767} \cup (IF Wide THEN {-255, 256, 1000} ELSE {})
Lits8 == {-128, -1, 0, 1, 5, 31, 33, 127}
Ret(rg) == Ins("return", rg, 0, 0)
RetW(rg) == Ins("return-wide", rg, 0, 0)
M(prog, nregs, first, sig, ret) == [prog |-> prog, nregs |-> nregs, first |-> first, sig |-> sig, ret |-> ret]
Branchy(test) == <<test, InsLit("const/4", 0, 0, 0), Ret(0), InsLit("const/4", 0, 0, 1), Ret(0)>>
\* operations whose destination is also an operand, on a variable that lives across a branch or a loop (p0 = v1, p1 = v2 / v3-4; v0 counts)
Looped(op, ret) == <<InsLit("const/4", 0, 0, 3), [I(0) EXCEPT !.op = "if-lez", !.a = 0, !.t = 6], op, InsLit("add-int/lit8", 0, 0, -1),
                     [I(0) EXCEPT !.op = "goto", !.t = 2], ret>>
AliasI == {Ins(nm \o "-int", 2, 1, 2) : nm \in IntAlu} \cup {Ins(nm \o "-int", 2, 2, 1) : nm \in IntAlu} \cup {Ins(nm \o "-int/2addr", 2, 1, 0) : nm \in IntAlu}
          \cup {InsLit(nm \o "-int/lit8", 2, 2, 5) : nm \in Lit8Alu} \cup {InsLit("rsub-int/lit8", 2, 2, 100), InsLit("rsub-int", 2, 2, 1000)}
LongAlu == IntAlu \ {"shl", "shr", "ushr"}
AliasL == {Ins(nm \o "-long", 3, 1, 3) : nm \in LongAlu} \cup {Ins(nm \o "-long", 3, 3, 1) : nm \in LongAlu} \cup {Ins(nm \o "-long/2addr", 3, 1, 0) : nm \in LongAlu}
Aliased == {M(Looped(op, Ret(2)), 3, 1, <<"I", "I">>, "I") : op \in AliasI} \cup {M(Looped(op, RetW(3)), 5, 1, <<"J", "J">>, "J") : op \in AliasL}
           \cup {M(<<[I(0) EXCEPT !.op = "if-lez", !.a = 1, !.t = 3], op, Ret(2)>>, 3, 1, <<"I", "I">>, "I") : op \in AliasI}
\* a temporary defined in one block and used in another one, with an operand of its definition overwritten in between
\* (v0 = t; p0 = v1 (v3 in the loop), p1 = v2 (v4)):  t = a + b; if (b > 0) a = a OP c; return t ^ a
Br(mn, ra, tg) == [I(0) EXCEPT !.op = mn, !.a = ra, !.t = tg]
AcrossBranch(ow) == <<Ins("add-int", 0, 1, 2), Br("if-lez", 2, 4), ow, Ins("xor-int", 0, 0, 1), Ret(0)>>
\* t = a + 1; n &= 3; s = 0; i = 0; do { s += t; a += s; i++ } while (i < n); return s + a
AcrossLoop == <<InsLit("add-int/lit8", 0, 3, 1), InsLit("and-int/lit8", 4, 4, 3), InsLit("const/4", 1, 0, 0), InsLit("const/4", 2, 0, 0),
                Ins("add-int/2addr", 1, 0, 0), Ins("add-int/2addr", 3, 1, 0), InsLit("add-int/lit8", 2, 2, 1),
                [I(0) EXCEPT !.op = "if-lt", !.a = 2, !.b = 4, !.t = 5], Ins("add-int", 1, 1, 3), Ret(1)>>
Propagated == {M(AcrossBranch(ow), 3, 1, <<"I", "I">>, "I") : ow \in {InsLit("mul-int/lit8", 1, 1, 2), InsLit("add-int/lit8", 1, 1, -1), Ins("sub-int/2addr", 1, 2, 0), Ins("move", 1, 2, 0)}}
              \cup {M(AcrossLoop, 5, 3, <<"I", "I">>, "I")}
\* long operations whose operands are ints widened just before (p0 = v4, p1 = v5; v0-1, v2-3 temporaries): the arithmetic is 64-bit
Widened == {M(<<Ins("int-to-long", 0, 4, 0), Ins("int-to-long", 2, 5, 0), Ins(nm \o "-long", 0, 0, 2), RetW(0)>>, 6, 4, <<"I", "I">>, "J") : nm \in LongAlu}
           \cup {M(<<Ins("int-to-long", 0, 4, 0), Ins(nm \o "-long", 0, 0, 5), RetW(0)>>, 6, 4, <<"I", "I">>, "J") : nm \in {"shl", "shr", "ushr"}}
           \cup {M(<<Ins("int-to-long", 0, 4, 0), Ins("mul-long", 0, 0, 0), RetW(0)>>, 6, 4, <<"I", "I">>, "J"),
                 M(<<Ins("int-to-long", 0, 4, 0), Ins("neg-long", 0, 0, 0), RetW(0)>>, 6, 4, <<"I", "I">>, "J")}
\* a division / remainder executed unconditionally whose result is consumed on one path only (p0 = v1, p1 = v2):
\*   t = a OP b; if (a > 0) return t; return a          -- with b = 0 the bytecode throws whatever the path
\* and in front of a loop (p0 = v3, p1 = v4):  t = a OP b; s = 0; n = a & 3; while (n > 0) { s += t; n-- } return s
BeforeBranch(dv) == <<dv, Br("if-lez", 1, 4), Ret(0), Ret(1)>>
BeforeLoop(dv) == <<dv, InsLit("const/4", 1, 0, 0), InsLit("and-int/lit8", 2, 3, 3), Br("if-lez", 2, 8), Ins("add-int/2addr", 1, 0, 0),
                    InsLit("add-int/lit8", 2, 2, -1), [I(0) EXCEPT !.op = "goto", !.t = 4], Ret(1)>>
Hoisted == {M(BeforeBranch(dv), 3, 1, <<"I", "I">>, "I") : dv \in {Ins("div-int", 0, 1, 2), Ins("rem-int", 0, 1, 2), Ins("rem-int", 0, 2, 1),
                                                                     InsLit("div-int/lit8", 0, 1, 0), InsLit("rem-int/lit16", 0, 2, 0), InsLit("div-int/lit8", 0, 2, 5)}}
           \cup {M(BeforeLoop(dv), 5, 3, <<"I", "I">>, "I") : dv \in {Ins("div-int", 0, 3, 4), Ins("rem-int", 0, 3, 4), Ins("div-int", 0, 4, 3)}}
\* a copy of a parameter taken before the parameter is modified on one path (p0 = v1, p1 = v2):  t = a; if (b > 0) a = a OP 1; return t * a
ParamCopy == {M(<<Ins("move", 0, 1, 0), Br("if-lez", 2, 4), ow, Ins("mul-int", 0, 0, 1), Ret(0)>>, 3, 1, <<"I", "I">>, "I") :
                ow \in {InsLit("add-int/lit8", 1, 1, 1), Ins("sub-int/2addr", 1, 2, 0), InsLit("xor-int/lit8", 1, 1, -1)}}
\* a loop left by the taken branch of its last test (p0 = v1, p1 = v2):  n = b & 3; s = 0; do { s += a; n-- } while (!(n <= 0)); return s
ExitByTakenBranch == {M(<<InsLit("and-int/lit8", 2, 2, 3), InsLit("const/4", 0, 0, 0), Ins("add-int/2addr", 0, 1, 0), InsLit("add-int/lit8", 2, 2, -1),
                           Br(tst, 2, 7), [I(0) EXCEPT !.op = "goto", !.t = 3], Ret(0)>>, 3, 1, <<"I", "I">>, "I") : tst \in {"if-lez"}}     \* (if-eqz would run 2^32 times for n = 0)
\* a switch case whose body returns on one path and falls to the end of the switch on the other (p0 = v1, p1 = v2):
\*   r = 0; switch (x) { case 0: if (y > 0) return 7; r = 5; break;  case 1: r = 3; }  return r + 1
CaseWithReturn == {M(<<InsLit("const/4", 0, 0, 0), [I(0) EXCEPT !.op = sw, !.a = 1, !.keys = <<Zero(4), One(4)>>, !.tgts = <<4, 9>>],
                        [I(0) EXCEPT !.op = "goto", !.t = 10], Br("if-lez", 2, 7), InsLit("const/4", 0, 0, 7), Ret(0), InsLit("const/4", 0, 0, 5),
                        [I(0) EXCEPT !.op = "goto", !.t = 10], InsLit("const/4", 0, 0, 3), InsLit("add-int/lit8", 0, 0, 1), Ret(0)>>, 3, 1, <<"I", "I">>, "I") :
                     sw \in {"packed-switch", "sparse-switch"}}
\* the sign of a difference tested against zero (p0 = v1, p1 = v2):  d = a - b; if (d TEST 0) return 1; return 0
\* -- not the comparison of a with b when the 32-bit difference wraps around
DiffTested == {M(<<sb, Br("if-" \o tst \o "z", 0, 5), InsLit("const/4", 0, 0, 0), Ret(0), InsLit("const/4", 0, 0, 1), Ret(0)>>, 3, 1, <<"I", "I">>, "I") :
                 sb \in {Ins("sub-int", 0, 1, 2), Ins("sub-int", 0, 2, 1), InsLit("rsub-int/lit8", 0, 1, 100), InsLit("add-int/lit8", 0, 1, -100), InsLit("rsub-int", 0, 2, -1)},
                 tst \in {"lt", "ge", "gt", "le"}}
\* a case that falls through into a case listed before it in the switch table (p0 = v1):
\*   r = 1; switch (x) { case 1: r = x + 10; /* falls through */ case 0: r = r * 3; }  return r
FallThrough == {M(<<InsLit("const/4", 0, 0, 1), [I(0) EXCEPT !.op = sw, !.a = 1, !.keys = <<Zero(4), One(4)>>, !.tgts = <<5, 4>>],
                     [I(0) EXCEPT !.op = "goto", !.t = 6], InsLit("add-int/lit8", 0, 1, 10), InsLit("mul-int/lit8", 0, 0, 3), Ret(0)>>, 2, 1, <<"I">>, "I") :
                  sw \in {"packed-switch", "sparse-switch"}}
Methods ==
  Aliased \cup Propagated \cup Widened \cup Hoisted \cup ParamCopy \cup ExitByTakenBranch \cup CaseWithReturn \cup DiffTested \cup FallThrough \cup
  {M(<<Ins(nm \o "-int", 0, 2, 3), Ret(0)>>, 4, 2, <<"I", "I">>, "I") : nm \in IntAlu}
  \cup {M(<<Ins(nm \o "-int/2addr", 2, 3, 0), Ret(2)>>, 4, 2, <<"I", "I">>, "I") : nm \in IntAlu}
  \cup {M(<<InsLit(nm \o "-int/lit16", 0, 1, lt), Ret(0)>>, 2, 1, <<"I">>, "I") : nm \in Lit16Alu, lt \in Lits16}
  \cup {M(<<InsLit(nm \o "-int/lit8", 0, 1, lt), Ret(0)>>, 2, 1, <<"I">>, "I") : nm \in Lit8Alu, lt \in Lits8}
  \cup {M(<<InsLit("rsub-int", 0, 1, lt), Ret(0)>>, 2, 1, <<"I">>, "I") : lt \in Lits16}
  \cup {M(<<InsLit("rsub-int/lit8", 0, 1, lt), Ret(0)>>, 2, 1, <<"I">>, "I") : lt \in Lits8}
  \cup {M(<<Ins(nm \o "-long", 0, 2, 4), RetW(0)>>, IF IsShift(nm) THEN 5 ELSE 6, 2, <<"J", IF IsShift(nm) THEN "I" ELSE "J">>, "J") : nm \in IntAlu}
  \cup {M(<<Ins(nm \o "-long/2addr", 2, 4, 0), RetW(2)>>, IF IsShift(nm) THEN 5 ELSE 6, 2, <<"J", IF IsShift(nm) THEN "I" ELSE "J">>, "J") : nm \in IntAlu}
  \cup {M(<<Ins(mn, 0, 1, 0), Ret(0)>>, 2, 1, <<"I">>, "I") : mn \in {"neg-int", "not-int", "int-to-byte", "int-to-short", "int-to-char"}}
  \cup {M(<<Ins(mn, 0, 2, 0), RetW(0)>>, 4, 2, <<"J">>, "J") : mn \in {"neg-long", "not-long"}}
  \cup {M(<<Ins("int-to-long", 0, 2, 0), RetW(0)>>, 3, 2, <<"I">>, "J"), M(<<Ins("long-to-int", 0, 1, 0), Ret(0)>>, 3, 1, <<"J">>, "I"),
        M(<<Ins("cmp-long", 0, 1, 3), Ret(0)>>, 5, 1, <<"J", "J">>, "I")}
  \cup {M(Branchy([I(0) EXCEPT !.op = "if-" \o tst, !.a = 1, !.b = 2, !.t = 4]), 3, 1, <<"I", "I">>, "I") : tst \in Tests}
  \cup {M(Branchy([I(0) EXCEPT !.op = "if-" \o tst \o "z", !.a = 1, !.t = 4]), 2, 1, <<"I">>, "I") : tst \in Tests}
  \cup {M(<<InsLit("const/4", 0, 0, lt), Ret(0)>>, 1, 1, <<>>, "I") : lt \in {-8, -1, 0, 7}}
  \cup {M(<<InsLit("const/16", 0, 0, lt), Ret(0)>>, 1, 1, <<>>, "I") : lt \in {-32768, 255, 32767}}
  \cup {M(<<InsLit("const/high16", 0, 0, lt), Ret(0)>>, 1, 1, <<>>, "I") : lt \in {-32768, 1, 32767}}
  \cup {M(<<[I(0) EXCEPT !.op = "const", !.bytes = bs], Ret(0)>>, 1, 1, <<>>, "I") : bs \in {MinI, MaxI, <<120, 86, 52, 18>>}}
  \cup {M(<<InsLit("const-wide/16", 0, 0, lt), RetW(0)>>, 2, 2, <<>>, "J") : lt \in {-32768, -1, 32767}}
  \cup {M(<<InsLit("const-wide/high16", 0, 0, lt), RetW(0)>>, 2, 2, <<>>, "J") : lt \in {-32768, 1, 32767}}
  \cup {M(<<[I(0) EXCEPT !.op = "const-wide/32", !.bytes = bs], RetW(0)>>, 2, 2, <<>>, "J") : bs \in {MinI, MaxI, FromInt(-2, 4)}}
  \cup {M(<<[I(0) EXCEPT !.op = "const-wide", !.bytes = bs], RetW(0)>>, 2, 2, <<>>, "J") : bs \in {MinL, MaxL, <<239, 205, 171, 137, 103, 69, 35, 1>>}}
Vals(ty) == IF ty = "I" THEN BI ELSE BL
ArgTuples(sig) == IF Len(sig) = 0 THEN {<<>>} ELSE IF Len(sig) = 1 THEN {<<xv>> : xv \in Vals(sig[1])} ELSE {<<xv, yv>> : xv \in Vals(sig[1]), yv \in Vals(sig[2])}
RECURSIVE Flat(_)
Flat(sq) == IF sq = <<>> THEN <<>> ELSE Head(sq) \o Flat(Tail(sq))
Init == /\ meth \in Methods /\ args \in ArgTuples(meth.sig)
        /\ m = Load(meth.nregs, meth.first, Flat(args))
Next == /\ m.status = "run"
        /\ m' = Step(m, meth.prog[m.pc])
        /\ UNCHANGED <<meth, args>>
Spec == Init /\ [][Next]_vars /\ WF_vars(Next)
Halts == <>(m.status # "run")
Words(sig) == IF Len(sig) = 0 THEN 0 ELSE IF Len(sig) = 1 THEN (IF sig[1] = "J" THEN 2 ELSE 1) ELSE (IF sig[1] = "J" THEN 2 ELSE 1) + (IF sig[2] = "J" THEN 2 ELSE 1)
TypeOK == /\ meth.first = meth.nregs - Words(meth.sig)          \* the arguments arrive in the last registers
          /\ \A rg \in DOMAIN m.regs : Len(m.regs[rg]) = 4 /\ \A ix \in 1..4 : m.regs[rg][ix] \in 0..255
          /\ (m.status = "ret" => Len(m.val) = (IF meth.ret = "I" THEN 4 ELSE 8))
          /\ (m.status = "exc" => \E ix \in 1..Len(meth.prog) : \E nm \in {"div", "rem"} : \E sf \in {"-int", "-int/2addr", "-int/lit16", "-int/lit8", "-long", "-long/2addr"} : meth.prog[ix].op = nm \o sf)
=============================================================================
