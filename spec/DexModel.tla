------------------------------ MODULE DexModel ------------------------------
(* The declared structure of a DEX file, abstractly.  Names, types and prototypes are small integers whose  *)
(* order is the order of the DEX id tables (string_ids sorted by UTF-16 code units, type_ids by string id,  *)
(* proto_ids by return type then parameters), so the sorted id tables and the index-difference encoding of *)
(* class_data_item member lists can be computed here and compared with the concrete file and the parser.   *)
(*   field   = [cls, name, type, static, flags]        method = [cls, name, proto, direct, code, flags]    *)
EXTENDS Naturals, Integers, Sequences, FiniteSets, TLC

FKey(f) == <<f.cls, f.name, f.type>>
MKey(m) == <<m.cls, m.name, m.proto>>
Less3(a, b) == \/ a[1] < b[1]
               \/ a[1] = b[1] /\ a[2] < b[2]
               \/ a[1] = b[1] /\ a[2] = b[2] /\ a[3] < b[3]

\* the sorted sequence of a finite set of distinct triples
RECURSIVE SortKeys(_)
SortKeys(S) == IF S = {} THEN <<>>
               ELSE LET m == CHOOSE x \in S : \A y \in S : y = x \/ Less3(x, y) IN <<m>> \o SortKeys(S \ {m})
IndexOf(seq, k) == CHOOSE i \in 1..Len(seq) : seq[i] = k          \* 1-based position; the DEX index is this - 1

\* id tables: every member that is defined *or merely referenced* (ghost) has an id
FieldIds(fields, ghostF)   == SortKeys({FKey(f) : f \in fields} \cup ghostF)
MethodIds(methods, ghostM) == SortKeys({MKey(m) : m \in methods} \cup ghostM)

WellFormed(fields, methods) ==
  /\ \A f, g \in fields : FKey(f) = FKey(g) => f = g
  /\ \A m, n \in methods : MKey(m) = MKey(n) => m = n

(* ---- class_data_item: four member lists, each sorted by id, stored as (idx_diff, flags[, code]) ---- *)
Members(S, key(_), ids) == LET ks == {key(x) : x \in S} IN SortKeys(ks)
Diffs(keys, ids) == [i \in 1..Len(keys) |-> IF i = 1 THEN IndexOf(ids, keys[1]) - 1
                                            ELSE IndexOf(ids, keys[i]) - IndexOf(ids, keys[i-1])]
StaticFields(c, fields)   == {f \in fields : f.cls = c /\ f.static}
InstanceFields(c, fields) == {f \in fields : f.cls = c /\ ~f.static}
DirectMethods(c, methods) == {m \in methods : m.cls = c /\ m.direct}
VirtualMethods(c, methods) == {m \in methods : m.cls = c /\ ~m.direct}

\* the decoder of one member list, shaped like ClassDataItem._load_elements: running sum over the stored differences
RECURSIVE LoadElements(_, _)
LoadElements(diffs, prev) == IF diffs = <<>> THEN <<>>
                             ELSE <<prev + Head(diffs)>> \o LoadElements(Tail(diffs), prev + Head(diffs))
\* layout invariant of a stored list: first difference >= 0, later ones > 0, decoding returns the members' ids
ListOK(keys, ids) == LET d == Diffs(keys, ids) IN
   /\ \A i \in 1..Len(d) : IF i = 1 THEN d[i] >= 0 ELSE d[i] > 0
   /\ LoadElements(d, 0) = [i \in 1..Len(keys) |-> IndexOf(ids, keys[i]) - 1]

(* ---- what the parser must report (C05) ---- *)
ReportedFields(fields)   == {<<f.cls, f.name, f.type, f.flags>> : f \in fields}
ReportedMethods(methods) == {<<m.cls, m.name, m.proto, m.flags, m.code>> : m \in methods}
\* lookups
MethodsOfClass(c, methods) == {MKey(m) : m \in {x \in methods : x.cls = c}}
FieldsOfClass(c, fields)   == {FKey(f) : f \in {x \in fields : x.cls = c}}
MethodsNamed(n, methods)   == {MKey(m) : m \in {x \in methods : x.name = n}}
FieldsNamed(n, fields)     == {FKey(f) : f \in {x \in fields : x.name = n}}
MethodByDescriptor(k, methods) == {MKey(m) : m \in {x \in methods : MKey(x) = k}}      \* at most one
FieldByDescriptor(k, fields)   == {FKey(f) : f \in {x \in fields : FKey(x) = k}}
=============================================================================
