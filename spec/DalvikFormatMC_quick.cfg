SPECIFICATION Spec
CONSTANT AASet <- EdgeAA
INVARIANT RoundTrip
INVARIANT Shape
INVARIANT UnusedSet
CHECK_DEADLOCK FALSE
