SPECIFICATION Spec
CONSTANTS
  MaxLen = 3
  Bytes = {0, 1, 254, 255}
INVARIANT Lemma
INVARIANT OnlyCleanAccepted
CHECK_DEADLOCK FALSE
