SPECIFICATION Spec
CONSTANTS
  N = 4
  SortByNum = FALSE
CHECK_DEADLOCK FALSE
