--------------------------------- MODULE Axml ---------------------------------
(* Binary XML as a chunk stream and the tree it encodes (C26).                                                    *)
(*   element = [tag, ns, attrs, text, kids]   ns = "" for none; attrs = set of <<ns, name, value>>; text = "" for   *)
(*             none; kids = sequence of elements.  A well-formed document is Serialize(tree):                       *)
(*   chunk   = <<"el+", ns, tag, attrs>> | <<"text", s>> | <<"el-", ns, tag>> | <<"skip">> (chunk of unknown type)  *)
(* The parser is a transition system over the stream: cursor, stack of open elements, finished root.              *)
EXTENDS Naturals, Sequences, FiniteSets, TLC

RECURSIVE Serialize(_), SerializeKids(_)
Serialize(e) == << <<"el+", e.ns, e.tag, e.attrs>> >> \o (IF e.text = "" THEN <<>> ELSE << <<"text", e.text>> >>)
                \o SerializeKids(e.kids) \o << <<"el-", e.ns, e.tag>> >>
SerializeKids(ks) == IF ks = <<>> THEN <<>> ELSE Serialize(Head(ks)) \o SerializeKids(Tail(ks))

VARIABLES stream, cur, stack, root, doc
vars == <<stream, cur, stack, root, doc>>
New(c) == [tag |-> c[3], ns |-> c[2], attrs |-> c[4], text |-> "", kids |-> <<>>]
Step == /\ cur <= Len(stream)
        /\ LET c == stream[cur] IN
           /\ cur' = cur + 1
           /\ CASE c[1] = "el+"  -> stack' = Append(stack, New(c)) /\ UNCHANGED root
                [] c[1] = "text" -> /\ stack' = (IF stack = <<>> THEN stack ELSE [stack EXCEPT ![Len(stack)].text = c[2]])
                                    /\ UNCHANGED root
                [] c[1] = "el-"  -> IF stack = <<>> THEN UNCHANGED <<stack, root>>
                                    ELSE LET done == stack[Len(stack)] rest == SubSeq(stack, 1, Len(stack) - 1) IN
                                         IF rest = <<>> THEN stack' = <<>> /\ root' = <<done>>
                                         ELSE /\ stack' = [rest EXCEPT ![Len(rest)].kids = Append(@, done)]
                                              /\ UNCHANGED root
                [] OTHER -> UNCHANGED <<stack, root>>                      \* unknown chunk: skipped
        /\ UNCHANGED <<stream, doc>>
Spec == /\ [][Step]_vars /\ WF_vars(Step)
Finished == cur > Len(stream)
ParsesToTheDocument == Finished => (root = <<doc>> /\ stack = <<>>)
CursorAdvances == [][cur' > cur]_vars
Terminates == <>Finished
=============================================================================
