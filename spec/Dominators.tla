----------------------------- MODULE Dominators -----------------------------
(* Dominators and reverse post-order numbering of a rooted digraph (C18, C19), by definition.                 *)
(*   Nodes are 1..n, the entry is node 1, E is a set of <<source, target>> pairs (normal and catch edges).    *)
EXTENDS Naturals, Integers, Sequences, FiniteSets, TLC
Root == 1

RECURSIVE ReachFrom(_, _, _)
ReachFrom(front, seen, E) ==
   LET nxt == {e[2] : e \in {x \in E : x[1] \in front}} \ seen
   IN IF nxt = {} THEN seen ELSE ReachFrom(nxt, seen \cup nxt, E)
Reach(E) == ReachFrom({Root}, {Root}, E)
ReachOf(E, a) == ReachFrom({a}, {a}, E)
\* nodes reachable from the root when node d is removed
ReachAvoid(E, d) == IF d = Root THEN {} ELSE ReachFrom({Root}, {Root}, {e \in E : e[1] # d /\ e[2] # d})
\* d dominates n: every path from the root to n passes through d
Dominates(E, d, n) == d = n \/ n \notin ReachAvoid(E, d)
SDom(E, N, n) == {d \in N : d # n /\ Dominates(E, d, n)}
\* the immediate dominator: the strict dominator that every other strict dominator dominates (0 for the root)
IDom(E, N, n) == IF n = Root THEN 0 ELSE CHOOSE d \in SDom(E, N, n) : \A d2 \in SDom(E, N, n) : Dominates(E, d2, d)
IDomMap(E, N) == [n \in N |-> IDom(E, N, n)]
\* cheaper form for large graphs: one reachability computation per candidate dominator
AvoidTable(E, N) == [d \in N |-> ReachAvoid(E, d)]
IDomFast(E, N) == LET T == AvoidTable(E, N)
                      dom(d, n) == d = n \/ n \notin T[d]
                      sd(n) == {d \in N : d # n /\ dom(d, n)}
                  IN [n \in N |-> IF n = Root THEN 0 ELSE CHOOSE d \in sd(n) : \A d2 \in sd(n) : dom(d2, d)]

(* ---- depth-first searches of the graph: the set of possible back-edge sets ---- *)
Succ(E, n) == {e[2] : e \in {x \in E : x[1] = n}}
RECURSIVE DfsStep(_, _, _, _, _, _)
\* at node n with ancestors anc, successors Rem still to be examined in any order; returns {<<visited, back edges>>}
DfsStep(E, n, visited, anc, Rem, back) ==
  IF Rem = {} THEN {<<visited, back>>}
  ELSE UNION { IF s \in anc \cup {n} THEN DfsStep(E, n, visited, anc, Rem \ {s}, back \cup {<<n, s>>})
               ELSE IF s \in visited THEN DfsStep(E, n, visited, anc, Rem \ {s}, back)
               ELSE UNION { DfsStep(E, n, r[1], anc, Rem \ {s}, r[2]) :
                              r \in DfsStep(E, s, visited \cup {s}, anc \cup {n}, Succ(E, s), back) }
             : s \in Rem }
BackSets(E) == {r[2] : r \in DfsStep(E, Root, {Root}, {}, Succ(E, Root), {})}

IsNumbering(N, num) == /\ DOMAIN num = N /\ num[Root] = 1
                       /\ \A n \in N : num[n] \in 1..Cardinality(N)
                       /\ \A a, b \in N : a # b => num[a] # num[b]
\* C19 read literally: there is a depth-first search whose non-back edges all go from a lower to a higher number
ValidRPO(E, N, num) == IsNumbering(N, num) /\ \E B \in BackSets(E) : \A e \in E \ B : num[e[1]] < num[e[2]]
\* search-independent consequence used for large graphs: an edge whose target cannot reach its source is a back edge of no search
\* a family of deep graphs with closed forms: the ladder 1 -> 2 -> ... -> n in which every node also has an edge to n (a method of n - 1
\* consecutive `if (c) return;`).  It is acyclic, so its only valid numbering is the chain order, and n is reached from 1 directly.
LadderEdges(n) == {<<k, k + 1>> : k \in 1..(n - 1)} \cup {<<k, n>> : k \in 1..(n - 1)}
LadderIDom(n) == [k \in 1..n |-> IF k = 1 THEN 0 ELSE IF k = n THEN 1 ELSE k - 1]
LadderNum(n) == [k \in 1..n |-> k]
ForwardAcrossComponents(E, N, num) == IsNumbering(N, num) /\ \A e \in E : (e[1] \notin ReachOf(E, e[2])) => num[e[1]] < num[e[2]]
=============================================================================
