SPECIFICATION Spec
CONSTANTS
 MaxPairs = 3
 MaxHist = 2
 DupLoads = TRUE
 V31NeedsV3 = FALSE
 FirstOnly = FALSE
INVARIANT AnswersAsEncoded
INVARIANT RoundTrip
INVARIANT FirstBlockWins
CHECK_DEADLOCK FALSE
