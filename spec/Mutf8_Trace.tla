----------------------------- MODULE Mutf8_Trace -----------------------------
(* C->S for C06: per string of a generated DEX file: the MUTF-8 bytes in the file and the UTF-16 code units   *)
(* of what androguard returned through each access path.                                                      *)
EXTENDS Mutf8, Json, IOUtils, TLCExt
Tr == ndJsonDeserialize(IOEnv.TRACE_FILE)
VARIABLE l
Failing(r) == LET d == Dec(r.b) IN
   (IF r.pool = d THEN {} ELSE {"get_strings"}) \cup (IF r.cm = d THEN {} ELSE {"ClassManager.get_string"})
   \cup (IF r.raw = d THEN {} ELSE {"get_raw_string"}) \cup (IF r.len = Len(d) THEN {} ELSE {"utf16_size"})
   \cup (IF r.use = <<-2>> \/ r.use = d THEN {} ELSE {"derived-name-or-constant"})
Init == l = 1
Next == /\ l <= Len(Tr)
        /\ LET f == Failing(Tr[l]) IN IF f = {} THEN TRUE ELSE PrintT(<<"REJECT", l, f>>)
        /\ l' = l + 1
Spec == Init /\ [][Next]_l
Accepted == TLCGet("stats").diameter - 1 = Len(Tr)
=============================================================================
