SPECIFICATION Spec
CONSTANTS
  Acts <- ActsMC
  MaxFilters = 2
  PerFilter = FALSE
INVARIANT TypeOK
INVARIANT NoEntryMissed
INVARIANT Justified
INVARIANT DisabledNeverReported
INVARIANT AlignedExact
PROPERTY Grows
PROPERTY Terminates
CHECK_DEADLOCK FALSE
