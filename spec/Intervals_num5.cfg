SPECIFICATION Spec
CONSTANTS
  N = 5
  SortByNum = TRUE
INVARIANT Confluent
CHECK_DEADLOCK FALSE
