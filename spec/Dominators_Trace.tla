--------------------------- MODULE Dominators_Trace ---------------------------
(* C->S for C18 / C19: one record per graph handed to the decompiler's Graph: n, the edge list and what        *)
(* immediate_dominators() (0 = none) and compute_rpo() (num per node) returned.  `full` selects the literal    *)
(* C19 check (some depth-first search explains the numbering) -- used for small graphs -- or the               *)
(* search-independent consequence for large ones.                                                             *)
EXTENDS Dominators, Json, IOUtils, TLCExt
Tr == ndJsonDeserialize(IOEnv.TRACE_FILE)
VARIABLE l
Failing(r) ==
  LET N == 1..r.n  E == {<<r.edges[i][1], r.edges[i][2]>> : i \in 1..Len(r.edges)}
      num == [k \in N |-> r.num[k]] IN
  IF r.deep THEN      \* a ladder (r.edges is empty): closed forms, checked against the definitions on small instances by the ASSUME below
       (IF [k \in N |-> r.idom[k]] = LadderIDom(r.n) THEN {} ELSE {"C18.immediate-dominators"})
       \cup (IF num = LadderNum(r.n) THEN {} ELSE {"C19.valid-rpo"})
  ELSE IF Reach(E) # N THEN {"generator-graph-not-rooted"}
  ELSE (IF [k \in N |-> r.idom[k]] = IDomFast(E, N) THEN {} ELSE {"C18.immediate-dominators"})
       \cup (IF r.full THEN (IF ValidRPO(E, N, num) THEN {} ELSE {"C19.valid-rpo"})
             ELSE (IF ForwardAcrossComponents(E, N, num) THEN {} ELSE {"C19.forward-across-components"}))
ASSUME \A n \in 2..5 : /\ IDomFast(LadderEdges(n), 1..n) = LadderIDom(n)
                        /\ \A num \in [1..n -> 1..n] : ValidRPO(LadderEdges(n), 1..n, num) <=> num = LadderNum(n)
Init == l = 1
Next == /\ l <= Len(Tr)
        /\ LET f == Failing(Tr[l]) IN IF f = {} THEN TRUE ELSE PrintT(<<"REJECT", l, f>>)
        /\ l' = l + 1
Spec == Init /\ [][Next]_l
Accepted == TLCGet("stats").diameter - 1 = Len(Tr)
=============================================================================
