------------------------------- MODULE ResHeader -------------------------------
(* Reading one ResChunk_header (ARSCHeader.__init__, C35), including the loop that skips dummy bytes between chunks:  *)
(* a header that is not acceptable at a position other than 0 is retried one byte further.  The buffer is a byte      *)
(* sequence; positions are 0-based.  Outcome: "ok" with (type, header size, size, position behind the header) or an   *)
(* error: "over" (fewer than 8 bytes left at the start), "short" (the retry ran into the end of the buffer),          *)
(* "hsize" / "size" / "order" (the declared sizes are inconsistent).                                                   *)
EXTENDS Naturals, Sequences, TLC
CONSTANTS Alphabet, MinLen, MaxLen, Starts
VARIABLES buf, start, cur, pc, hdr, steps
vars == <<buf, start, cur, pc, hdr, steps>>
SIZE == 8
XmlFirst == 256   XmlLast == 383
B(i) == buf[i + 1]
U16(i) == B(i) + 256 * B(i + 1)
U32(i) == B(i) + 256 * B(i + 1) + 65536 * B(i + 2) + 16777216 * B(i + 3)
RECURSIVE Bufs(_)
Bufs(n) == IF n = 0 THEN {<<>>} ELSE {Append(s, a) : s \in Bufs(n - 1), a \in Alphabet}
NoHdr == [type |-> 0, hsize |-> 0, size |-> 0]
Init == /\ buf \in UNION {Bufs(n) : n \in MinLen..MaxLen}
        /\ start \in {s \in Starts : s <= Len(buf)}
        /\ cur = start /\ hdr = NoHdr /\ steps = 0
        /\ pc = IF Len(buf) < start + SIZE THEN "over" ELSE "read"
Fixed(h, c) == IF h.size < SIZE /\ Len(buf) = c + h.hsize + 8 THEN [h EXCEPT !.size = 24] ELSE h     \* packers' zero-size EndNamespace at the very end
HeaderOK(h) == h.hsize >= SIZE /\ h.size >= h.hsize
NonXml(h) == h.type < XmlFirst \/ h.type > XmlLast
Verdict(h) == IF h.hsize < SIZE THEN "hsize" ELSE IF h.size < SIZE THEN "size" ELSE IF h.size < h.hsize THEN "order" ELSE "ok"
ReadHeader == /\ pc = "read"
              /\ steps' = steps + 1
              /\ IF Len(buf) - cur < SIZE THEN pc' = "short" /\ UNCHANGED <<hdr, cur>>
                 ELSE LET h == Fixed([type |-> U16(cur), hsize |-> U16(cur + 2), size |-> U32(cur + 4)], cur) IN
                      IF (NonXml(h) /\ HeaderOK(h)) \/ cur = 0 \/ HeaderOK(h)
                      THEN hdr' = h /\ pc' = Verdict(h) /\ cur' = cur + SIZE
                      ELSE hdr' = h /\ pc' = "read" /\ cur' = cur + 1          \* dummy byte: retry one byte further
              /\ UNCHANGED <<buf, start>>
Next == ReadHeader
Spec == Init /\ [][Next]_vars /\ WF_vars(Next)
Terminates == <>(pc # "read")
Bounded == steps <= (Len(buf) - start) + 1
Advances == pc = "ok" => cur >= start + SIZE /\ hdr.size >= SIZE /\ hdr.hsize >= SIZE
=============================================================================
