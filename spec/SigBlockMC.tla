------------------------------ MODULE SigBlockMC ------------------------------
(* The APK object answering signing-block queries (C33): the block is parsed lazily by the first query that needs   *)
(* it; every answer of every query history must be the one defined on the encoded pairs.                             *)
(*   DupLoads   TRUE : the duplicate-id query loads the block like every other query                                 *)
(*              FALSE: it answers from whatever has been loaded so far (the original implementation)                 *)
(*   V31NeedsV3 TRUE : v3.1 contents are reported only when a v3 block is present as well (the original code)        *)
(*   FirstOnly  TRUE : digest / signature lists are read with the first-element-only reader (the original code)      *)
EXTENDS SigBlock
CONSTANTS MaxPairs, MaxHist, DupLoads, V31NeedsV3, FirstOnly
VARIABLES pairs, loaded, hist
vars == <<pairs, loaded, hist>>
Big == 2147483647
S1 == [digests |-> << <<259, <<1, 2>>>> >>, certs |-> << <<48, 1>> >>, attrs |-> <<>>, sigs |-> << <<259, <<9>>>> >>, key |-> <<5, 6>>,
       min |-> 24, max |-> Big, smin |-> 24, smax |-> Big]
S2 == [digests |-> << <<259, <<3>>>>, <<1057, <<4, 4>>>> >>, certs |-> << <<48, 2>>, <<48, 3, 3>> >>, attrs |-> <<7, 0, 0, 0>>,
       sigs |-> << <<259, <<8, 8>>>>, <<513, <<>>>> >>, key |-> <<6>>, min |-> 33, max |-> 33, smin |-> 33, smax |-> 34]
P(id, ss) == [id |-> id, val |-> EncSigners(ss, id # "v2")]
Universe == {P("v2", <<S1>>), P("v2", <<S2, S1>>), P("v3", <<S1>>), P("v3", <<S2>>), P("v31", <<S2>>), P("v31", <<S1, S2>>), [id |-> "x42726577", val |-> <<1, 2, 3>>]}
RECURSIVE SeqsUpTo(_)
SeqsUpTo(n) == IF n = 0 THEN {<<>>} ELSE LET R == SeqsUpTo(n - 1) IN R \cup {Append(s, p) : s \in {r \in R : Len(r) = n - 1}, p \in Universe}

Dec(val, v3) == IF FirstOnly THEN DecSignersFirstOnly(val, v3) ELSE DecSigners(val, v3)
ImplSigners(blocks, k) == IF ~Present(blocks, k) \/ (V31NeedsV3 /\ k = "v31" /\ ~Present(blocks, "v3")) THEN <<>> ELSE Dec(FirstVal(blocks, k), k # "v2")
Answer(q, blocks) ==
  IF q = "dup" THEN Ans(HasDup(blocks), <<>>, <<>>)
  ELSE LET k == KindOf(q) S == ImplSigners(blocks, k) IN
       IF q \in {"is_v2", "is_v3", "is_v31"} THEN Ans(Present(blocks, k), <<>>, <<>>)
       ELSE IF q \in {"certs_v2", "certs_v3", "certs_v31"} THEN Ans(FALSE, Cat([i \in 1..Len(S) |-> S[i].certs]), <<>>)
       ELSE IF q \in {"keys_v2", "keys_v3", "keys_v31"} THEN Ans(FALSE, [i \in 1..Len(S) |-> S[i].key], <<>>)
       ELSE Ans(FALSE, <<>>, S)

Init == pairs \in SeqsUpTo(MaxPairs) /\ loaded = FALSE /\ hist = <<>>
Query(q) == /\ Len(hist) < MaxHist
            /\ loaded' = (loaded \/ q # "dup" \/ DupLoads)
            /\ hist' = Append(hist, <<q, Answer(q, IF loaded' THEN pairs ELSE <<>>)>>)
            /\ UNCHANGED pairs
Next == \E q \in Queries : Query(q)
Spec == Init /\ [][Next]_vars

AnswersAsEncoded == \A i \in 1..Len(hist) : hist[i][2] = Expected(hist[i][1], pairs)
\* the codec: decoding the encoding of the model's signer lists gives them back
RoundTrip == \A ss \in {<<>>, <<S1>>, <<S2>>, <<S1, S2>>, <<S2, S1, S1>>} : \A v3 \in BOOLEAN :
               LET D == DecSigners(EncSigners(ss, v3), v3) IN
               /\ Len(D) = Len(ss)
               /\ \A i \in 1..Len(ss) : /\ D[i].digests = ss[i].digests /\ D[i].certs = ss[i].certs /\ D[i].attrs = ss[i].attrs
                                        /\ D[i].sigs = ss[i].sigs /\ D[i].key = ss[i].key
                                        /\ (v3 => D[i].min = ss[i].min /\ D[i].max = ss[i].max /\ D[i].smin = ss[i].smin /\ D[i].smax = ss[i].smax)
FirstBlockWins == \A k \in Kinds : Present(pairs, k) => \E i \in 1..Len(pairs) : pairs[i].id = k /\ pairs[i].val = FirstVal(pairs, k) /\ \A j \in 1..(i - 1) : pairs[j].id # k
=============================================================================
