------------------------------- MODULE DalvikMachine -------------------------------
(* The integer part of the Dalvik machine (C21): registers of 32 bits (a long occupies a pair, low half first), the     *)
(* int / long arithmetic, bitwise, shift, conversion, comparison, constant, move, branch, switch and return              *)
(* instructions, with the semantics of the Dalvik bytecode reference (identical to the Java operators on int / long).    *)
(*   instruction = [op, a, b, c, lit, bytes, t, keys, tgts]                                                              *)
(*     op     mnemonic;  a, b, c  register operands in the order of the Dalvik syntax                                    *)
(*     lit    the literal of const/4, const/16, */lit8, */lit16, */high16 as encoded (a small signed number)             *)
(*     bytes  the literal of const, const-wide/32 (4 bytes) and const-wide (8 bytes), little endian                      *)
(*     t      branch target as an instruction index (1-based);  keys, tgts  the switch table (keys as 4 bytes)           *)
(*   machine = [pc, regs, status, val, exc];  status "run" | "ret" (val = bytes returned) | "exc" (exc = class name)     *)
EXTENDS Alu, FiniteSets

IntAlu == {"add", "sub", "mul", "div", "rem", "and", "or", "xor", "shl", "shr", "ushr"}
Lit16Alu == {"add", "mul", "div", "rem", "and", "or", "xor"}
Lit8Alu == Lit16Alu \cup {"shl", "shr", "ushr"}
Tests == {"eq", "ne", "lt", "ge", "gt", "le"}
Has(mn, names, suffix) == \E nm \in names : mn = nm \o suffix
Which(mn, names, suffix) == CHOOSE nm \in names : mn = nm \o suffix

\* pv, qv: operands of wd bytes; for the shifts qv is the distance (an int)
AluOp(nm, pv, qv, wd) ==
  CASE nm = "add" -> Add(pv, qv) [] nm = "sub" -> Sub(pv, qv) [] nm = "mul" -> Mul(pv, qv)
    [] nm = "div" -> Div(pv, qv) [] nm = "rem" -> Rem(pv, qv)
    [] nm = "and" -> AndB(pv, qv) [] nm = "or" -> OrB(pv, qv) [] nm = "xor" -> XorB(pv, qv)
    [] nm = "shl" -> Shl(pv, Low(qv, IF wd = 4 THEN 31 ELSE 63))
    [] nm = "shr" -> Shr(pv, Low(qv, IF wd = 4 THEN 31 ELSE 63))
    [] nm = "ushr" -> Ushr(pv, Low(qv, IF wd = 4 THEN 31 ELSE 63))
Traps(nm, qv) == nm \in {"div", "rem"} /\ IsZero(qv)
Holds(tst, pv, qv) ==
  CASE tst = "eq" -> pv = qv [] tst = "ne" -> pv # qv [] tst = "lt" -> Less(pv, qv) [] tst = "ge" -> ~Less(pv, qv)
    [] tst = "gt" -> Less(qv, pv) [] tst = "le" -> ~Less(qv, pv)

GetI(mc, rg) == mc.regs[rg]
GetL(mc, rg) == mc.regs[rg] \o mc.regs[rg + 1]
SetI(mc, rg, nv) == [mc EXCEPT !.regs[rg] = nv, !.pc = @ + 1]
SetL(mc, rg, nv) == [mc EXCEPT !.regs[rg] = SubSeq(nv, 1, 4), !.regs[rg + 1] = SubSeq(nv, 5, 8), !.pc = @ + 1]
Jump(mc, tg) == [mc EXCEPT !.pc = tg]
Fall(mc) == [mc EXCEPT !.pc = @ + 1]
Throw(mc, cls) == [mc EXCEPT !.status = "exc", !.exc = cls]
Return(mc, nv) == [mc EXCEPT !.status = "ret", !.val = nv]
BinI(mc, nm, dst, pv, qv) == IF Traps(nm, qv) THEN Throw(mc, "java.lang.ArithmeticException") ELSE SetI(mc, dst, AluOp(nm, pv, qv, 4))
BinL(mc, nm, dst, pv, qv) == IF Traps(nm, qv) THEN Throw(mc, "java.lang.ArithmeticException") ELSE SetL(mc, dst, AluOp(nm, pv, qv, 8))
IsShift(nm) == nm \in {"shl", "shr", "ushr"}
Sign3(pv, qv) == IF pv = qv THEN Zero(4) ELSE IF Less(pv, qv) THEN FromInt(-1, 4) ELSE One(4)

Step(mc, ins) ==
  LET mn == ins.op IN
  CASE mn = "nop" -> Fall(mc)
    [] mn \in {"move", "move/from16", "move/16"} -> SetI(mc, ins.a, GetI(mc, ins.b))
    [] mn \in {"move-wide", "move-wide/from16", "move-wide/16"} -> SetL(mc, ins.a, GetL(mc, ins.b))
    [] mn \in {"const/4", "const/16"} -> SetI(mc, ins.a, FromInt(ins.lit, 4))
    [] mn = "const" -> SetI(mc, ins.a, ins.bytes)
    [] mn = "const/high16" -> SetI(mc, ins.a, Shl(FromInt(ins.lit, 4), 16))
    [] mn = "const-wide/16" -> SetL(mc, ins.a, FromInt(ins.lit, 8))
    [] mn = "const-wide/32" -> SetL(mc, ins.a, SignExtend(ins.bytes, 8))
    [] mn = "const-wide" -> SetL(mc, ins.a, ins.bytes)
    [] mn = "const-wide/high16" -> SetL(mc, ins.a, Shl(FromInt(ins.lit, 8), 48))
    [] Has(mn, IntAlu, "-int") -> BinI(mc, Which(mn, IntAlu, "-int"), ins.a, GetI(mc, ins.b), GetI(mc, ins.c))
    [] Has(mn, IntAlu, "-int/2addr") -> BinI(mc, Which(mn, IntAlu, "-int/2addr"), ins.a, GetI(mc, ins.a), GetI(mc, ins.b))
    [] Has(mn, Lit16Alu, "-int/lit16") -> BinI(mc, Which(mn, Lit16Alu, "-int/lit16"), ins.a, GetI(mc, ins.b), FromInt(ins.lit, 4))
    [] Has(mn, Lit8Alu, "-int/lit8") -> BinI(mc, Which(mn, Lit8Alu, "-int/lit8"), ins.a, GetI(mc, ins.b), FromInt(ins.lit, 4))
    [] mn \in {"rsub-int", "rsub-int/lit8"} -> SetI(mc, ins.a, Sub(FromInt(ins.lit, 4), GetI(mc, ins.b)))
    [] Has(mn, IntAlu, "-long") ->
         LET nm == Which(mn, IntAlu, "-long") IN BinL(mc, nm, ins.a, GetL(mc, ins.b), IF IsShift(nm) THEN GetI(mc, ins.c) ELSE GetL(mc, ins.c))
    [] Has(mn, IntAlu, "-long/2addr") ->
         LET nm == Which(mn, IntAlu, "-long/2addr") IN BinL(mc, nm, ins.a, GetL(mc, ins.a), IF IsShift(nm) THEN GetI(mc, ins.b) ELSE GetL(mc, ins.b))
    [] mn = "neg-int" -> SetI(mc, ins.a, Neg(GetI(mc, ins.b)))
    [] mn = "not-int" -> SetI(mc, ins.a, NotB(GetI(mc, ins.b)))
    [] mn = "neg-long" -> SetL(mc, ins.a, Neg(GetL(mc, ins.b)))
    [] mn = "not-long" -> SetL(mc, ins.a, NotB(GetL(mc, ins.b)))
    [] mn = "int-to-long" -> SetL(mc, ins.a, SignExtend(GetI(mc, ins.b), 8))
    [] mn = "long-to-int" -> SetI(mc, ins.a, Trunc(GetL(mc, ins.b), 4))
    [] mn = "int-to-byte" -> SetI(mc, ins.a, SignExtend(Trunc(GetI(mc, ins.b), 1), 4))
    [] mn = "int-to-short" -> SetI(mc, ins.a, SignExtend(Trunc(GetI(mc, ins.b), 2), 4))
    [] mn = "int-to-char" -> SetI(mc, ins.a, ZeroExtend(Trunc(GetI(mc, ins.b), 2), 4))
    [] mn = "cmp-long" -> SetI(mc, ins.a, Sign3(GetL(mc, ins.b), GetL(mc, ins.c)))
    [] \E tst \in Tests : mn = "if-" \o tst ->
         LET tst == CHOOSE tt \in Tests : mn = "if-" \o tt IN IF Holds(tst, GetI(mc, ins.a), GetI(mc, ins.b)) THEN Jump(mc, ins.t) ELSE Fall(mc)
    [] \E tst \in Tests : mn = "if-" \o tst \o "z" ->
         LET tst == CHOOSE tt \in Tests : mn = "if-" \o tt \o "z" IN IF Holds(tst, GetI(mc, ins.a), Zero(4)) THEN Jump(mc, ins.t) ELSE Fall(mc)
    [] mn \in {"goto", "goto/16", "goto/32"} -> Jump(mc, ins.t)
    [] mn \in {"packed-switch", "sparse-switch"} ->
         LET hits == {ix \in 1..Len(ins.keys) : ins.keys[ix] = GetI(mc, ins.a)} IN
         IF hits = {} THEN Fall(mc) ELSE Jump(mc, ins.tgts[CHOOSE ix \in hits : TRUE])
    [] mn = "return" -> Return(mc, GetI(mc, ins.a))
    [] mn = "return-wide" -> Return(mc, GetL(mc, ins.a))
    [] mn = "return-void" -> Return(mc, <<>>)

\* the machine at the entry of a method: argument bytes laid out from register `first` on, everything else zero
Load(nregs, first, argbytes) ==
  [pc |-> 1, status |-> "run", val |-> <<>>, exc |-> "",
   regs |-> [rg \in 0..(nregs - 1) |-> IF rg >= first /\ 4 * (rg - first) + 4 <= Len(argbytes) THEN SubSeq(argbytes, 4 * (rg - first) + 1, 4 * (rg - first) + 4) ELSE Zero(4)]]
I(vx) == [op |-> "nop", a |-> 0, b |-> 0, c |-> 0, lit |-> 0, bytes |-> <<>>, t |-> 0, keys |-> <<>>, tgts |-> <<>>]
Ins(mn, ra, rb, rc) == [I(0) EXCEPT !.op = mn, !.a = ra, !.b = rb, !.c = rc]
InsLit(mn, ra, rb, lt) == [I(0) EXCEPT !.op = mn, !.a = ra, !.b = rb, !.lit = lt]
=============================================================================
