SPECIFICATION Spec
CONSTANTS
  NN = 2
  NT = 3
  NP = 3
  MaxF = 2
  MaxM = 3
INVARIANT LayoutOK
INVARIANT LookupsOK
CHECK_DEADLOCK FALSE
