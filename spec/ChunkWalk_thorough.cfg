SPECIFICATION Spec
CONSTANTS
 L = 7
 MinSize = 2
INVARIANT Bounded
PROPERTY Terminates
CONSTRAINT Limit
CHECK_DEADLOCK FALSE
