SPECIFICATION Spec
INVARIANT RoundTrip
INVARIANT Bytes
INVARIANT ThreeLetterFlag
CHECK_DEADLOCK FALSE
