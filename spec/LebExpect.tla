---------------------------- MODULE LebExpect ----------------------------
(* Generation run for S->C replay: the same input space as LebReader, every state carrying the value the *)
(* specification assigns (exp, p1).  No behaviour: the states are the test cases.                        *)
EXTENDS Leb
CONSTANTS ByteAll, ByteEdge, Vals
VARIABLES kind, bs, val, exp, p1
R == INSTANCE LebReader WITH pos <- 0, acc <- <<>>, done <- FALSE
Init == /\ kind \in {"u", "s", "eu", "es"}
        /\ IF kind \in {"u", "s"} THEN bs \in R!Inputs(kind) /\ val = <<0, 0>>
           ELSE val \in Vals /\ bs = (IF kind = "eu" THEN EncU(val) ELSE EncS(val))
        /\ exp = (IF kind \in {"s", "es"} THEN SLeb(bs) ELSE ULeb(bs))
        /\ p1 = (IF kind \in {"u", "eu"} THEN P1(bs) ELSE [neg |-> FALSE, v |-> <<0, 0>>])
Next == UNCHANGED <<kind, bs, val, exp, p1>>
Spec == Init /\ [][Next]_<<kind, bs, val, exp, p1>>
BoundaryVals == R!BoundaryVals
AllBytes == 0..255
=============================================================================
