-------------------------------- MODULE AxmlMC --------------------------------
(* Documents with <= 3 elements (the four tree shapes), tags a/b, optional namespace U, attribute sets of <= 2 out  *)
(* of 4, optional text, and an optional unknown chunk inserted at any position of the stream.                     *)
EXTENDS Axml
CONSTANT Rich       \* TRUE: vary attributes and namespaces on every element; FALSE: on the root only
Attrs == {<<"", "x", "1">>, <<"U", "x", "2">>, <<"U", "name", "v">>, <<"", "y", "">>}
AttrSets == {S \in SUBSET Attrs : Cardinality(S) <= 2}
Leafs(full) == IF full THEN [tag : {"a", "b"}, ns : {"", "U"}, attrs : AttrSets, text : {"", "t"}, kids : {<<>>}]
               ELSE [tag : {"a", "b"}, ns : {""}, attrs : {{}, {<<"U", "name", "v">>}}, text : {"", "t"}, kids : {<<>>}]
Trees == Leafs(TRUE)
         \cup {[l EXCEPT !.kids = <<k>>] : l \in Leafs(TRUE), k \in Leafs(Rich)}
         \cup {[l EXCEPT !.kids = <<k1, k2>>] : l \in Leafs(Rich), k1 \in Leafs(FALSE), k2 \in Leafs(FALSE)}
         \cup {[l EXCEPT !.kids = << [k EXCEPT !.kids = <<g>>] >>] : l \in Leafs(Rich), k \in Leafs(FALSE), g \in Leafs(FALSE)}
Insert(s, i) == SubSeq(s, 1, i) \o << <<"skip">> >> \o SubSeq(s, i + 1, Len(s))
Init == /\ doc \in Trees
        /\ \/ stream = Serialize(doc)
           \/ \E i \in 0..Len(Serialize(doc)) : stream = Insert(Serialize(doc), i)
        /\ cur = 1 /\ stack = <<>> /\ root = <<>>
MCSpec == Init /\ Spec
=============================================================================
