--------------------------------- MODULE Alu ---------------------------------
(* Two's complement arithmetic of the Dalvik / Java int (4 bytes) and long (8 bytes) on little-endian byte sequences   *)
(* (TLC's own integers have 32 bits).  All operators work for any number of bytes.  Parameter names carry a 'u' prefix: *)
(* TLC evaluates arguments of RECURSIVE operators lazily and resolves a clashing name at the call site wrongly.           *)
EXTENDS Naturals, Integers, Sequences, Bitwise, TLC

Zero(un1) == [ui1 \in 1..un1 |-> 0]
One(un2) == [ui2 \in 1..un2 |-> IF ui2 = 1 THEN 1 ELSE 0]
NotB(ua3) == [ui3 \in 1..Len(ua3) |-> 255 - ua3[ui3]]
RECURSIVE AddC(_, _, _, _)
AddC(ua4, ub4, ui4, uc4) == IF ui4 > Len(ua4) THEN <<>> ELSE LET us4 == ua4[ui4] + ub4[ui4] + uc4 IN <<us4 % 256>> \o AddC(ua4, ub4, ui4 + 1, us4 \div 256)
Add(ua5, ub5) == AddC(ua5, ub5, 1, 0)
Neg(ua6) == Add(NotB(ua6), One(Len(ua6)))
Sub(ua7, ub7) == Add(ua7, Neg(ub7))
AndB(ua8, ub8) == [ui8 \in 1..Len(ua8) |-> ua8[ui8] & ub8[ui8]]
OrB(ua9, ub9) == [ui9 \in 1..Len(ua9) |-> ua9[ui9] | ub9[ui9]]
XorB(ua10, ub10) == [ui10 \in 1..Len(ua10) |-> ua10[ui10] ^^ ub10[ui10]]
IsNeg(ua11) == ua11[Len(ua11)] >= 128
IsZero(ua12) == \A ui12 \in 1..Len(ua12) : ua12[ui12] = 0
Abs(ua13) == IF IsNeg(ua13) THEN Neg(ua13) ELSE ua13            \* as an unsigned13 number (the most negative value is its own magnitude)

RECURSIVE ULessFrom(_, _, _)
ULessFrom(ua14, ub14, ui14) == IF ui14 = 0 THEN FALSE ELSE IF ua14[ui14] # ub14[ui14] THEN ua14[ui14] < ub14[ui14] ELSE ULessFrom(ua14, ub14, ui14 - 1)
ULess(ua15, ub15) == ULessFrom(ua15, ub15, Len(ua15))
Less(ua16, ub16) == IF IsNeg(ua16) # IsNeg(ub16) THEN IsNeg(ua16) ELSE ULess(ua16, ub16)

Pow2(uk17) == CASE uk17 = 0 -> 1 [] uk17 = 1 -> 2 [] uk17 = 2 -> 4 [] uk17 = 3 -> 8 [] uk17 = 4 -> 16 [] uk17 = 5 -> 32 [] uk17 = 6 -> 64 [] uk17 = 7 -> 128
Bit(ua18, uk18) == (ua18[(uk18 \div 8) + 1] \div Pow2(uk18 % 8)) % 2           \* bit uk18 (0 = least significant)
FromBits(un19, uf19(_)) == [ui19 \in 1..un19 |-> uf19(8 * (ui19 - 1)) + 2 * uf19(8 * (ui19 - 1) + 1) + 4 * uf19(8 * (ui19 - 1) + 2) + 8 * uf19(8 * (ui19 - 1) + 3)
                                     + 16 * uf19(8 * (ui19 - 1) + 4) + 32 * uf19(8 * (ui19 - 1) + 5) + 64 * uf19(8 * (ui19 - 1) + 6) + 128 * uf19(8 * (ui19 - 1) + 7)]
Shl(ua20, un20) == LET uf20(uk20) == IF uk20 >= un20 THEN Bit(ua20, uk20 - un20) ELSE 0 IN FromBits(Len(ua20), uf20)
Ushr(ua21, un21) == LET uW21 == 8 * Len(ua21) uf21(uk21) == IF uk21 + un21 < uW21 THEN Bit(ua21, uk21 + un21) ELSE 0 IN FromBits(Len(ua21), uf21)
Shr(ua22, un22) == LET uW22 == 8 * Len(ua22) uf22(uk22) == IF uk22 + un22 < uW22 THEN Bit(ua22, uk22 + un22) ELSE Bit(ua22, uW22 - 1) IN FromBits(Len(ua22), uf22)

RECURSIVE SumProd(_, _, _, _)
SumProd(ua23, ub23, uk23, ui23) == IF ui23 > uk23 THEN 0 ELSE ua23[ui23] * ub23[uk23 - ui23 + 1] + SumProd(ua23, ub23, uk23, ui23 + 1)
RECURSIVE MulFrom(_, _, _, _)
MulFrom(ua24, ub24, uk24, uc24) == IF uk24 > Len(ua24) THEN <<>> ELSE LET us24 == uc24 + SumProd(ua24, ub24, uk24, 1) IN <<us24 % 256>> \o MulFrom(ua24, ub24, uk24 + 1, us24 \div 256)
Mul(ua25, ub25) == MulFrom(ua25, ub25, 1, 0)

\* unsigned25 division, bit by bit from the most significant bit: <<quotient, remainder>>
RECURSIVE UDivFrom(_, _, _, _, _)
UDivFrom(ua26, ud26, uk26, ur26, uq26) ==
  IF uk26 < 0 THEN <<uq26, ur26>>
  ELSE LET ur126 == Add(Add(ur26, ur26), IF Bit(ua26, uk26) = 1 THEN One(Len(ua26)) ELSE Zero(Len(ua26)))
           uge26 == ~ULess(ur126, ud26)
       IN UDivFrom(ua26, ud26, uk26 - 1, TLCEval(IF uge26 THEN Sub(ur126, ud26) ELSE ur126),      \* (TLCEval: evaluate now, keep the chain of pending arguments short)
                   TLCEval(IF uge26 THEN [uq26 EXCEPT ![(uk26 \div 8) + 1] = @ + Pow2(uk26 % 8)] ELSE uq26))
UDivMod(ua27, ud27) == UDivFrom(ua27, ud27, 8 * Len(ua27) - 1, Zero(Len(ua27)), Zero(Len(ua27)))
\* Java / Dalvik division: truncates towards zero, the remainder has the sign of the dividend; the divisor is not zero
Div(ua28, ub28) == LET uq28 == UDivMod(Abs(ua28), Abs(ub28))[1] IN IF IsNeg(ua28) # IsNeg(ub28) THEN Neg(uq28) ELSE uq28
Rem(ua29, ub29) == LET ur29 == UDivMod(Abs(ua29), Abs(ub29))[2] IN IF IsNeg(ua29) THEN Neg(ur29) ELSE ur29

SignExtend(ua30, un30) == [ui30 \in 1..un30 |-> IF ui30 <= Len(ua30) THEN ua30[ui30] ELSE IF IsNeg(ua30) THEN 255 ELSE 0]
ZeroExtend(ua31, un31) == [ui31 \in 1..un31 |-> IF ui31 <= Len(ua31) THEN ua31[ui31] ELSE 0]
Trunc(ua32, un32) == SubSeq(ua32, 1, un32)
\* small numbers <-> byte sequences (for shift distances, literals of the model and the checks below)
RECURSIVE FromNat(_, _)
FromNat(uv33, un33) == IF un33 = 0 THEN <<>> ELSE <<uv33 % 256>> \o FromNat(uv33 \div 256, un33 - 1)
FromInt(uv34, un34) == IF uv34 >= 0 THEN FromNat(uv34, un34) ELSE Neg(FromNat(0 - uv34, un34))
Low(ua35, umask35) == ua35[1] & umask35                                        \* shift distance: low 5 / 6 bits
=============================================================================
