-------------------------------- MODULE ArscMC --------------------------------
(* One package, one type with three entry slots in two configurations (default and a qualified one); every slot of  *)
(* the default configuration is absent / string / integer / reference to the next slot / bag (string + reference   *)
(* to slot 0); the second configuration stores absent / string / reference to slot 0; both configurations are laid  *)
(* out plainly, sparsely or with 16-bit offsets.                                                                    *)
EXTENDS Arsc
CONSTANT SecondCfg
VARIABLES T, lay
Pid == 127
Base == Pid * 16777216 + 65536
E(idx, cfg, kind, val) == [pkg |-> "com.a", pid |-> Pid, type |-> "array", tid |-> 1, idx |-> idx, cfg |-> cfg, kind |-> kind, val |-> val,
                            key |-> (IF idx = 0 THEN "k0" ELSE IF idx = 1 THEN "k1" ELSE "k2")]
Opt1(i) == { {}, {E(i, "|0", "str", <<115, 48 + i>>)}, {E(i, "|0", "str", <<98>>)}, {E(i, "|0", "int", 7 + i)},
             {E(i, "|0", "ref", Base + ((i + 1) % 3))}, {E(i, "|0", "bag", << <<"str", <<120>> >>, <<"ref", Base>> >>)} }
Opt2(i) == { {}, {E(i, SecondCfg, "str", <<99, 48 + i>>)}, {E(i, SecondCfg, "ref", Base)} }
Layouts == {"plain", "sparse", "offset16"}
Init == /\ \E a0 \in Opt1(0), a1 \in Opt1(1), a2 \in Opt1(2), b0 \in Opt2(0), b1 \in Opt2(1), b2 \in Opt2(2) :
             T = a0 \cup a1 \cup a2 \cup b0 \cup b1 \cup b2
        /\ lay \in Layouts \X Layouts
Next == UNCHANGED <<T, lay>>
Spec == Init /\ [][Next]_<<T, lay>>
TableOK == WellFormed(T)
\* resolution is well defined: it terminates (Reach is a finite fixpoint) and only yields stored strings / numbers
ResolvedAreStored == \A r \in Rids(T) : ResolvedValues(T, r) \subseteq UNION {UNION {Concrete(it) : it \in ItemsOf(e)} : e \in T}
SelfContained == \A r \in Rids(T) : r \in Reach(T, {r})
=============================================================================
