------------------------------ MODULE ResResolve ------------------------------
(* Resolution of resource references (C29) as a traversal with an explicit stack.                                 *)
(*   table : id -> entry;  entry = <<"str", s>> | <<"ref", id>> | <<"bag", Seq(item)>> with items <<"str", s>> or    *)
(*   <<"ref", id>> (a complex entry).  Resolving id r collects the concrete strings reachable from r.               *)
(*   Guard = "visited" : an id is expanded at most once per resolution (terminates on every table)                  *)
(*   Guard = "self"    : only a reference of an entry to *itself* is skipped (the original implementation)          *)
EXTENDS Naturals, Sequences, FiniteSets, TLC
CONSTANTS Ids, Strs, Guard, WithBags
VARIABLES table, start, stack, visited, result, steps
vars == <<table, start, stack, visited, result, steps>>

Items == {<<"str", s>> : s \in Strs} \cup {<<"ref", i>> : i \in Ids}
Entries == Items \cup (IF WithBags THEN {<<"bag", <<a, b>>>> : a \in {<<"str", s>> : s \in Strs}, b \in {<<"ref", i>> : i \in Ids}} ELSE {})
Init == /\ table \in [Ids -> Entries] /\ start \in Ids
        /\ stack = <<start>> /\ visited = {} /\ result = {} /\ steps = 0
ItemsOf(e) == IF e[1] = "bag" THEN e[2] ELSE <<e>>
Range(s) == {s[i] : i \in 1..Len(s)}
\* expand the id on top of the stack
Expand == /\ stack # <<>>
          /\ LET id == Head(stack) rest == Tail(stack)
                 its == ItemsOf(table[id])
                 strs == {it[2] : it \in {x \in Range(its) : x[1] = "str"}}
                 refs == [k \in 1..Len(SelectSeq(its, LAMBDA x : x[1] = "ref")) |-> SelectSeq(its, LAMBDA x : x[1] = "ref")[k][2]]
                 follow == IF Guard = "visited" THEN SelectSeq(refs, LAMBDA r : r \notin visited /\ r # id)
                           ELSE SelectSeq(refs, LAMBDA r : r # id)
             IN IF Guard = "visited" /\ id \in visited
                THEN stack' = rest /\ UNCHANGED <<visited, result>>
                ELSE /\ result' = result \cup strs
                     /\ visited' = visited \cup {id}
                     /\ stack' = follow \o rest
          /\ steps' = (IF Guard = "visited" THEN steps + 1 ELSE steps)     \* no counter in the unguarded variant: its state space must stay finite
          /\ UNCHANGED <<table, start>>
Spec == Init /\ [][Expand]_vars /\ WF_vars(Expand)
Done == stack = <<>>
\* the concrete values reachable from the start id, by definition (graph reachability)
RECURSIVE Reach(_, _)
Reach(T, S) == LET next == {it[2] : it \in UNION {{x \in Range(ItemsOf(T[i])) : x[1] = "ref"} : i \in S}} \ S
               IN IF next = {} THEN S ELSE Reach(T, S \cup next)
Reachable == UNION {{it[2] : it \in {x \in Range(ItemsOf(table[i])) : x[1] = "str"}} : i \in Reach(table, {start})}
ReturnsReachable == Done => result = Reachable
Terminates == <>Done
\* an upper bound on the work: each id is expanded at most once (plus one visit per reference)
Bounded == steps <= Cardinality(Ids) * (Cardinality(Ids) + 2)
=============================================================================
