SPECIFICATION Spec
POSTCONDITION Accepted
CHECK_DEADLOCK FALSE
