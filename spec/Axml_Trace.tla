------------------------------- MODULE Axml_Trace -------------------------------
(* C->S for C26: one record per generated binary XML document: the declared tree and the tree AXMLPrinter built.  *)
(*   declared element  [tag, ns, attrs, text, kids]  attrs = Seq(<<ns, pool name, resource id (0 = none), type,    *)
(*                     data limbs, string value as character codes>>), text = character codes                      *)
(*   observed element  [tag, ns, attrs, text, kids]  attrs = Seq(<<ns, name, value as character codes>>)           *)
(* Elements and attributes are compared by (namespace URI, local name); an attribute's name is the system name of  *)
(* its resource id when the id is a known framework attribute, otherwise the pool string; the value text is the    *)
(* one ResValue assigns to the declared type (types whose text is not fixed by the property are not compared).    *)
EXTENDS Naturals, Integers, Sequences, FiniteSets, TLC, Json, IOUtils, TLCExt
Tr == ndJsonDeserialize(IOEnv.TRACE_FILE)
VARIABLE l
RV == INSTANCE ResValue
Range(s) == {s[i] : i \in 1..Len(s)}
KnownAttr == (16842752 :> "theme") @@ (16842753 :> "label") @@ (16842754 :> "icon") @@ (16842755 :> "name") @@ (16842758 :> "permission")
             @@ (16842767 :> "debuggable") @@ (16842768 :> "exported") @@ (16843276 :> "minSdkVersion") @@ (16843291 :> "versionCode") @@ (16843292 :> "versionName")
AttrName(a) == IF a[3] \in DOMAIN KnownAttr THEN KnownAttr[a[3]] ELSE a[2]
RECURSIVE Digits(_)
Digits(n) == IF n < 10 THEN <<48 + n>> ELSE Digits(n \div 10) \o <<48 + (n % 10)>>
DecCodes(d) == LET mag == RV!IntAbs(d) IN (IF RV!IntNeg(d) THEN <<45>> ELSE <<>>) \o Digits(mag[1] + 65536 * mag[2])
Exact(a) == a[4] \in {1, 2, 3, 17, 18, 28, 29, 30, 31} \/ (a[4] = 16 /\ a[5] # <<0, 32768>>)
Expected(a) == IF a[4] = 3 THEN a[6] ELSE IF a[4] = 16 THEN DecCodes(a[5]) ELSE RV!Text(a[4], a[5])
AttrsOK(da, oa) == /\ Len(da) = Len(oa)
                   /\ \A i \in 1..Len(da) : \E j \in 1..Len(oa) :
                        oa[j][1] = da[i][1] /\ oa[j][2] = AttrName(da[i]) /\ (Exact(da[i]) => oa[j][3] = Expected(da[i]))
RECURSIVE Same(_, _)
Same(d, o) == /\ d.tag = o.tag /\ d.ns = o.ns /\ d.text = o.text
              /\ AttrsOK(d.attrs, o.attrs)
              /\ Len(d.kids) = Len(o.kids)
              /\ \A i \in 1..Len(d.kids) : Same(d.kids[i], o.kids[i])
RECURSIVE Diff(_, _)
\* names of the first clauses that differ (for the verdict)
Diff(d, o) == (IF d.tag = o.tag /\ d.ns = o.ns THEN {} ELSE {"C26.element-name-or-namespace"})
              \cup (IF d.text = o.text THEN {} ELSE {"C26.text"})
              \cup (IF AttrsOK(d.attrs, o.attrs) THEN {} ELSE {"C26.attributes"})
              \cup (IF Len(d.kids) = Len(o.kids) THEN UNION {Diff(d.kids[i], o.kids[i]) : i \in 1..Len(d.kids)} ELSE {"C26.children"})
Failing(r) == IF ~r.parsed THEN {"C26.document-is-parsed"} ELSE Diff(r.doc, r.got)
Init == l = 1
Next == /\ l <= Len(Tr)
        /\ LET f == Failing(Tr[l]) IN IF f = {} THEN TRUE ELSE PrintT(<<"REJECT", l, f>>)
        /\ l' = l + 1
Spec == Init /\ [][Next]_l
Accepted == TLCGet("stats").diameter - 1 = Len(Tr)
=============================================================================
