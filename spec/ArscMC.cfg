SPECIFICATION Spec
CONSTANT SecondCfg = "de|0"
INVARIANT TableOK
INVARIANT ResolvedAreStored
INVARIANT SelfContained
CHECK_DEADLOCK FALSE
