SPECIFICATION Spec
CONSTANTS
 MaxPairs = 2
 MaxHist = 2
 DupLoads = FALSE
 V31NeedsV3 = FALSE
 FirstOnly = FALSE
INVARIANT AnswersAsEncoded
INVARIANT RoundTrip
INVARIANT FirstBlockWins
CHECK_DEADLOCK FALSE
