SPECIFICATION Spec
CONSTANTS
  Mode = "guard"
  Parts = {"a", "..", ".", "", "long"}
  MaxSegs = 4
INVARIANT StaysInside
CHECK_DEADLOCK FALSE
