----------------------------- MODULE MethodCFGMC -----------------------------
(* Bounded instance of MethodCFG: every method of 1..N abstract instructions (plain 1/2 units, goto, if,      *)
(* switch with two cases, fill-array-data, return, throw; every target assignment incl. first instruction,   *)
(* self, both sides equal, duplicate case targets) with payloads appended 4-byte aligned, and try ranges     *)
(* starting/ending at every instruction with every handler position.  The block-construction algorithm runs *)
(* as actions (leaders, one block per Scan step, wire, attach); the C10/C11/C12/C40 predicates are invariants*)
(* of its final state.                                                                                       *)
EXTENDS MethodCFG
CONSTANTS N, TryMode, TryEnds          \* TryMode in {"none", "one", "two"}
VARIABLES base, tr, m, phase, L, B

BLen(b) == CASE b[1] = "p1" -> 2 [] b[1] = "p2" -> 4 [] b[1] = "goto" -> 4 [] b[1] = "if" -> 4
             [] b[1] = "sw" -> 6 [] b[1] = "fill" -> 6 [] b[1] = "ret" -> 2 [] b[1] = "thr" -> 2
RECURSIVE SumLen(_, _)
SumLen(bs, n) == IF n = 0 THEN 0 ELSE SumLen(bs, n - 1) + BLen(bs[n])
BOff(bs, i) == SumLen(bs, i - 1)
PLen(b) == IF b[1] = "sw" THEN 16 ELSE 10
RECURSIVE PIdxFrom(_, _)
PIdxFrom(bs, i) == IF i > Len(bs) THEN <<>> ELSE (IF bs[i][1] \in {"sw", "fill"} THEN <<i>> ELSE <<>>) \o PIdxFrom(bs, i + 1)
RECURSIVE PayPlan(_, _, _)
PayPlan(bs, idxs, at) == IF idxs = <<>> THEN <<>>
                         ELSE LET i == Head(idxs) pad == IF at % 4 = 0 THEN 0 ELSE 2 po == at + pad IN
                              << <<i, (IF pad = 0 THEN -1 ELSE at), po>> >> \o PayPlan(bs, Tail(idxs), po + PLen(bs[i]))
Plan(bs) == PayPlan(bs, PIdxFrom(bs, 1), SumLen(bs, Len(bs)))
PayOf(bs, i) == (CHOOSE p \in Range(Plan(bs)) : p[1] = i)[3]
KindOf(b) == CASE b[1] \in {"p1", "p2"} -> "plain" [] b[1] = "goto" -> "goto" [] b[1] = "if" -> "if" [] b[1] = "sw" -> "switch"
               [] b[1] = "fill" -> "fill" [] b[1] = "ret" -> "return" [] b[1] = "thr" -> "throw"
TgtOf(bs, b) == CASE b[1] \in {"goto", "if"} -> <<BOff(bs, b[2])>> [] b[1] = "sw" -> <<BOff(bs, b[2]), BOff(bs, b[3])>> [] OTHER -> <<>>
RECURSIVE PayIns(_, _)
PayIns(bs, plan) == IF plan = <<>> THEN <<>>
                    ELSE LET p == Head(plan) IN
                         (IF p[2] >= 0 THEN << <<p[2], 2, "plain", <<>>, -1>> >> ELSE <<>>)
                         \o << <<p[3], PLen(bs[p[1]]), "payload", <<>>, -1>> >> \o PayIns(bs, Tail(plan))
Build(bs, ts) ==
  LET plan == Plan(bs)
      body == [i \in 1..Len(bs) |-> <<BOff(bs, i), BLen(bs[i]), KindOf(bs[i]), TgtOf(bs, bs[i]),
                                       (IF bs[i][1] \in {"sw", "fill"} THEN PayOf(bs, i) ELSE -1)>>]
      tail == PayIns(bs, plan)
      all  == body \o tail
      last == all[Len(all)]
  IN [ins |-> all, endoff |-> last[1] + last[2],
      tries |-> [k \in 1..Len(ts) |-> <<BOff(bs, ts[k][1]), BOff(bs, ts[k][2]) + BLen(bs[ts[k][2]]) - 1, <<BOff(bs, ts[k][3])>> >>]]

Kinds(n) == { <<"p1", 0, 0>>, <<"p2", 0, 0>>, <<"ret", 0, 0>>, <<"thr", 0, 0>>, <<"fill", 0, 0>> }
            \cup {<<"goto", t, 0>> : t \in 1..n} \cup {<<"if", t, 0>> : t \in 1..n}
            \cup {<<"sw", p[1], p[2]>> : p \in {<<1, n>>, <<n, n>>, <<(IF n >= 2 THEN 2 ELSE 1), 1>>}}
TrySet(n) == CASE TryMode = "none" -> {<<>>}
               [] TryMode = "one" -> {<<>>} \cup {<< <<s, e, h>> >> : s \in 1..n, e \in 1..n, h \in 1..n}
               [] TryMode = "two" -> {<< <<s, e, h>>, <<e + 1, f, g>> >> : s \in 1..n, e \in 1..n, h \in 1..n, f \in 1..n, g \in {1, n}}
ValidTries(n, ts) == \A k \in 1..Len(ts) : ts[k][1] <= ts[k][2] /\ ts[k][2] <= n

Init == /\ \E n \in 1..N : base \in [1..n -> Kinds(n)] /\ tr \in {ts \in TrySet(n) : ValidTries(n, ts)}
        /\ m = Build(base, tr)
        /\ phase = "leaders" /\ L = {} /\ B = <<>>
FindLeaders == /\ phase = "leaders" /\ L' = Leaders(m, TryEnds) /\ phase' = "scan" /\ UNCHANGED <<base, tr, m, B>>
\* one block per step: the next start after the last block's end
Scan == /\ phase = "scan"
        /\ LET s == IF B = <<>> THEN 0 ELSE B[Len(B)].e IN
           IF s >= m.endoff THEN phase' = "wire" /\ UNCHANGED B
           ELSE /\ B' = Append(B, [s |-> s, e |-> BlockEnd(m, L, s), ins |-> SortedOffs(m, s, BlockEnd(m, L, s)),
                                   ch |-> {}, fa |-> {}, choff |-> <<>>, exc |-> <<>>, sp |-> <<>>])
                /\ UNCHANGED phase
        /\ UNCHANGED <<base, tr, m, L>>
Containing(BB, a) == BB[CHOOSE k \in 1..Len(BB) : BB[k].s <= a /\ a < BB[k].e].s
SetToSeq(S) == [i \in 1..Cardinality(S) |-> CHOOSE o \in S : Cardinality({p \in S : p < o}) = i - 1]
PairsToSeq(S) == [i \in 1..Cardinality(S) |-> CHOOSE o \in S : Cardinality({p \in S : p[1] < o[1]}) = i - 1]
Wire == /\ phase = "wire"
        /\ LET succ(b) == {Containing(B, a) : a \in (Flow(LastIns(m, b)) \cap InsOffs(m))}
               W == [k \in 1..Len(B) |-> [B[k] EXCEPT !.ch = succ(B[k]),
                                                     !.choff = [i \in 1..Cardinality(Flow(LastIns(m, B[k])) \cap InsOffs(m)) |->
                                                                  <<B[k].ins[Len(B[k].ins)], SetToSeq(Flow(LastIns(m, B[k])) \cap InsOffs(m))[i]>>]]]
           IN B' = [k \in 1..Len(W) |-> [W[k] EXCEPT !.fa = {W[j].s : j \in {x \in 1..Len(W) : W[k].s \in W[x].ch}}]]
        /\ phase' = "attach" /\ UNCHANGED <<base, tr, m, L>>
AttachExc == /\ phase = "attach"
             /\ B' = [k \in 1..Len(B) |->
                       [B[k] EXCEPT !.exc = (LET a == Attach(m, B, B[k].s, B[k].e) IN
                                             IF a = <<>> THEN <<>> ELSE <<a[1], a[2], HandlerBlocks(m, B, a[3])>>),
                                    !.sp = PairsToSeq({<<IOff(x), (IF IPay(x) \in InsOffs(m) THEN IPay(x) ELSE -1)>> :
                                                        x \in {y \in Range(m.ins) : IKind(y) \in {"switch", "fill"} /\ IOff(y) \in Range(B[k].ins)}})]]
             /\ phase' = "done" /\ UNCHANGED <<base, tr, m, L>>
Next == FindLeaders \/ Scan \/ Wire \/ AttachExc
Spec == Init /\ [][Next]_<<base, tr, m, phase, L, B>> /\ WF_<<base, tr, m, phase, L, B>>(Next)

Done == phase = "done"
ModelInDomain == InDomain(m)
C10 == Done => (Partition(m, B) /\ LeaderRule(m, B) /\ OnlyLast(m, B))
C11 == Done => (SuccExact(m, B) /\ PredInverse(B) /\ PredsAreBlocks(B))
C12 == Done => ExcCover(m, B)
C40 == Done => (OffsetsAgree(m, B) /\ PayloadLinks(m, B))
Terminates == <>Done
=============================================================================
