------------------------------ MODULE ResValueMC ------------------------------
EXTENDS ResValue
VARIABLES t, d, exp
Mants == {0, 1, 2, 255, 256, 4660, 8388607, 8388608, 8388609, 16777215, 16777214, 11184810}
Words == {<<0, 0>>, <<1, 0>>, <<65535, 0>>, <<0, 1>>, <<65535, 32767>>, <<0, 32768>>, <<1, 32768>>, <<65535, 65535>>, <<4660, 257>>, <<22136, 4660>>, <<0, 256>>, <<0, 512>>, <<52719, 43981>>}
Complex == {<<(m % 256) * 256 + r * 16 + u, m \div 256>> : m \in Mants, r \in 0..3, u \in 0..5}
Init == /\ t \in {1, 2, 5, 6, 16, 17, 18, 28, 29, 30, 31}
        /\ d \in (IF t \in {5, 6} THEN {c \in Complex : t = 5 \/ Unit(c) <= 1} ELSE Words)
        /\ exp = [text |-> Text(t, d), neg |-> (IF t \in {5, 6} THEN MantNeg(d) ELSE IntNeg(d)),
                  mag |-> (IF t \in {5, 6} THEN <<MantAbs(d) % 65536, MantAbs(d) \div 65536>> ELSE IntAbs(d)),
                  shift |-> (IF t \in {5, 6} THEN Shift(d) ELSE 0), unit |-> (IF t = 5 THEN DimUnits[Unit(d) + 1] ELSE IF t = 6 THEN FracUnits[Unit(d) + 1] ELSE "")]
Next == UNCHANGED <<t, d, exp>>
Spec == Init /\ [][Next]_<<t, d, exp>>
MantRange == t \in {5, 6} => (MantAbs(d) <= 8388608 /\ (MantNeg(d) <=> d[2] >= 32768))
AbsInvolution == t = 16 => (IntNeg(d) => IntAbs(d) # <<0, 0>>)
TextShape == t \in {1, 2, 17} \cup ColorTypes => Len(exp.text) >= 9
=============================================================================
