SPECIFICATION Spec
CONSTANTS
 L = 5
 MinSize = 2
INVARIANT Bounded
PROPERTY Terminates
CONSTRAINT Limit
CHECK_DEADLOCK FALSE
