------------------------------- MODULE NullTerm -------------------------------
(* read_null_terminated_string (C35): the buffer is read in chunks of K bytes until a chunk contains a zero byte;     *)
(* the position is then put back just behind that zero.  The buffer is abstracted to its length, the position the    *)
(* read starts at and z = the position of the first zero byte at or after the start (z = len: there is none).         *)
(*   EofCheck = TRUE : an empty chunk (end of the buffer) ends the loop with an error                                  *)
(*   EofCheck = FALSE: the loop as originally written: an empty chunk is appended and the loop goes on                 *)
EXTENDS Naturals, TLC
CONSTANTS K, Lens, Starts, EofCheck
VARIABLES len, start, z, pos, pc, got, reads
vars == <<len, start, z, pos, pc, got, reads>>
Min(a, b) == IF a < b THEN a ELSE b
LensThorough == 0..400
Init == /\ len \in Lens /\ start \in {s \in Starts : s <= len} /\ z \in start..len
        /\ pos = start /\ pc = "read" /\ got = 0 /\ reads = 0
ReadChunk == /\ pc = "read"
             /\ reads' = reads + 1
             /\ LET n == Min(K, len - pos) IN
                IF z < pos + n THEN got' = z - start /\ pos' = z + 1 /\ pc' = "done"
                ELSE IF n = 0 /\ EofCheck THEN pc' = "error" /\ UNCHANGED <<pos, got>>
                ELSE pos' = pos + n /\ pc' = "read" /\ UNCHANGED got
             /\ UNCHANGED <<len, start, z>>
Next == ReadChunk
Spec == Init /\ [][Next]_vars /\ WF_vars(Next)
Bound == ((len - start) \div K) + 2
Bounded == reads <= Bound                       \* time bounded by the input size
Terminates == <>(pc # "read")
Result == /\ (pc = "done" => z < len /\ got = z - start /\ pos = z + 1)
          /\ (pc = "error" => z = len)
LimitReads == reads <= Bound + 1                 \* state constraint (the spinning variant counts for ever)
=============================================================================
