---------------------------- MODULE MapLoad_Trace ----------------------------
(* C->S for C07: the real parser, instrumented from the harness (MapItem.parse, ClassManager.add_type_item and *)
(* the ClassManager's item tables), logs begin / parse / consult / loaded / end for files with permuted maps. *)
EXTENDS Naturals, Integers, Sequences, FiniteSets, TLC, Json, IOUtils, TLCExt
Tr == ndJsonDeserialize(IOEnv.TRACE_FILE)
VARIABLES l, mode, rank, want, k, cur, loaded
Range(s) == {s[i] : i \in 1..Len(s)}
RankOf(rk, t) == (CHOOSE p \in Range(rk) : p[1] = t)[2]
RECURSIVE InsertSorted(_, _, _)
InsertSorted(rk, s, x) == IF s = <<>> THEN <<x>>
                          ELSE IF RankOf(rk, x) < RankOf(rk, Head(s)) THEN <<x>> \o s ELSE <<Head(s)>> \o InsertSorted(rk, Tail(s), x)
RECURSIVE SortByRank(_, _)
SortByRank(rk, s) == IF s = <<>> THEN <<>> ELSE InsertSorted(rk, SortByRank(rk, SubSeq(s, 1, Len(s) - 1)), s[Len(s)])
Reject(why) == PrintT(<<"REJECT", l, why>>)
Init == l = 1 /\ mode = "skip" /\ rank = <<>> /\ want = <<>> /\ k = 0 /\ cur = -1 /\ loaded = {}
Same == UNCHANGED <<mode, rank, want, k, cur, loaded>>
Fail(why) == Reject(why) /\ mode' = "skip" /\ UNCHANGED <<rank, want, k, cur, loaded>>
Next == /\ l <= Len(Tr) /\ l' = l + 1
        /\ LET r == Tr[l] IN
           IF r.ev = "begin" THEN /\ mode' = "ok" /\ rank' = r.rank /\ want' = SortByRank(r.rank, r.perm) /\ k' = 0 /\ cur' = -1 /\ loaded' = {}
           ELSE IF mode = "skip" THEN Same
           ELSE IF r.ev = "parse" THEN
                  IF k < Len(want) /\ want[k + 1] = r.t THEN k' = k + 1 /\ cur' = r.t /\ UNCHANGED <<mode, rank, want, loaded>>
                  ELSE Fail("parse-sequence-is-rank-order")
           ELSE IF r.ev = "consult" THEN
                  IF r.u \in loaded \/ r.u \notin Range(want) THEN Same ELSE Fail("consult-only-loaded")
           ELSE IF r.ev = "loaded" THEN loaded' = loaded \cup {r.t} /\ UNCHANGED <<mode, rank, want, k, cur>>
           ELSE IF r.ev = "end" THEN
                  IF k # Len(want) THEN Fail("every-entry-parsed")
                  ELSE IF ~r.same THEN Fail("same-result-as-unpermuted")
                  ELSE Same
           ELSE Fail("unknown-event")
Spec == Init /\ [][Next]_<<l, mode, rank, want, k, cur, loaded>>
Accepted == TLCGet("stats").diameter - 1 = Len(Tr)
=============================================================================
