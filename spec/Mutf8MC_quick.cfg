SPECIFICATION Spec
CONSTANTS
  MaxLen = 2
  Units <- BoundaryUnits
  FileLen = 300
  Chunk = 128
INVARIANT RoundTrip
INVARIANT DecExact
INVARIANT ScanExact
PROPERTY Terminates
CHECK_DEADLOCK FALSE
