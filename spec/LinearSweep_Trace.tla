-------------------------- MODULE LinearSweep_Trace --------------------------
(* C->S for C02: every execution of the real linear sweep (LinearSweepAlgorithm, DCode, EncodedMethod) is      *)
(* logged as begin / emit* / end and must be a behaviour of LinearSweep!Step.  Many executions per log.        *)
EXTENDS LinearSweep, Json, IOUtils, TLCExt
Tr == ndJsonDeserialize(IOEnv.TRACE_FILE)
VARIABLES l, mode, cnt         \* mode "ok" | "skip" (after a rejected event, until the next begin); cnt = instructions emitted

Reject(why) == PrintT(<<"REJECT", l, why>>)

Begin(r) == /\ code' = r.code /\ idx' = 0 /\ out' = <<>> /\ status' = "run" /\ mode' = "ok" /\ cnt' = 0

EmitWhy(r) ==
  LET n == r.len \div 2 IN
  IF status # "run" THEN "emit-after-end"
  ELSE IF r.off # 2 * idx THEN "offset-is-cursor"
  ELSE IF r.len % 2 # 0 \/ n < 1 \/ idx + n > Len(code) THEN "inside-code"
  ELSE IF idx >= Len(code) \/ ~CanEmit(code, idx, n) THEN "length-per-format-table"
  ELSE IF r.raw # SubSeq(code, idx + 1, idx + n) THEN "reencode"
  ELSE IF r.pos # cnt THEN "off_to_pos"
  ELSE IF ~r.same THEN "get_ins_off"
  ELSE ""
EndWhy(r) ==
  IF status # "run" THEN "end-after-end"
  ELSE IF r.status = "done" THEN (IF idx = Len(code) THEN "" ELSE "consumes-declared-size")
  ELSE IF r.status = "invalid" THEN (IF idx < Len(code) /\ CanInvalid(code, idx) THEN "" ELSE "valid-instruction-reported-invalid")
  ELSE "unknown-status"

Init == l = 1 /\ mode = "skip" /\ cnt = 0 /\ code = <<>> /\ idx = 0 /\ out = <<>> /\ status = "done"
Next == /\ l <= Len(Tr)
        /\ l' = l + 1
        /\ LET r == Tr[l] IN
           IF r.ev = "begin" THEN Begin(r)
           ELSE IF mode = "skip" THEN UNCHANGED <<code, idx, out, status, mode, cnt>>
           ELSE IF r.ev = "emit" THEN
                LET w == EmitWhy(r) IN
                IF w = "" THEN idx' = idx + r.len \div 2 /\ cnt' = cnt + 1 /\ UNCHANGED <<code, out, status, mode>>
                ELSE Reject(w) /\ mode' = "skip" /\ UNCHANGED <<code, idx, out, status, cnt>>
           ELSE LET w == EndWhy(r) IN
                IF w = "" THEN status' = r.status /\ UNCHANGED <<code, idx, out, mode, cnt>>
                ELSE Reject(w) /\ mode' = "skip" /\ UNCHANGED <<code, idx, out, status, cnt>>
TSpec == Init /\ [][Next]_<<vars, l, mode, cnt>>
Accepted == TLCGet("stats").diameter - 1 = Len(Tr)
=============================================================================
