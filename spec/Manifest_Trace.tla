----------------------------- MODULE Manifest_Trace -----------------------------
(* C->S for C31: one record per generated APK: the manifest model and the answers of the APK object.                *)
EXTENDS Manifest, Json, IOUtils, TLCExt
Tr == ndJsonDeserialize(IOEnv.TRACE_FILE)
VARIABLE l
Check(n, ok) == IF ok THEN {} ELSE {n}
Failing(r) ==
  LET m == r.m o == r.obs IN
  Check("C31.package", o.package = Join(m.pkg, "."))
  \cup Check("C31.version", o.vcode = m.vcodetext /\ o.vname = m.vname)
  \cup Check("C31.permissions-without-duplicates", Range(o.permissions) = PermissionSet(m) /\ Len(o.permissions) = Cardinality(PermissionSet(m)))
  \cup Check("C31.permissions-with-maxSdkVersion", SameBag(o.uses, PermissionsWithMax(m)))
  \cup Check("C31.activities", SameBag(o.activities, Names(m.pkg, m.acts)))
  \cup Check("C31.services", SameBag(o.services, Names(m.pkg, m.svcs)))
  \cup Check("C31.receivers", SameBag(o.receivers, Names(m.pkg, m.rcvs)))
  \cup Check("C31.providers", SameBag(o.providers, Names(m.pkg, m.prvs)))
  \cup Check("C31.main-activity", MainOK(m, o.main))
  \cup Check("C31.sdk-versions", o.minsdk = m.minsdk /\ o.target = m.target /\ o.maxsdk = m.maxsdk)
  \cup Check("C31.effective-target-sdk", o.effective = EffectiveTarget(m))
  \cup Check("C31.features", SameBag(o.features, m.features))
  \cup Check("C31.libraries", SameBag(o.libraries, m.libraries))
Init == l = 1
Next == /\ l <= Len(Tr)
        /\ LET f == Failing(Tr[l]) IN IF f = {} THEN TRUE ELSE PrintT(<<"REJECT", l, f>>)
        /\ l' = l + 1
Spec == Init /\ [][Next]_l
Accepted == TLCGet("stats").diameter - 1 = Len(Tr)
=============================================================================
