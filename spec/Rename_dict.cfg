SPECIFICATION Spec
CONSTANTS
  NNames = 2
  MaxOps = 3
INVARIANT DictIsLastRename
INVARIANT ConstantsUnchanged
INVARIANT HookOnlyLeaksSharedIds
CHECK_DEADLOCK FALSE
