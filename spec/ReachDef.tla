------------------------------ MODULE ReachDef ------------------------------
(* Reaching definitions / use-def chains of the decompiler (C20).                                             *)
(*   Nodes 1..n (1 = entry), E = set of <<source, target>>; code[k] = Seq(<<def, uses>>) with def a register   *)
(*   (0 = none) and uses a set of registers; statement j of node k has the global location Loc(k, j);          *)
(*   parameters are definitions at -1, -2, ... placed before the entry node.                                   *)
(* PathUD is the definition (paths without an intervening redefinition); the worklist algorithm (R, A, DB)     *)
(* runs as actions in ReachDefMC and must reach the same solution.                                             *)
EXTENDS Naturals, Integers, Sequences, FiniteSets, TLC

RECURSIVE Before(_, _)
Before(code, k) == IF k = 1 THEN 0 ELSE Before(code, k - 1) + Len(code[k - 1])
Loc(code, k, j) == code[k][j][3]                                 \* statements are <<def, uses, location>>; locations are distinct integers >= 0
WithLocs(c, N) == [k \in N |-> [j \in 1..Len(c[k]) |-> <<c[k][j][1], c[k][j][2], Before(c, k) + j - 1>>]]   \* number 0, 1, 2, ... in node order
Succ(E, k) == {e[2] : e \in {x \in E : x[1] = k}}
Pred(E, k) == {e[1] : e \in {x \in E : x[2] = k}}
Defs(code, k, r) == {j \in 1..Len(code[k]) : code[k][j][1] = r}
Clean(code, k, r) == Defs(code, k, r) = {}
LastDef(code, k, r) == CHOOSE j \in Defs(code, k, r) : \A i \in Defs(code, k, r) : i <= j
\* nodes at whose *entry* a definition leaving node m (or the parameter pseudo node 0) arrives without redefinition of r
RECURSIVE Spread(_, _, _, _)
Spread(E, code, r, S) == LET more == UNION {Succ(E, x) : x \in {y \in S : Clean(code, y, r)}} \ S
                         IN IF more = {} THEN S ELSE Spread(E, code, r, S \cup more)
ArrivesFrom(E, code, r, m) == Spread(E, code, r, IF m = 0 THEN {1} ELSE Succ(E, m))
\* definitions of r reaching the entry of node k:  locations of last definitions in other (or the same) nodes, parameters as negative numbers
InDefs(E, code, N, params, r, k) ==
   {Loc(code, m, LastDef(code, m, r)) : m \in {x \in N : ~Clean(code, x, r) /\ k \in ArrivesFrom(E, code, r, x)}}
   \cup {0 - p : p \in {q \in 1..Len(params) : params[q] = r /\ k \in ArrivesFrom(E, code, r, 0)}}
\* the definitions linked to the use of r by statement j of node k
UseDefs(E, code, N, params, k, j, r) ==
   LET prior == {i \in Defs(code, k, r) : i < j} IN
   IF prior # {} THEN {Loc(code, k, CHOOSE i \in prior : \A x \in prior : x <= i)}
   ELSE InDefs(E, code, N, params, r, k)
Regs(code, N, params) == UNION {UNION {{code[k][j][1]} \ {0} : j \in 1..Len(code[k])} : k \in N} \cup {params[q] : q \in 1..Len(params)}
\* the whole use-def map as a set of <<register, use location, definition location>>  (uses of never-defined registers have no entry)
PathUD(E, code, N, params) ==
   UNION {UNION {UNION {{<<r, Loc(code, k, j), d>> : d \in UseDefs(E, code, N, params, k, j, r)}
                          : r \in code[k][j][2] \cap Regs(code, N, params)} : j \in 1..Len(code[k])} : k \in N}
=============================================================================
