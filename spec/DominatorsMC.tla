---------------------------- MODULE DominatorsMC ----------------------------
(* All rooted digraphs (every node reachable from node 1, self loops allowed) on exactly NN nodes, with the    *)
(* dominator tree the definition assigns; meta-properties of the definitions are checked on every graph.      *)
EXTENDS Dominators
CONSTANT NN
VARIABLES E, idom
N == 1..NN
Init == /\ E \in SUBSET (N \X N) /\ Reach(E) = N
        /\ idom = IDomMap(E, N)
Next == UNCHANGED <<E, idom>>
Spec == Init /\ [][Next]_<<E, idom>>
RECURSIVE Climb(_, _)
Climb(n, k) == IF n = Root THEN TRUE ELSE IF k = 0 THEN FALSE ELSE Climb(idom[n], k - 1)
TreeInv      == \A n \in N \ {Root} : Climb(n, NN)
FastAgrees   == idom = IDomFast(E, N)
DomOrder     == \A a, b \in N : (Dominates(E, a, b) /\ Dominates(E, b, a)) => a = b
\* some depth-first search exists, and the reverse post-order of *any* search is a valid numbering by ValidRPO's definition:
SearchExists == BackSets(E) # {}
=============================================================================
