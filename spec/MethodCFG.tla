------------------------------ MODULE MethodCFG ------------------------------
(* Basic blocks, control-flow graph, exception information and payload links of one method (C10, C11, C12,   *)
(* C40).  A method is given at byte-offset level:                                                            *)
(*   m.ins   : Seq(<<off, len, kind, targets, pay>>)  off/len in bytes, kind in {"plain","goto","if","switch",*)
(*             "fill","return","throw","payload"}, targets = taken / case target offsets, pay = offset of    *)
(*             the payload a switch / fill-array-data instruction encodes (-1 if none)                       *)
(*   m.tries : Seq(<<start, end, handlers>>)   end = inclusive last byte, handlers = handler addresses       *)
(*   m.endoff: total size in bytes                                                                           *)
(* Observed / computed blocks: Seq([s, e, ins, ch, fa, exc, sp]) (see the operators below).                  *)
EXTENDS Naturals, Integers, Sequences, FiniteSets, TLC

Range(s) == {s[i] : i \in 1..Len(s)}
IOff(x) == x[1]
ILen(x) == x[2]
IKind(x) == x[3]
ITgt(x) == x[4]
IPay(x) == x[5]
InsOffs(m) == {IOff(m.ins[i]) : i \in 1..Len(m.ins)}
InsAt(m, off) == CHOOSE x \in Range(m.ins) : IOff(x) = off
Branching == {"goto", "if", "switch", "return", "throw"}
IsBranch(x) == IKind(x) \in Branching
NextOff(x) == IOff(x) + ILen(x)

\* where control may go after instruction x (byte offsets, possibly outside the method)
Flow(x) == CASE IKind(x) = "goto"   -> Range(ITgt(x))
             [] IKind(x) = "if"     -> {NextOff(x)} \cup Range(ITgt(x))
             [] IKind(x) = "switch" -> {NextOff(x)} \cup Range(ITgt(x))
             [] IKind(x) \in {"return", "throw"} -> {}
             [] OTHER -> {NextOff(x)}
AllTargets(m) == UNION {Flow(x) : x \in {y \in Range(m.ins) : IsBranch(y)}}
TryStarts(m) == {t[1] : t \in Range(m.tries)}
HandlerAddrs(m) == UNION {Range(t[3]) : t \in Range(m.tries)}
Covered(t, off) == t[1] <= off /\ off <= t[2]

\* the domain of C10/C11: every target, try boundary and handler address is an instruction offset (no branch into the
\* middle of an instruction), switch payloads are where the instruction says and are payloads
InDomain(m) == /\ (AllTargets(m) \cup TryStarts(m) \cup HandlerAddrs(m)) \subseteq (InsOffs(m) \cup {m.endoff})
               /\ \A x \in Range(m.ins) : (IKind(x) \in {"switch", "fill"} => IPay(x) \in InsOffs(m) /\ IKind(InsAt(m, IPay(x))) = "payload")

(* ------------------------------------------------------------------------------------------------------- *)
(* Properties of a block list B for method m                                                                 *)
(* ------------------------------------------------------------------------------------------------------- *)
BlockAt(B, a) == CHOOSE k \in 1..Len(B) : B[k].s = a
IsStart(B, a) == \E k \in 1..Len(B) : B[k].s = a
SortedOffs(m, lo, hi) == LET S == {o \in InsOffs(m) : lo <= o /\ o < hi} IN
                         [i \in 1..Cardinality(S) |-> CHOOSE o \in S : Cardinality({p \in S : p < o}) = i - 1]

\* C10
Partition(m, B) ==
  /\ (Len(m.ins) = 0) = (Len(B) = 0)
  /\ Len(B) > 0 => B[1].s = 0 /\ B[Len(B)].e = m.endoff
  /\ \A k \in 1..Len(B) : B[k].s < B[k].e /\ B[k].ins = SortedOffs(m, B[k].s, B[k].e)
  /\ \A k \in 1..(Len(B) - 1) : B[k].e = B[k + 1].s
LeaderRule(m, B) == \A a \in (AllTargets(m) \cup TryStarts(m) \cup HandlerAddrs(m)) \cap InsOffs(m) : IsStart(B, a)
OnlyLast(m, B) == \A k \in 1..Len(B) : \A j \in 1..(Len(B[k].ins) - 1) : ~IsBranch(InsAt(m, B[k].ins[j]))
\* C11
LastIns(m, b) == InsAt(m, b.ins[Len(b.ins)])
SuccExact(m, B) == \A k \in 1..Len(B) : B[k].ch = (Flow(LastIns(m, B[k])) \cap InsOffs(m))
PredInverse(B) == \A k, j \in 1..Len(B) : (B[j].s \in B[k].ch) <=> (B[k].s \in B[j].fa)
PredsAreBlocks(B) == \A k \in 1..Len(B) : \A a \in B[k].ch \cup B[k].fa : IsStart(B, a)
\* C12: exc = <<>> or <<start, end, handler block starts>>
TriesTouching(m, b) == {t \in Range(m.tries) : \E o \in Range(b.ins) : Covered(t, o)}
HandlerBlocks(m, B, t) == [i \in 1..Len(t[3]) |-> IF IsStart(B, t[3][i]) THEN t[3][i] ELSE -1]
ExcCover(m, B) == \A k \in 1..Len(B) :
   LET T == TriesTouching(m, B[k]) IN
   /\ (T = {}) => B[k].exc = <<>>
   /\ \A t \in T : B[k].exc = <<t[1], t[2], HandlerBlocks(m, B, t)>>
\* C40: offsets and payload links; sp = sequence of <<instruction offset, offset of the linked payload (-1: none / not an instruction)>>
OffsetsAgree(m, B) == \A k \in 1..Len(B) :
   /\ B[k].s \in InsOffs(m) /\ B[k].e \in InsOffs(m) \cup {m.endoff}
   /\ \A p \in Range(B[k].choff) : p[1] \in InsOffs(m) /\ p[2] \in InsOffs(m)
PayloadLinks(m, B) == \A k \in 1..Len(B) :
   Range(B[k].sp) = {<<IOff(x), (IF IPay(x) \in InsOffs(m) THEN IPay(x) ELSE -1)>> :
                         x \in {y \in Range(m.ins) : IKind(y) \in {"switch", "fill"} /\ IOff(y) \in Range(B[k].ins)}}

(* ------------------------------------------------------------------------------------------------------- *)
(* The block-construction algorithm (shaped like MethodAnalysis._create_basic_block)                         *)
(* TryEnds = TRUE also makes the instruction after a try range a leader (needed for ExcCover).               *)
(* ------------------------------------------------------------------------------------------------------- *)
Leaders(m, tryEnds) == {0} \cup ((AllTargets(m) \cup TryStarts(m) \cup HandlerAddrs(m)) \cap InsOffs(m))
                           \cup {NextOff(x) : x \in {y \in Range(m.ins) : IsBranch(y)}}
                           \cup (IF tryEnds THEN {NextOff(x) : x \in {y \in Range(m.ins) : \E t \in Range(m.tries) : Covered(t, IOff(y)) /\ ~Covered(t, NextOff(y))}} ELSE {})
Starts(m, L) == {a \in L : a \in InsOffs(m)}
BlockEnd(m, L, s) == LET later == {a \in Starts(m, L) : a > s} IN
                     IF later = {} THEN m.endoff ELSE CHOOSE a \in later : \A b \in later : a <= b
\* exception attachment as the code does it: the first try that contains the block or is contained in it
Attach(m, B, s, e) == LET ok(t) == (t[1] >= s /\ t[2] <= e - 1) \/ (e - 1 <= t[2] /\ s >= t[1])
                          idx == {i \in 1..Len(m.tries) : ok(m.tries[i])} IN
                      IF idx = {} THEN <<>>
                      ELSE LET t == m.tries[CHOOSE i \in idx : \A j \in idx : i <= j] IN <<t[1], t[2], t>>
=============================================================================
