SPECIFICATION Spec
CONSTANTS
  MaxLen = 5
  Alphabet <- Alpha
  Mode = "raw"
INVARIANT Inside
INVARIANT Tiling
INVARIANT CursorRight
PROPERTY Progress
PROPERTY Terminates
CHECK_DEADLOCK FALSE
