------------------------------- MODULE MapLoad -------------------------------
(* The map-list scheduler of the DEX parser as a transition system: the map entries (in file order `perm`) are *)
(* stably sorted by a load rank and parsed one by one; parsing an entry consults other tables.                *)
(*   Rank : type -> rank          the implementation's determine_load_order(), injected by the harness        *)
(*   Deps : set of <<t, u>>       "parsing t consults table u", observed on the running code, injected        *)
(* Property (C07): for every permutation the parse sequence is the same, and a table is consulted only after  *)
(* it has been loaded.                                                                                        *)
EXTENDS Naturals, Sequences, FiniteSets, TLC
CONSTANTS Entries, Rank, Deps
VARIABLES perm, queue, loaded, parsed, early, phase
vars == <<perm, queue, loaded, parsed, early, phase>>

N == Len(Entries)
Types == {Entries[i] : i \in 1..N}
Bijections == {f \in [1..N -> 1..N] : \A i, j \in 1..N : i # j => f[i] # f[j]}

\* stable insertion sort by rank (Python's sorted(key=...) is stable)
RECURSIVE InsertSorted(_, _)
InsertSorted(s, x) == IF s = <<>> THEN <<x>>
                      ELSE IF Rank[x] < Rank[Head(s)] THEN <<x>> \o s ELSE <<Head(s)>> \o InsertSorted(Tail(s), x)
RECURSIVE SortByRank(_)
SortByRank(s) == IF s = <<>> THEN <<>> ELSE InsertSorted(SortByRank(SubSeq(s, 1, Len(s) - 1)), s[Len(s)])

Init == /\ \E f \in Bijections : perm = [i \in 1..N |-> Entries[f[i]]]
        /\ queue = <<>> /\ loaded = {} /\ parsed = <<>> /\ early = {} /\ phase = "sort"
Sort == /\ phase = "sort" /\ queue' = SortByRank(perm) /\ phase' = "parse"
        /\ UNCHANGED <<perm, loaded, parsed, early>>
Parse == /\ phase = "parse" /\ queue # <<>>
         /\ LET t == Head(queue) IN
              /\ early' = early \cup {d \in Deps : d[1] = t /\ d[2] \in Types /\ d[2] # t /\ d[2] \notin loaded}
              /\ loaded' = loaded \cup {t} /\ parsed' = Append(parsed, t) /\ queue' = Tail(queue)
         /\ UNCHANGED <<perm, phase>>
Finish == /\ phase = "parse" /\ queue = <<>> /\ phase' = "done" /\ UNCHANGED <<perm, queue, loaded, parsed, early>>
Next == Sort \/ Parse \/ Finish
Spec == Init /\ [][Next]_vars /\ WF_vars(Next)

ConsultOnlyLoaded == early = {}
SameSequence      == phase = "done" => parsed = SortByRank(Entries)
RankInjective     == \A i, j \in 1..N : i # j => Rank[Entries[i]] # Rank[Entries[j]]
Terminates        == <>(phase = "done")
=============================================================================
