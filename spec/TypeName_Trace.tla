---------------------------- MODULE TypeName_Trace ----------------------------
(* C->S for C24: one record per rendered type: the descriptor (dims, prim, segs), which API rendered it and the  *)
(* text that came back.                                                                                         *)
EXTENDS TypeName, Json, IOUtils, TLCExt
Tr == ndJsonDeserialize(IOEnv.TRACE_FILE)
VARIABLE l
Failing(r) == LET d == [dims |-> r.dims, prim |-> r.prim, segs |-> r.segs] IN
              IF r.got \in Names(d) THEN {} ELSE {"C24." \o r.api}
Init == l = 1
Next == /\ l <= Len(Tr)
        /\ LET f == Failing(Tr[l]) IN IF f = {} THEN TRUE ELSE PrintT(<<"REJECT", l, f>>)
        /\ l' = l + 1
Spec == Init /\ [][Next]_l
Accepted == TLCGet("stats").diameter - 1 = Len(Tr)
=============================================================================
