SPECIFICATION Spec
INVARIANT OnlyRootLevel
INVARIANT LookAlikesExcluded
CHECK_DEADLOCK FALSE
