------------------------------- MODULE ChunkWalk -------------------------------
(* The chunk loops of the binary XML and resource table parsers (AXMLParser._do_next, ARSCParser.__init__), C35:      *)
(* read a header at the current position (ResHeader: retried further on while it is not acceptable), then continue     *)
(* at `start of that read + declared size`.  Positions count units of 4 bytes (a header is H = 2 units; the retry      *)
(* step is abstracted to one unit); the buffer is abstracted to, per position, whether a header read there is         *)
(* acceptable and which size it declares.                                                                              *)
(* MinSize = 2 is what ResHeader guarantees (Advances); MinSize = 0 is a reader that accepts any declared size.        *)
EXTENDS Naturals, TLC
CONSTANTS L, MinSize
VARIABLES ok, size, filesize, start, cur, pc, steps
vars == <<ok, size, filesize, start, cur, pc, steps>>
H == 2
Sizes == {s \in {0, 2, 3} : s >= MinSize}
Init == /\ ok \in [0..L -> BOOLEAN] /\ size \in [0..L -> Sizes] /\ filesize \in {L, L + 1}
        /\ start = 0 /\ cur = 0 /\ pc = "top" /\ steps = 0
Top == /\ pc = "top" /\ steps' = steps + 1
       /\ IF start = filesize THEN pc' = "end" /\ UNCHANGED cur
          ELSE IF L < start + H THEN pc' = "error" /\ UNCHANGED cur
          ELSE pc' = "header" /\ cur' = start
       /\ UNCHANGED <<ok, size, filesize, start>>
Header == /\ pc = "header" /\ steps' = steps + 1
          /\ IF L - cur < H THEN pc' = "error" /\ UNCHANGED <<start, cur>>
             ELSE IF ok[cur] THEN pc' = "top" /\ start' = start + size[cur] /\ UNCHANGED cur     \* seek(h.end)
             ELSE IF cur = 0 THEN pc' = "error" /\ UNCHANGED <<start, cur>>
             ELSE pc' = "header" /\ cur' = cur + 1 /\ UNCHANGED start
          /\ UNCHANGED <<ok, size, filesize>>
Next == Top \/ Header
Spec == Init /\ [][Next]_vars /\ WF_vars(Next)
Terminates == <>(pc \in {"end", "error"})
Bounded == steps <= (L + 2) * (L + 2)
Limit == steps <= (L + 2) * (L + 2) + 1
=============================================================================
