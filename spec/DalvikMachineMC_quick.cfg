SPECIFICATION Spec
CONSTANT Wide = FALSE
INVARIANT TypeOK
PROPERTY Halts
CHECK_DEADLOCK FALSE
