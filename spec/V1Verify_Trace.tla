----------------------------- MODULE V1Verify_Trace -----------------------------
(* C->S for C32: one record per generated signature block: the block in the abstract terms of V1Verify (the harness   *)
(* realises keys, digests and signatures with real cryptography and cross-checks that realisation), and what          *)
(* get_certificate_der / get_certificates_v1 reported: index into the bag (0 = none, 99 = something not in the bag).   *)
EXTENDS Naturals, Sequences, FiniteSets, TLC, Json, IOUtils, TLCExt
Tr == ndJsonDeserialize(IOEnv.TRACE_FILE)
VARIABLE l
V == INSTANCE V1Verify WITH Blocks <- {}, Variant <- "ok", b <- 0, pc <- "", k <- 0, cert <- 0, result <- 0
Check(n, ok) == IF ok THEN {} ELSE {n}
Failing(r) == Check("C32.reported-certificate-verifies-the-signature-file", V!Sound(r.b, r.reported))
              \cup Check("C32.v1-certificate-list-is-the-reported-certificate", r.listed = r.reported)
Init == l = 1
Next == /\ l <= Len(Tr)
        /\ LET f == Failing(Tr[l]) IN IF f = {} THEN TRUE ELSE PrintT(<<"REJECT", l, f>>)
        /\ l' = l + 1
Spec == Init /\ [][Next]_l
Accepted == TLCGet("stats").diameter - 1 = Len(Tr)
=============================================================================
