----------------------------- MODULE DexHeaderMC -----------------------------
EXTENDS DexHeader
CONSTANTS MaxLen, Bytes
VARIABLES mode, buf, c, exp
SeqsUpTo(S, n) == UNION {[1..k -> S] : k \in 0..n}
Init == \/ /\ mode = "adler" /\ buf \in SeqsUpTo(Bytes, MaxLen) /\ c = <<>> /\ exp = ""
        \/ /\ mode = "class" /\ buf = <<>>
           /\ c \in [magic : MagicClass, endian : EndianClass, hsize : HSizeClass, sum : SumClass, len : LenClass]
           /\ exp = Verdict(c.magic, c.endian, c.hsize, c.sum, c.len)
Next == UNCHANGED <<mode, buf, c, exp>>
Spec == Init /\ [][Next]_<<mode, buf, c, exp>>
Lemma == mode = "adler" => SingleByteLemma(buf)
OnlyCleanAccepted == (mode = "class" /\ exp = "accept") =>
                        (c.len = "full" /\ c.endian = "little" /\ c.sum = "ok" /\ c.hsize = "0x70" /\ c.magic \in {"dex", "dey", "version-digits"})
=============================================================================
