---------------------------- MODULE EncodedValueMC ----------------------------
(* every integer-like value type x every legal width x byte patterns (low byte, fill, top byte over sign       *)
(* boundaries); each state carries the value the specification assigns.                                       *)
EXTENDS EncodedValue
VARIABLES t, bs, exp
E == {0, 1, 127, 128, 255}
Pattern(w) == IF w = 1 THEN {<<a>> : a \in E}
              ELSE {[i \in 1..w |-> IF i = 1 THEN lo ELSE IF i = w THEN hi ELSE mid] : lo \in E, mid \in {0, 255, 128}, hi \in E}
Init == /\ t \in Signed \cup {"char"}
        /\ \E w \in 1..MaxWidth(t) : bs \in Pattern(w)
        /\ exp = [v |-> Value(t, bs), neg |-> Neg(Value(t, bs))]
Next == UNCHANGED <<t, bs, exp>>
Spec == Init /\ [][Next]_<<t, bs, exp>>
RangeOK  == WidthOK(t, bs) /\ InRange(t, exp.v)
CharPos  == t = "char" => ~exp.neg
SignRule == t \in Signed => (exp.neg <=> bs[Len(bs)] >= 128)
FullWidthIsReinterpretation == (t \in Signed /\ Len(bs) = 8) => exp.v = UInt(bs)
=============================================================================
