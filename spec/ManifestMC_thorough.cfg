SPECIFICATION Spec
CONSTANT MaxActs = 2
INVARIANT CompletionIsQualified
INVARIANT TargetPositive
CHECK_DEADLOCK FALSE
