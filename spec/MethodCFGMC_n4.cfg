SPECIFICATION Spec
CONSTANTS
  N = 4
  TryMode = "none"
  TryEnds = TRUE
INVARIANT ModelInDomain
INVARIANT C10
INVARIANT C11
INVARIANT C12
INVARIANT C40
PROPERTY Terminates
CHECK_DEADLOCK FALSE
