---------------------------- MODULE LinearSweepMC ----------------------------
(* Bounded instances: (a) every code array up to MaxLen units over a representative alphabet of first units / *)
(* size words; (b) arrays assembled from valid instruction descriptors (Assemble), where the sweep must     *)
(* return exactly the assembled list.                                                                        *)
EXTENDS LinearSweep
CONSTANTS MaxLen, Alphabet, Mode
VARIABLE want                 \* mode "asm": the assembled instruction list <<off, len>>; mode "raw": <<>>

\* nop, move(12x), move/from16(22x, also size word 2), const(31i), const-wide(51l), const-string(21c), unused 3e,
\* const-method-type with AA = 0 / AA # 0, const-method-handle, payload idents, nop with AA # 0 (ambiguous), return-void AA # 0
Alpha == {0, 1, 2, 20, 24, 26, 62, 255, 511, 254, 256, 512, 768, 1024, 270}

\* valid instruction descriptors for Assemble: <<first unit, total units>>; payloads built with their size words
Insn == { <<0>>, <<1>>, <<2, 7>>, <<26, 0>>, <<20, 1, 2>>, <<24, 256, 512, 768, 1>>, <<255, 9>>, <<1023, 9>>, <<510, 0>>,
          <<256, 0, 5, 0>>, <<256, 1, 5, 0, 2, 0>>, <<512, 0>>, <<512, 1, 7, 0, 3, 0>>,
          <<768, 1, 0, 0>>, <<768, 1, 3, 0, 258, 3>>, <<768, 2, 1, 0, 9>>, <<768, 4, 1, 0, 1, 2>> }
RECURSIVE Flat(_)
Flat(l) == IF l = <<>> THEN <<>> ELSE Head(l) \o Flat(Tail(l))
RECURSIVE Offs(_, _)
Offs(l, at) == IF l = <<>> THEN <<>> ELSE << <<at, Len(Head(l))>> >> \o Offs(Tail(l), at + Len(Head(l)))
SeqsUpTo(S, n) == UNION {[1..k -> S] : k \in 0..n}

Init == /\ idx = 0 /\ out = <<>> /\ status = "run"
        /\ IF Mode = "raw" THEN code \in SeqsUpTo(Alphabet, MaxLen) /\ want = <<>>
           ELSE \E l \in SeqsUpTo(Insn, MaxLen) : code = Flat(l) /\ want = Offs(l, 0)
Next == Step /\ UNCHANGED want
Spec == Init /\ [][Next]_<<vars, want>> /\ WF_vars(Step)

AssembleRecovered == (Mode = "asm" /\ status # "run") => (status = "done" /\ out = want)
AsmNeverInvalid   == Mode = "asm" => status # "invalid"
=============================================================================
