--------------------------- MODULE Determinism_Trace ---------------------------
(* C->S for C22: one record per method (or class): digests of the source text produced by independent           *)
(* decompilations (different identity-hash policies, hash seeds, fresh processes, method orders).                *)
(* Deterministic output = all digests of a record are equal.                                                    *)
EXTENDS Naturals, Sequences, FiniteSets, TLC, Json, IOUtils, TLCExt
Tr == ndJsonDeserialize(IOEnv.TRACE_FILE)
VARIABLE l
Failing(r) == IF \A i \in 1..Len(r.runs) : r.runs[i] = r.runs[1] THEN {} ELSE {"C22.identical-source-text"}
Init == l = 1
Next == /\ l <= Len(Tr)
        /\ LET f == Failing(Tr[l]) IN IF f = {} THEN TRUE ELSE PrintT(<<"REJECT", l, f>>)
        /\ l' = l + 1
Spec == Init /\ [][Next]_l
Accepted == TLCGet("stats").diameter - 1 = Len(Tr)
=============================================================================
