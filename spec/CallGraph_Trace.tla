--------------------------- MODULE CallGraph_Trace ---------------------------
(* C->S for extension X03: one record per get_call_graph query: the call relation (from the cross-references), the  *)
(* methods the filters select, no_isolated, and the nodes / edges of the returned graph (methods as numbers).        *)
EXTENDS Naturals, Sequences, FiniteSets, TLC, Json, IOUtils, TLCExt
Tr == ndJsonDeserialize(IOEnv.TRACE_FILE)
VARIABLE l
G == INSTANCE CallGraph WITH Internal <- {}, External <- {}, calls <- {}, selected <- {}, noIso <- FALSE
Range(s) == {s[i] : i \in 1..Len(s)}
Pairs(s) == {<<s[i][1], s[i][2]>> : i \in 1..Len(s)}
Check(name, ok) == IF ok THEN {} ELSE {name}
Failing(r) == LET c == Pairs(r.calls) s == Range(r.sel) IN
   Check("X03.nodes", Range(r.nodes) = G!Nodes(c, s, r.ni))
   \cup Check("X03.edges", Pairs(r.edges) = G!Edges(c, s, r.ni))
   \cup Check("X03.external-attribute", Range(r.extnodes) = Range(r.nodes) \cap Range(r.external))
   \cup Check("X03.edges-once", Len(r.edges) = Cardinality(Pairs(r.edges)) /\ Len(r.nodes) = Cardinality(Range(r.nodes)))
Init == l = 1
Next == /\ l <= Len(Tr)
        /\ LET f == Failing(Tr[l]) IN IF f = {} THEN TRUE ELSE PrintT(<<"REJECT", l, f>>)
        /\ l' = l + 1
Spec == Init /\ [][Next]_l
Accepted == TLCGet("stats").diameter - 1 = Len(Tr)
=============================================================================
