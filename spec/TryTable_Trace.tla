---------------------------- MODULE TryTable_Trace ----------------------------
(* C->S for C08: one record per generated method: the encoded try/handler model and what the parser reported  *)
(* (determineException entries, get_tries items).                                                             *)
EXTENDS TryTable, Json, IOUtils, TLCExt
Tr == ndJsonDeserialize(IOEnv.TRACE_FILE)
VARIABLE l
Count(s, e) == Cardinality({i \in 1..Len(s) : s[i] = e})
SameBag(a, b) == Len(a) = Len(b) /\ \A i \in 1..Len(a) : Count(a, a[i]) = Count(b, a[i])
Tries(r) == [i \in 1..Len(r.tries) |-> [start |-> r.tries[i][1], count |-> r.tries[i][2], h |-> r.tries[i][3]]]
Failing(r) ==
  LET ts == Tries(r) offs == HandlerOffs(r.hs) IN
  (IF WellFormed(ts, r.hs) THEN {} ELSE {"generator-model-wellformed"})
  \cup (IF SameBag(Report(ts, r.hs), r.rep) THEN {} ELSE {"exception-table"})
  \cup (IF r.items = [i \in 1..Len(ts) |-> <<ts[i].start, ts[i].count, offs[ts[i].h]>>] THEN {} ELSE {"try-items"})
  \cup (IF r.nhandlers = Len(r.hs) THEN {} ELSE {"handler-count"})
Init == l = 1
Next == /\ l <= Len(Tr)
        /\ LET f == Failing(Tr[l]) IN IF f = {} THEN TRUE ELSE PrintT(<<"REJECT", l, f>>)
        /\ l' = l + 1
Spec == Init /\ [][Next]_l
Accepted == TLCGet("stats").diameter - 1 = Len(Tr)
=============================================================================
