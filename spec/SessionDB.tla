------------------------------ MODULE SessionDB ------------------------------
(* Several processes create an analysis session on one database (C36).  Session.__init__ reads the number of     *)
(* rows of table 'session' (Count) and then inserts a row whose primary key is that number (Insert); the two     *)
(* steps of different processes interleave freely.  With Retry = TRUE a failed insert re-reads the count (the     *)
(* repaired implementation); with Retry = FALSE the IntegrityError ends the constructor (the original one).      *)
EXTENDS Naturals, Integers, FiniteSets, Sequences, TLC
CONSTANTS Proc, Retry
VARIABLES pc, seen, rows, out, sched
vars == <<pc, seen, rows, out, sched>>
Init == /\ pc = [p \in Proc |-> "count"] /\ seen = [p \in Proc |-> 0] /\ rows = {} /\ out = [p \in Proc |-> -1] /\ sched = <<>>
Count(p) == /\ pc[p] = "count"
            /\ seen' = [seen EXCEPT ![p] = Cardinality(rows)]
            /\ pc' = [pc EXCEPT ![p] = "insert"]
            /\ sched' = Append(sched, <<p, "count">>)
            /\ UNCHANGED <<rows, out>>
Insert(p) == /\ pc[p] = "insert"
             /\ sched' = Append(sched, <<p, "insert">>)
             /\ IF seen[p] \in rows
                THEN \* primary key collision: IntegrityError
                     /\ UNCHANGED <<rows, seen>>
                     /\ IF Retry THEN pc' = [pc EXCEPT ![p] = "count"] /\ UNCHANGED out
                        ELSE pc' = [pc EXCEPT ![p] = "failed"] /\ out' = [out EXCEPT ![p] = -2]
                ELSE /\ rows' = rows \cup {seen[p]}
                     /\ out' = [out EXCEPT ![p] = seen[p]]
                     /\ pc' = [pc EXCEPT ![p] = "done"]
                     /\ UNCHANGED seen
Next == \E p \in Proc : Count(p) \/ Insert(p)
Spec == Init /\ [][Next]_vars /\ \A p \in Proc : WF_vars(Count(p) \/ Insert(p))

AllCreated  == \A p \in Proc : pc[p] # "failed"
DistinctIds == \A p, q \in Proc : (p # q /\ out[p] >= 0 /\ out[q] >= 0) => out[p] # out[q]
IdsAreRows  == \A p \in Proc : out[p] >= 0 => out[p] \in rows
EveryoneFinishes == <>(\A p \in Proc : pc[p] = "done")
=============================================================================
