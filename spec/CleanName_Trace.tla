--------------------------- MODULE CleanName_Trace ---------------------------
(* C->S for C38: one record per call of clean_file_name: the run-length encoded result file name, whether the    *)
(* result stayed in the input's directory, whether uniqueness was requested and whether the result names an      *)
(* existing file.                                                                                               *)
EXTENDS CleanName, Json, IOUtils, TLCExt
Tr == ndJsonDeserialize(IOEnv.TRACE_FILE)
VARIABLE l
Check(n, ok) == IF ok THEN {} ELSE {n}
Failing(r) == LET runs == [i \in 1..Len(r.out) |-> <<r.out[i][1], r.out[i][2]>>] IN
   Check("C38.no-reserved-or-control-characters", NoBadChars(runs))
   \cup Check("C38.does-not-end-with-space-or-dot", EndOK(runs))
   \cup Check("C38.at-most-230-characters", LenOK(runs))
   \cup Check("C38.stays-in-the-directory", r.samedir)
   \cup Check("C38.unique-name-does-not-exist", r.unique => ~r.exists)
   \cup Check("C38.returns-a-name", ~r.raised)
Init == l = 1
Next == /\ l <= Len(Tr)
        /\ LET f == Failing(Tr[l]) IN IF f = {} THEN TRUE ELSE PrintT(<<"REJECT", l, f>>)
        /\ l' = l + 1
Spec == Init /\ [][Next]_l
Accepted == TLCGet("stats").diameter - 1 = Len(Tr)
=============================================================================
