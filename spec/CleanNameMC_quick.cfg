SPECIFICATION Spec
CONSTANT MaxRuns = 3
INVARIANT Satisfiable
INVARIANT KeepsCleanNames
CHECK_DEADLOCK FALSE
