SPECIFICATION Spec
CONSTANT NN = 4
INVARIANT TreeInv
INVARIANT FastAgrees
INVARIANT DomOrder
INVARIANT SearchExists
CHECK_DEADLOCK FALSE
