SPECIFICATION Spec
CONSTANT Wide = TRUE
INVARIANT TypeOK
PROPERTY Halts
CHECK_DEADLOCK FALSE
