SPECIFICATION Spec
CONSTANTS
  N = 5
  SortByNum = FALSE
CHECK_DEADLOCK FALSE
