------------------------------ MODULE Xref_Trace ------------------------------
(* C->S for C13-C16: one record per (program, DEX split, add order): the program (defined methods / fields,   *)
(* xref-relevant instructions with their byte offsets, written by the harness' own assembler) and everything  *)
(* the real Analysis reported after add()* ; create_xref().  Expected sets are recomputed here by definition. *)
(*   ins = <<op, cls, name, off, ecls>>   op in inv/rd/wr/str/new/cls; ecls = the class with array brackets    *)
(*                                        removed ("" when the type has no class, e.g. [I)                    *)
(* Two verdicts are computed: Failing (the properties as stated) and FailingDev (the same clauses under the   *)
(* two named deviations of the implementation, used only to recognise recorded known findings):               *)
(*   D1  an invoke on an array class is re-targeted to the element class, or dropped for primitive arrays     *)
(*   D2  a field access is recorded on a FieldAnalysis owned by the *accessing* class, and only when the field *)
(*       is defined in the accessing method's own DEX file                                                    *)
EXTENDS Naturals, Integers, Sequences, FiniteSets, TLC, Json, IOUtils, TLCExt
Tr == ndJsonDeserialize(IOEnv.TRACE_FILE)
VARIABLE l
Range(s) == {s[i] : i \in 1..Len(s)}
Code(r) == Range(r.code)                      \* elements <<method key, Seq(ins)>>
DefM(r) == Range(r.defs_m)
DefF(r) == Range(r.defs_f)
InsOf(c, ops) == {i \in Range(c[2]) : i[1] \in ops}
Calls(r)  == UNION {{<<c[1], <<i[2], i[3]>>, i[4]>> : i \in InsOf(c, {"inv"})} : c \in Code(r)}
Reads(r)  == UNION {{<<<<i[2], i[3]>>, c[1], i[4]>> : i \in {j \in InsOf(c, {"rd"}) : <<j[2], j[3]>> \in DefF(r)}} : c \in Code(r)}
Writes(r) == UNION {{<<<<i[2], i[3]>>, c[1], i[4]>> : i \in {j \in InsOf(c, {"wr"}) : <<j[2], j[3]>> \in DefF(r)}} : c \in Code(r)}
Strs(r)   == UNION {{<<i[3], c[1], i[4]>> : i \in InsOf(c, {"str"})} : c \in Code(r)}
ClsRefs(r, op) == UNION {{<<i[5], c[1], i[4]>> : i \in {j \in InsOf(c, {op}) : j[5] # "" /\ j[5] # c[1][1]}} : c \in Code(r)}
StubsOf(r, calls) == {e[2] : e \in {c \in calls : c[2] \notin DefM(r)}}
\* deviations
DexOf(r, c) == LET S == {p \in Range(r.dexof) : p[1] = c} IN IF S = {} THEN -1 ELSE (CHOOSE p \in S : TRUE)[2]
CallsD1(r) == UNION {{<<c[1], <<i[5], i[3]>>, i[4]>> : i \in {j \in InsOf(c, {"inv"}) : j[5] # ""}} : c \in Code(r)}
SameDex(r, e) == DexOf(r, e[1][1]) = DexOf(r, e[2][1])            \* field's class and accessing method's class in one DEX
ReadsD2(r)  == {e \in Reads(r) : SameDex(r, e)}
WritesD2(r) == {e \in Writes(r) : SameDex(r, e)}
OwnerOnly(S) == {e \in S : e[1][1] = e[2][1]}                      \* accesses from the field's own class
ForeignPairs(r) == {<<e[2][1], e[1]>> : e \in {x \in ReadsD2(r) \cup WritesD2(r) : x[1][1] # x[2][1]}}
S(x) == Range(x)
Check(name, ok) == IF ok THEN {} ELSE {name}
Clauses(r, calls, reads, writes, ownreads, ownwrites, nfields) ==
  LET o == r.obs IN
  Check("C13.callees-exact", S(o.calls) = calls)
  \cup Check("C13.callers-mirror", S(o.callers) = calls)
  \cup Check("C13.call-graph-edges", S(o.edges) = {<<e[1], e[2]>> : e \in calls})
  \cup Check("C13.external-stubs", S(o.stubs) = StubsOf(r, calls) /\ o.stub_shared)
  \cup Check("C14.field-reads", S(o.reads) = reads /\ S(o.reads_owner) = ownreads)
  \cup Check("C14.field-writes", S(o.writes) = writes /\ S(o.writes_owner) = ownwrites)
  \cup Check("C14.method-lists-field", S(o.mreads) = reads /\ S(o.mwrites) = writes)
  \cup Check("C14.one-analysis-per-field", S(o.fields) = DefF(r) /\ Len(o.fields) = nfields)
  \cup Check("C15.strings", S(o.strs) = Strs(r))
  \cup Check("C15.new-instance", S(o.news) = ClsRefs(r, "new") /\ S(o.mnews) = ClsRefs(r, "new"))
  \cup Check("C15.const-class", S(o.consts) = ClsRefs(r, "cls") /\ S(o.mconsts) = ClsRefs(r, "cls"))
  \cup Check("C40.xref-offsets", o.offsets_ok)
Failing(r)    == Clauses(r, Calls(r), Reads(r), Writes(r), Reads(r), Writes(r), Cardinality(DefF(r)))
                 \cup Check("C16.same-as-single-dex", r.same)
FailingDev(r) == Clauses(r, CallsD1(r), ReadsD2(r), WritesD2(r), OwnerOnly(ReadsD2(r)), OwnerOnly(WritesD2(r)),
                         Cardinality(DefF(r)) + Cardinality(ForeignPairs(r)))
                 \cup Check("C16.same-as-single-dex", r.same \/ (ReadsD2(r) \cup WritesD2(r)) # (Reads(r) \cup Writes(r)))
Init == l = 1
Next == /\ l <= Len(Tr)
        /\ LET f == Failing(Tr[l]) IN IF f = {} THEN TRUE ELSE PrintT(<<"REJECT", l, f, FailingDev(Tr[l])>>)
        /\ l' = l + 1
Spec == Init /\ [][Next]_l
Accepted == TLCGet("stats").diameter - 1 = Len(Tr)
=============================================================================
