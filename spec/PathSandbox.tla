----------------------------- MODULE PathSandbox -----------------------------
(* Where the decompile export writes (C37).  A relative path is a sequence of segments; POSIX resolution keeps a  *)
(* stack: ".." pops, "." and "" do nothing, anything else pushes; popping the empty stack means leaving the        *)
(* output directory.  The exporter derives, from a class descriptor and a method's short name, a class directory,  *)
(* a .java file and per-method files; Mode selects the naming functions:                                           *)
(*   "split"  valid_class_name = split at "/" and join (no check of the parts); the method file name is joined      *)
(*            unchanged and only its last component is cleaned                                                    *)
(*   "guard"  parts "", ".", ".." are replaced and separators inside the method name are replaced                  *)
EXTENDS Naturals, Sequences, FiniteSets, TLC
CONSTANTS Mode, Parts, MaxSegs
RECURSIVE Walk(_, _)
\* depth after resolving the segments starting from depth d; -1 as soon as the path leaves the root
Walk(segs, d) == IF d < 0 THEN d
                 ELSE IF segs = <<>> THEN d
                 ELSE LET s == Head(segs) IN
                      IF s = ".." THEN (IF d = 0 THEN 0 - 1 ELSE Walk(Tail(segs), d - 1))
                      ELSE IF s = "." \/ s = "" THEN Walk(Tail(segs), d)
                      ELSE Walk(Tail(segs), d + 1)
Inside(segs) == Walk(segs, 0) >= 0
Guard(s) == IF s \in {"", ".", ".."} THEN "_" ELSE s
ClassDir(cls) == IF Mode = "guard" THEN [i \in 1..Len(cls) |-> Guard(cls[i])] ELSE cls
\* the method's file: the class directory followed by the '/'-separated pieces of the short name
MethodFile(cls, meth) == IF Mode = "guard" THEN ClassDir(cls) \o <<"m">> ELSE ClassDir(cls) \o meth
\* <class path>.java : the last class segment gets the suffix (it stops being "." / ".." / "")
JavaFile(cls) == LET c == ClassDir(cls) IN IF c = <<>> THEN <<"x.java">> ELSE SubSeq(c, 1, Len(c) - 1) \o <<"f.java">>
Created(cls, meth) == {ClassDir(cls), MethodFile(cls, meth), JavaFile(cls)}

VARIABLES cls, meth
Init == /\ \E k \in 1..MaxSegs : cls \in [1..k -> Parts]
        /\ \E k \in 1..2 : meth \in [1..k -> Parts]
Next == UNCHANGED <<cls, meth>>
Spec == Init /\ [][Next]_<<cls, meth>>
StaysInside == \A p \in Created(cls, meth) : Inside(p)
=============================================================================
