--------------------------- MODULE ImpliedPerms_Trace ---------------------------
(* C->S for extension X04: one record per parsed APK: the android.permission.* names asked for (without the prefix),   *)
(* targetSdkVersion / minSdkVersion as written (0: absent) and the names get_uses_implied_permission_list reports.      *)
EXTENDS Naturals, Sequences, FiniteSets, TLC, Json, IOUtils, TLCExt
Tr == ndJsonDeserialize(IOEnv.TRACE_FILE)
VARIABLE l
P == INSTANCE ImpliedPerms WITH Targets <- {}, Mins <- {}, asked <- {}, target <- 0, minsdk <- 0, pc <- "", implicit <- {}, todo <- {}
Range(s) == {s[i] : i \in 1..Len(s)}
Check(name, ok) == IF ok THEN {} ELSE {name}
Failing(r) == LET want == P!Implied(Range(r.asked), P!Effective(r.target, r.minsdk)) IN
   Check("X04.implied-set", Range(r.implied) = want)
   \cup Check("X04.each-once", Len(r.implied) = Cardinality(Range(r.implied)))
Init == l = 1
Next == /\ l <= Len(Tr)
        /\ LET f == Failing(Tr[l]) IN IF f = {} THEN TRUE ELSE PrintT(<<"REJECT", l, f, P!Implied(Range(Tr[l].asked), P!Effective(Tr[l].target, Tr[l].minsdk))>>)
        /\ l' = l + 1
Spec == Init /\ [][Next]_l
Accepted == TLCGet("stats").diameter - 1 = Len(Tr)
=============================================================================
