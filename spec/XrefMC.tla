------------------------------- MODULE XrefMC -------------------------------
(* Bounded instance: A.m carries up to LenA instructions, B.n up to LenB, over the whole instruction alphabet; *)
(* the classes are placed in one DEX or in two DEX files in either add order.                                 *)
EXTENDS Xref
CONSTANTS LenA, LenB
I(op, c, n) == [op |-> op, cls |-> c, name |-> n]
Alphabet == { I("inv", "A", "m"), I("inv", "B", "n"), I("inv", "A", "zz"), I("inv", "X", "x"), I("inv", "[A", "clone"), I("inv", "[I", "clone"),
              I("rd", "A", "f"), I("wr", "A", "f"), I("rd", "B", "g"), I("wr", "B", "g"), I("rd", "X", "h"),
              I("str", "", "s1"), I("str", "", "s2"),
              I("new", "B", ""), I("new", "A", ""), I("new", "X", ""), I("cls", "A", ""), I("cls", "B", ""), I("cls", "[B", ""), I("cls", "[I", "") }
SeqsUpTo(S, n) == UNION {[1..k -> S] : k \in 0..n}
Splits == { << {"A", "B"} >>, << {"A"}, {"B"} >>, << {"B"}, {"A"} >> }
Init == /\ \E a \in SeqsUpTo(Alphabet, LenA), b \in SeqsUpTo(Alphabet, LenB) : prog = (<<"A", "m">> :> a) @@ (<<"B", "n">> :> b)
        /\ dexes \in Splits /\ pending = dexes /\ added = {} /\ mhash = {} /\ fhash = {} /\ todo = <<>> /\ st = Empty /\ phase = "add"
Spec == Init /\ [][Next]_vars /\ WF_vars(Next)
=============================================================================
