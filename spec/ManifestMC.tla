------------------------------ MODULE ManifestMC ------------------------------
(* small manifests: every combination of name shapes for two activities, permission lists with duplicates and       *)
(* maxSdkVersion, present / absent SDK attributes                                                                   *)
EXTENDS Manifest
CONSTANT MaxActs
VARIABLES m
NameShapes == { [lead |-> TRUE, segs |-> <<"Main">>], [lead |-> FALSE, segs |-> <<"Main">>], [lead |-> FALSE, segs |-> <<"com", "x", "Main">>],
                [lead |-> TRUE, segs |-> <<"ui", "Main">>], [lead |-> FALSE, segs |-> <<"org", "other", "B">>] }
Flags == {<<TRUE, TRUE, TRUE>>, <<TRUE, FALSE, FALSE>>, <<FALSE, TRUE, TRUE>>, <<TRUE, TRUE, FALSE>>}
Comp == {[name |-> n, enabled |-> f[1], main |-> f[2], launcher |-> f[3]] : n \in NameShapes, f \in Flags}
Perm == [name : {"android.permission.CAMERA", "NODOT", "com.x.P"}, maxsdk : {0, 18}]
SeqsUpTo(S, n) == UNION {[1..k -> S] : k \in 0..n}
Extras == { [features |-> <<>>, libraries |-> <<>>], [features |-> <<"android.hardware.camera", "nodotfeature">>, libraries |-> <<"org.apache.http.legacy", "nodotlib">>] }
Init == \E x \in Extras :
        m \in [pkg : {<<"com", "x">>, <<"single">>}, vcode : {42}, vname : {"1.0"},
               perms : SeqsUpTo(Perm, 2), acts : SeqsUpTo(Comp, MaxActs),
               svcs : SeqsUpTo({c \in Comp : c.enabled /\ ~c.main /\ ~c.launcher /\ c.name.segs[Len(c.name.segs)] = "Main" /\ Len(c.name.segs) <= 1}, 1),
               rcvs : {<<>>}, prvs : {<<>>}, minsdk : {0, 21}, target : {0, 33}, features : {x.features}, libraries : {x.libraries}]
Next == UNCHANGED m
Spec == Init /\ [][Next]_m
CompletionIsQualified == \A i \in 1..Len(m.acts) : Names(m.pkg, m.acts)[i] # Written(m.acts[i].name) => (m.acts[i].name.lead \/ Len(m.acts[i].name.segs) = 1)
TargetPositive == EffectiveTarget(m) >= 1
=============================================================================
