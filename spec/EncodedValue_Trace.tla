-------------------------- MODULE EncodedValue_Trace --------------------------
(* C->S for C04: one record per leaf value of a generated DEX file (static-field initialiser, annotation        *)
(* element, array element, nested annotation element): declared type and bytes, and what was reported:          *)
(* by the parser (got) and by the decompiler's field initialiser (src; absent = [-1]).                          *)
EXTENDS EncodedValue, Json, IOUtils, TLCExt
Tr == ndJsonDeserialize(IOEnv.TRACE_FILE)
VARIABLE l
Failing(r) ==
  IF r.t \in Signed \cup {"char"} THEN
       LET v == Value(r.t, r.b) IN
       (IF r.got = v /\ r.gotneg = Neg(v) /\ r.gotfits THEN {} ELSE {"parser-value-" \o r.t})
       \cup (IF r.src = <<-1>> \/ (r.src = v /\ r.srcneg = Neg(v)) THEN {} ELSE {"decompiler-initialiser-" \o r.t})
  ELSE IF r.t \in Indexed THEN (IF r.gotidx = Index(r.b) THEN {} ELSE {"referenced-item-" \o r.t})
  ELSE IF r.t = "boolean" THEN (IF r.gotbool = (r.arg # 0) /\ r.isbool THEN {} ELSE {"boolean"})
  ELSE IF r.t = "null" THEN (IF r.isnull THEN {} ELSE {"null"})
  ELSE IF r.t = "shape" THEN (IF r.want = r.have THEN {} ELSE {"array-or-annotation-shape"})
  ELSE {"unknown-leaf-kind"}
Init == l = 1
Next == /\ l <= Len(Tr)
        /\ LET f == Failing(Tr[l]) IN IF f = {} THEN TRUE ELSE PrintT(<<"REJECT", l, f>>)
        /\ l' = l + 1
Spec == Init /\ [][Next]_l
Accepted == TLCGet("stats").diameter - 1 = Len(Tr)
=============================================================================
