-------------------------------- MODULE Locale --------------------------------
(* Language / region codes of a resource configuration (C30), as ResTable_config packs them: two bytes each;    *)
(* a two-character code is stored as its two ASCII bytes; a three-character code is packed into 15 bits with    *)
(* bit 7 of the first byte set: three 5-bit values relative to 'a' (languages) or '0' (regions).               *)
(* Codes are sequences of character codes.                                                                      *)
EXTENDS Naturals, Sequences, FiniteSets, TLC
BaseLang == 97      \* 'a'
BaseRegion == 48    \* '0'
Pack(code, base) == IF Len(code) = 0 THEN <<0, 0>>
                    ELSE IF Len(code) = 2 THEN <<code[1], code[2]>>
                    ELSE LET f == code[1] - base s == code[2] - base t == code[3] - base IN
                         <<128 + (t * 4) + (s \div 8), ((s * 32) + f) % 256>>
Unpack(b, base) == IF b[1] >= 128
                   THEN <<base + (b[2] % 32), base + ((b[2] \div 32) + ((b[1] % 4) * 8)), base + ((b[1] % 128) \div 4)>>
                   ELSE (IF b[1] # 0 THEN <<b[1]>> ELSE <<>>) \o (IF b[2] # 0 THEN <<b[2]>> ELSE <<>>)
PackLocale(lang, region) == Pack(lang, BaseLang) \o Pack(region, BaseRegion)
\* the reported string: language, then "-r" and the region when there is one; NUL NUL for the default locale
Text(lang, region) == IF lang = <<>> /\ region = <<>> THEN <<0, 0>>
                      ELSE lang \o (IF region = <<>> THEN <<>> ELSE <<45, 114>> \o region)
Lower == 97..122
Upper == 65..90
Digit == 48..57
Lang2 == {<<a, b>> : a \in Lower, b \in Lower}
Lang3 == {<<a, b, c>> : a \in Lower, b \in Lower, c \in Lower}
Region2 == {<<a, b>> : a \in Upper \cup Digit, b \in Upper \cup Digit}
Region3 == {<<a, b, c>> : a \in Digit, b \in Digit, c \in Digit}

VARIABLES kind, code, packed
Init == /\ kind \in {"lang", "region"}
        /\ code \in (IF kind = "lang" THEN Lang2 \cup Lang3 \cup {<<>>} ELSE Region2 \cup Region3 \cup {<<>>})
        /\ packed = Pack(code, IF kind = "lang" THEN BaseLang ELSE BaseRegion)
Next == UNCHANGED <<kind, code, packed>>
Spec == Init /\ [][Next]_<<kind, code, packed>>
RoundTrip == Unpack(packed, IF kind = "lang" THEN BaseLang ELSE BaseRegion) = code
Bytes == packed[1] \in 0..255 /\ packed[2] \in 0..255
ThreeLetterFlag == (Len(code) = 3) <=> (packed[1] >= 128)
=============================================================================
