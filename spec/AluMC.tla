-------------------------------- MODULE AluMC --------------------------------
(* The byte arithmetic of Alu against TLC's integers on values where those suffice, and algebraic laws on the        *)
(* boundary values of int and long where they do not.                                                                 *)
EXTENDS Alu, FiniteSets
VARIABLES x, y, sh
Small == {-46340, -32768, -1000, -129, -128, -7, -2, -1, 0, 1, 2, 3, 7, 127, 128, 255, 256, 1000, 32767, 46340}
I(v) == FromInt(v, 4)
L(v) == FromInt(v, 8)
MinI == <<0, 0, 0, 128>>   MaxI == <<255, 255, 255, 127>>
MinL == <<0, 0, 0, 0, 0, 0, 0, 128>>   MaxL == <<255, 255, 255, 255, 255, 255, 255, 127>>
BigI == {MinI, MaxI, I(-1), I(0), I(1), I(2), <<1, 0, 0, 128>>, <<254, 255, 255, 127>>, <<120, 86, 52, 18>>, <<0, 0, 1, 0>>, I(-46340), <<255, 255, 0, 0>>}
BigL == {MinL, MaxL, L(-1), L(0), L(1), L(3), <<1, 0, 0, 0, 0, 0, 0, 128>>, <<0, 0, 0, 0, 1, 0, 0, 0>>, <<255, 255, 255, 255, 0, 0, 0, 0>>, <<0, 0, 0, 128, 255, 255, 255, 255>>,
         <<239, 205, 171, 137, 103, 69, 35, 1>>, L(-1000)}
Init == x \in Small /\ y \in Small /\ sh \in 0..12
Next == UNCHANGED <<x, y, sh>>
Spec == Init /\ [][Next]_<<x, y, sh>>
TDiv(a, b) == LET q == (IF a < 0 THEN 0 - a ELSE a) \div (IF b < 0 THEN 0 - b ELSE b) IN IF (a < 0) # (b < 0) THEN 0 - q ELSE q
AgreesWithIntegers ==
  /\ Add(I(x), I(y)) = I(x + y) /\ Sub(I(x), I(y)) = I(x - y) /\ Mul(I(x), I(y)) = I(x * y) /\ Neg(I(x)) = I(0 - x)
  /\ Add(L(x), L(y)) = L(x + y) /\ Mul(L(x), L(y)) = L(x * y)
  /\ Less(I(x), I(y)) = (x < y) /\ Less(L(x), L(y)) = (x < y)
  /\ (y # 0 => Div(I(x), I(y)) = I(TDiv(x, y)) /\ Rem(I(x), I(y)) = I(x - y * TDiv(x, y)) /\ Div(L(x), L(y)) = L(TDiv(x, y)) /\ Rem(L(x), L(y)) = L(x - y * TDiv(x, y)))
  /\ Shl(I(x), sh) = I(x * 2^sh) /\ Shr(I(x), sh) = I(x \div 2^sh) /\ Shl(L(x), sh) = L(x * 2^sh) /\ Shr(L(x), sh) = L(x \div 2^sh)
  /\ (x >= 0 => Ushr(I(x), sh) = I(x \div 2^sh))
  /\ SignExtend(I(x), 8) = L(x) /\ Trunc(L(x), 4) = I(x)
  /\ (x >= 0 /\ y >= 0 => AndB(I(x), I(y)) = I(x & y) /\ OrB(I(x), I(y)) = I(x | y) /\ XorB(I(x), I(y)) = I(x ^^ y))
  /\ NotB(I(x)) = I(0 - x - 1)
Laws(S, W, Min) ==
  \A a \in S : /\ Neg(Neg(a)) = a /\ Sub(a, a) = Zero(W) /\ XorB(a, NotB(a)) = FromInt(-1, W) /\ Shl(a, 1) = Add(a, a)
               /\ Ushr(a, 8 * W - 1) = (IF IsNeg(a) THEN One(W) ELSE Zero(W)) /\ Shr(a, 8 * W - 1) = (IF IsNeg(a) THEN FromInt(-1, W) ELSE Zero(W))
               /\ \A b \in S : /\ Add(a, b) = Add(b, a) /\ Mul(a, b) = Mul(b, a) /\ Sub(Add(a, b), b) = a
                               /\ (~IsZero(b) => /\ Add(Mul(Div(a, b), b), Rem(a, b)) = a
                                                 /\ (IsZero(Rem(a, b)) \/ IsNeg(Rem(a, b)) = IsNeg(a))
                                                 /\ ULess(Abs(Rem(a, b)), Abs(b)))
                               /\ (Less(a, b) \/ Less(b, a) \/ a = b) /\ ~(Less(a, b) /\ Less(b, a))
BoundaryLaws == /\ Laws(BigI, 4, MinI) /\ Laws(BigL, 8, MinL)
                /\ Div(MinI, I(-1)) = MinI /\ Rem(MinI, I(-1)) = I(0) /\ Div(MinL, L(-1)) = MinL /\ Rem(MinL, L(-1)) = L(0)
                /\ Add(MaxI, I(1)) = MinI /\ Add(MaxL, L(1)) = MinL /\ Mul(MinI, I(-1)) = MinI
                /\ Div(I(-7), I(2)) = I(-3) /\ Rem(I(-7), I(2)) = I(-1) /\ Div(I(7), I(-2)) = I(-3) /\ Rem(I(7), I(-2)) = I(1)
                /\ Ushr(I(-1), 28) = I(15) /\ Shr(I(-16), 2) = I(-4) /\ Shl(I(1), 31) = MinI /\ Shl(L(1), 63) = MinL
ASSUME BoundaryLaws
=============================================================================
