------------------------------- MODULE ApkFiles -------------------------------
(* File access of an APK (C34): the archive is a set of entry names with contents; the DEX listing is exactly the   *)
(* root-level entries named "classes" digits ".dex"; multidex = more than one of them.                              *)
(* Names are sequences of character codes.                                                                          *)
EXTENDS Naturals, Sequences, FiniteSets, TLC
Classes == <<99, 108, 97, 115, 115, 101, 115>>       \* "classes"
DotDex  == <<46, 100, 101, 120>>                      \* ".dex"
IsDigit(c) == c >= 48 /\ c <= 57
IsDexName(n) == /\ Len(n) >= Len(Classes) + Len(DotDex)
                /\ SubSeq(n, 1, 7) = Classes
                /\ SubSeq(n, Len(n) - 3, Len(n)) = DotDex
                /\ \A i \in 8..(Len(n) - 4) : IsDigit(n[i])
DexNames(names) == {n \in names : IsDexName(n)}
Multidex(names) == Cardinality(DexNames(names)) > 1

S(str) == str       \* names are given directly as code sequences below
Universe == { <<99,108,97,115,115,101,115,46,100,101,120>>,                 \* classes.dex
              <<99,108,97,115,115,101,115,50,46,100,101,120>>,              \* classes2.dex
              <<99,108,97,115,115,101,115,49,48,46,100,101,120>>,           \* classes10.dex
              <<99,108,97,115,115,101,115,45,100,101,120>>,                 \* classes-dex
              <<99,108,97,115,115,101,115,49,120,100,101,120>>,             \* classes1xdex
              <<99,108,97,115,115,101,115,120,46,100,101,120>>,             \* classesx.dex
              <<108,105,98,47,99,108,97,115,115,101,115,46,100,101,120>>,   \* lib/classes.dex
              <<67,108,97,115,115,101,115,46,100,101,120>>,                 \* Classes.dex
              <<99,108,97,115,115,101,115,46,100,101,120,50>>,              \* classes.dex2
              <<114,101,115,47,120,46,112,110,103>> }                       \* res/x.png
VARIABLES names, dex, multi
Init == /\ names \in {s \in SUBSET Universe : Cardinality(s) <= 4}
        /\ dex = DexNames(names) /\ multi = Multidex(names)
Next == UNCHANGED <<names, dex, multi>>
Spec == Init /\ [][Next]_<<names, dex, multi>>
OnlyRootLevel == \A n \in dex : \A i \in 1..Len(n) : n[i] # 47
LookAlikesExcluded == dex \subseteq {Universe_n \in Universe : Len(Universe_n) \in {11, 12, 13}}
=============================================================================
