SPECIFICATION Spec
CONSTANTS
  NN = 3
  MaxS = 1
INVARIANT WorklistEqualsPaths
PROPERTY Terminates
CHECK_DEADLOCK FALSE
