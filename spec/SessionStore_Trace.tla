--------------------------- MODULE SessionStore_Trace ---------------------------
(* C->S for extension X02: one record per history replayed on a fresh Session: the calls and the answers afterwards.   *)
EXTENDS Naturals, Sequences, FiniteSets, TLC, Json, IOUtils, TLCExt
Tr == ndJsonDeserialize(IOEnv.TRACE_FILE)
VARIABLE l
S == INSTANCE SessionStore WITH MaxOps <- 0, hist <- <<>>, added <- {}
Range(sq) == {sq[ix] : ix \in 1..Len(sq)}
Check(nm, ok) == IF ok THEN {} ELSE {nm}
Hist(r) == [ix \in 1..Len(r.hist) |-> <<r.hist[ix][1], r.hist[ix][2]>>]
\* the string-table sizes of the generated files come with the record (n1, n2, shared = strings common to D1 and D2)
NbStrings(A, r) == (IF "A" \in A THEN r.n1 + r.n2 - r.shared ELSE 0) + (IF "B" \in A THEN r.n1 ELSE 0)
                   + (IF "D1" \in A THEN r.n1 ELSE 0) + (IF "D2" \in A THEN r.n2 ELSE 0)
Failing(r) == LET A == S!AddedBy(Hist(r)) IN
  Check("X02.is-open", r.open = S!IsOpen(A))
  \cup Check("X02.dex-objects", Range(r.dex) = S!DexFiles(A) /\ Len(r.dex) = Cardinality(S!DexFiles(A)))
  \cup Check("X02.apks", Range(r.apks) = S!Apks(A) /\ Len(r.apks) = Cardinality(S!Apks(A)))
  \cup Check("X02.number-of-strings", r.nstr = NbStrings(A, r))
Init == l = 1
Next == /\ l <= Len(Tr)
        /\ LET f == Failing(Tr[l]) IN IF f = {} THEN TRUE ELSE PrintT(<<"REJECT", l, f>>)
        /\ l' = l + 1
Spec == Init /\ [][Next]_l
Accepted == TLCGet("stats").diameter - 1 = Len(Tr)
=============================================================================
