------------------------------ MODULE IconSelectMC ------------------------------
EXTENDS IconSelect, SequencesExt, FiniteSetsExt
D == {0, 160, 240, 65534, 65535}
M == {100, 160, 200, 640, 65534, 65536}
\* every subset of D in ascending, descending and rotated order
Asc(s) == SetToSortSeq(s, <)
Desc(s) == SetToSortSeq(s, >)
Rot(q) == IF Len(q) < 2 THEN q ELSE Tail(q) \o <<Head(q)>>
O == UNION {{Asc(s), Desc(s), Rot(Asc(s))} : s \in SUBSET D}
=============================================================================
