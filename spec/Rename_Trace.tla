----------------------------- MODULE Rename_Trace -----------------------------
(* C->S for C17: histories of set_name / reload / queries on real DEX objects.  A history starts with            *)
(*   {op: "begin", sid: [string id of each tracked item], kinds: [method|field|class|const], cls: [index of the   *)
(*    tracked item that is the item's class, 0 if none]}                                                         *)
(* and each following event {op, item, name, obs} carries the names observed for *all* tracked items after the   *)
(* call (0 = original name, k = k-th new name, -1 = anything else).  The dictionary model (Rename!DictRename)    *)
(* is advanced by the same operation and must explain the observation.  The second verdict says whether the       *)
(* recorded known finding explains a difference *exactly*: the hook model of Rename.tla (hook table keyed by      *)
(* string id, id-item and encoded-item caches, reload cascade of a class rename), generalised to the tracked      *)
(* items, is advanced alongside and must predict the observed name.                                               *)
EXTENDS Naturals, Integers, Sequences, FiniteSets, TLC, Json, IOUtils, TLCExt
Tr == ndJsonDeserialize(IOEnv.TRACE_FILE)
VARIABLES l, sid, kinds, cls, truth, hook, idc, enc
vars == <<l, sid, kinds, cls, truth, hook, idc, enc>>
N == Len(sid)
Look(hk, it) == hk[sid[it]]
HookRename(it, nm) ==
  LET h2 == [hook EXCEPT ![sid[it]] = nm] IN
  IF kinds[it] = "class"
  THEN <<h2,
         [j \in 1..N |-> IF kinds[j] = "method" THEN Look(h2, j) ELSE idc[j]],
         [j \in 1..N |-> IF j = it THEN Look(h2, j)
                         ELSE IF cls[j] = it /\ kinds[j] = "method" THEN Look(h2, j)
                         ELSE IF cls[j] = it /\ kinds[j] = "field" THEN idc[j]
                         ELSE enc[j]]>>
  ELSE <<h2, [idc EXCEPT ![it] = Look(h2, it)], [enc EXCEPT ![it] = Look(h2, it)]>>
HookReload(it) == <<hook, idc, [enc EXCEPT ![it] = IF kinds[it] = "class" THEN Look(hook, it) ELSE idc[it]]>>
ObserveHook(hk, ec, it) == IF kinds[it] = "const" THEN Look(hk, it) ELSE ec[it]
Range(sq) == {sq[ix] : ix \in 1..Len(sq)}
Init == l = 1 /\ sid = <<>> /\ kinds = <<>> /\ cls = <<>> /\ truth = <<>> /\ hook = <<>> /\ idc = <<>> /\ enc = <<>>
Next == /\ l <= Len(Tr) /\ l' = l + 1
        /\ LET r == Tr[l] IN
           IF r.op = "begin"
           THEN /\ sid' = r.sid /\ kinds' = r.kinds /\ cls' = r.cls
                /\ truth' = [i \in 1..Len(r.sid) |-> 0] /\ idc' = [i \in 1..Len(r.sid) |-> 0] /\ enc' = [i \in 1..Len(r.sid) |-> 0]
                /\ hook' = [s \in Range(r.sid) |-> 0]
           ELSE LET t2 == IF r.op = "rename" THEN [truth EXCEPT ![r.item] = r.name] ELSE truth
                    hm == IF r.op = "rename" THEN HookRename(r.item, r.name) ELSE HookReload(r.item)
                    wrong == {i \in 1..N : r.obs[i] # t2[i]}
                    unexplained == {i \in wrong : r.obs[i] # ObserveHook(hm[1], hm[3], i)}
                IN /\ truth' = t2 /\ hook' = hm[1] /\ idc' = hm[2] /\ enc' = hm[3] /\ UNCHANGED <<sid, kinds, cls>>
                   /\ IF wrong = {} THEN TRUE ELSE PrintT(<<"REJECT", l, wrong, unexplained>>)
Spec == Init /\ [][Next]_vars
Accepted == TLCGet("stats").diameter - 1 = Len(Tr)
=============================================================================
