----------------------------- MODULE Rename_Trace -----------------------------
(* C->S for C17: histories of set_name / reload / queries on real DEX objects.  A history starts with            *)
(*   {op: "begin", sid: [string id of each tracked item], kinds: [...]}                                          *)
(* and each following event {op, item, name, obs} carries the names observed for *all* tracked items after the   *)
(* call (0 = original name, k = k-th new name, -1 = anything else).  The dictionary model (Rename!DictRename)    *)
(* is advanced by the same operation and must explain the observation; the second verdict says whether the       *)
(* shared-string-id deviation (Rename!SharedNames, the recorded known finding) explains the difference.          *)
EXTENDS Naturals, Integers, Sequences, FiniteSets, TLC, Json, IOUtils, TLCExt
Tr == ndJsonDeserialize(IOEnv.TRACE_FILE)
VARIABLES l, sid, hist, truth
N == Len(sid)
\* names assigned so far through *another* item with the same string id
SharedNames(h, i) == {e[3] : e \in {h[k] : k \in {x \in 1..Len(h) : h[x][1] = "rename" /\ h[x][2] # i /\ sid[h[x][2]] = sid[i]}}}
Init == l = 1 /\ sid = <<>> /\ hist = <<>> /\ truth = <<>>
Next == /\ l <= Len(Tr) /\ l' = l + 1
        /\ LET r == Tr[l] IN
           IF r.op = "begin" THEN sid' = r.sid /\ hist' = <<>> /\ truth' = [i \in 1..Len(r.sid) |-> 0]
           ELSE LET h2 == Append(hist, <<r.op, r.item, r.name>>)
                    t2 == IF r.op = "rename" THEN [truth EXCEPT ![r.item] = r.name] ELSE truth
                    wrong == {i \in 1..N : r.obs[i] # t2[i]}
                    unexplained == {i \in wrong : r.obs[i] \notin SharedNames(h2, i)}
                IN /\ hist' = h2 /\ truth' = t2 /\ sid' = sid
                   /\ IF wrong = {} THEN TRUE ELSE PrintT(<<"REJECT", l, wrong, unexplained>>)
Spec == Init /\ [][Next]_<<l, sid, hist, truth>>
Accepted == TLCGet("stats").diameter - 1 = Len(Tr)
=============================================================================
