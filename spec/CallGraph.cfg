SPECIFICATION Spec
CONSTANTS
  Internal = {0, 1, 2}
  External = {3}
INVARIANT EdgesAreCalls
INVARIANT EndpointsAreNodes
INVARIANT NodesJustified
INVARIANT NoIsolated
INVARIANT AllSelected
INVARIANT Whole
PROPERTY Monotone
CHECK_DEADLOCK FALSE
