----------------------------- MODULE JavaLiteral -----------------------------
(* Java's lexical reading of a string literal (JLS 3.3 Unicode escapes, 3.10.5-3.10.7 string literals and      *)
(* escape sequences).  Text is a sequence of character codes; the result is the sequence of UTF-16 code units   *)
(* the literal denotes, or <<-1>> when the text is not one well-formed string literal.                          *)
EXTENDS Naturals, Integers, Sequences, FiniteSets, TLC
BS == 92      \* backslash
DQ == 34      \* double quote
HexVal(c) == IF c >= 48 /\ c <= 57 THEN c - 48 ELSE IF c >= 97 /\ c <= 102 THEN c - 87 ELSE IF c >= 65 /\ c <= 70 THEN c - 55 ELSE -1
IsHex(c) == HexVal(c) >= 0
IsOct(c) == c >= 48 /\ c <= 55
Err == <<-1>>
IsErr(s) == s # <<>> /\ s[1] = -1

(* ---- phase 1: Unicode escapes.  Output elements are <<unit, fromEscape>> ---- *)
RECURSIVE SkipU(_, _)
SkipU(cs, i) == IF i <= Len(cs) /\ cs[i] = 117 THEN SkipU(cs, i + 1) ELSE i          \* one or more 'u'
RECURSIVE Translate(_, _, _)
Translate(cs, i, nbs) ==            \* nbs = number of contiguous raw backslashes immediately before position i
  IF i > Len(cs) THEN <<>>
  ELSE IF cs[i] = BS /\ nbs % 2 = 0 /\ i < Len(cs) /\ cs[i + 1] = 117
       THEN LET j == SkipU(cs, i + 1) IN
            IF j + 3 <= Len(cs) /\ IsHex(cs[j]) /\ IsHex(cs[j+1]) /\ IsHex(cs[j+2]) /\ IsHex(cs[j+3])
            THEN << <<HexVal(cs[j]) * 4096 + HexVal(cs[j+1]) * 256 + HexVal(cs[j+2]) * 16 + HexVal(cs[j+3]), TRUE>> >> \o Translate(cs, j + 4, 0)
            ELSE << <<-1, TRUE>> >>                                                   \* malformed Unicode escape
       ELSE << <<cs[i], FALSE>> >> \o Translate(cs, i + 1, IF cs[i] = BS THEN nbs + 1 ELSE 0)

(* ---- phase 2: the string literal ---- *)
Simple == [b |-> 8, t |-> 9, n |-> 10, f |-> 12, r |-> 13]
EscOf(c) == CASE c = 98 -> 8 [] c = 116 -> 9 [] c = 110 -> 10 [] c = 102 -> 12 [] c = 114 -> 13 [] c = 115 -> 32
              [] c = DQ -> DQ [] c = 39 -> 39 [] c = BS -> BS [] OTHER -> -1
RECURSIVE Body(_, _)
Body(t, i) ==                       \* t = translated text (units only), i = position inside the quotes
  IF i > Len(t) THEN Err                                                              \* unterminated
  ELSE LET c == t[i] IN
       IF c = DQ THEN (IF i = Len(t) THEN <<>> ELSE Err)                              \* closing quote must end the text
       ELSE IF c = 10 \/ c = 13 THEN Err                                              \* raw line terminator
       ELSE IF c # BS THEN (LET r == Body(t, i + 1) IN IF IsErr(r) THEN Err ELSE <<c>> \o r)
       ELSE IF i = Len(t) THEN Err
       ELSE LET e == t[i + 1] IN
            IF IsOct(e) THEN
               LET two == i + 2 <= Len(t) /\ IsOct(t[i + 2])
                   three == two /\ e <= 51 /\ i + 3 <= Len(t) /\ IsOct(t[i + 3])
                   v == IF three THEN (e - 48) * 64 + (t[i + 2] - 48) * 8 + (t[i + 3] - 48)
                        ELSE IF two THEN (e - 48) * 8 + (t[i + 2] - 48) ELSE e - 48
                   nxt == IF three THEN i + 4 ELSE IF two THEN i + 3 ELSE i + 2
                   r == Body(t, nxt)
               IN IF IsErr(r) THEN Err ELSE <<v>> \o r
            ELSE IF EscOf(e) < 0 THEN Err
            ELSE LET r == Body(t, i + 2) IN IF IsErr(r) THEN Err ELSE <<EscOf(e)>> \o r
Lex(cs) == LET tr == Translate(cs, 1, 0)
               t == [k \in 1..Len(tr) |-> tr[k][1]]
           IN IF \E k \in 1..Len(t) : t[k] = -1 THEN Err
              ELSE IF Len(t) < 2 \/ t[1] # DQ THEN Err
              ELSE Body(t, 2)

(* ---- a reference writer (the spec's own): every unit outside printable ASCII as \uXXXX ---- *)
HexDigit(v) == IF v < 10 THEN 48 + v ELSE 87 + v
Write1(u) == IF u = DQ \/ u = BS THEN <<BS, u>>
             ELSE IF u = 8 THEN <<BS, 98>> ELSE IF u = 9 THEN <<BS, 116>> ELSE IF u = 10 THEN <<BS, 110>>
             ELSE IF u = 12 THEN <<BS, 102>> ELSE IF u = 13 THEN <<BS, 114>>     \* \u000a / \u000d would be raw line terminators
             ELSE IF u >= 32 /\ u < 127 THEN <<u>>
             ELSE <<BS, 117, HexDigit(u \div 4096), HexDigit((u \div 256) % 16), HexDigit((u \div 16) % 16), HexDigit(u % 16)>>
RECURSIVE WriteAll(_)
WriteAll(us) == IF us = <<>> THEN <<>> ELSE Write1(Head(us)) \o WriteAll(Tail(us))
Write(us) == <<DQ>> \o WriteAll(us) \o <<DQ>>
=============================================================================
