SPECIFICATION Spec
INVARIANT OneWordPerDefinedBit
CHECK_DEADLOCK FALSE
