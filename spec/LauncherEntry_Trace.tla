--------------------------- MODULE LauncherEntry_Trace ---------------------------
(* C->S for extension X06: one record per parsed APK: acts = <<[name, enabled, filters (Seq of 0..3)]>> as written     *)
(* into the manifest, reported = the names APK.get_main_activities returned.                                           *)
EXTENDS Naturals, Sequences, FiniteSets, TLC, Json, IOUtils, TLCExt
Tr == ndJsonDeserialize(IOEnv.TRACE_FILE)
VARIABLE l
L == INSTANCE LauncherEntry WITH Acts <- <<>>, MaxFilters <- 0, PerFilter <- TRUE, enabled <- <<>>, filters <- <<>>, pc <- "", i <- 0, j <- 0, x <- {}, y <- {}, result <- {}
Range(s) == {s[k] : k \in 1..Len(s)}
Check(name, ok) == IF ok THEN {} ELSE {name}
Want(r) == {r.acts[k].name : k \in {k \in 1..Len(r.acts) : L!IsEntry(r.acts[k].enabled, r.acts[k].filters)}}
Declared(r) == {r.acts[k].name : k \in {k \in 1..Len(r.acts) : /\ r.acts[k].enabled
                                                               /\ \E a \in 1..Len(r.acts[k].filters) : L!HasMain(r.acts[k].filters[a])
                                                               /\ \E a \in 1..Len(r.acts[k].filters) : L!HasLauncher(r.acts[k].filters[a])}}
Failing(r) == Check("X06.entry-missed", Want(r) \subseteq Range(r.reported))
         \cup Check("X06.reported-without-declaring-both", Range(r.reported) \subseteq Declared(r))
         \cup Check("X06.main-and-launcher-in-different-filters", Range(r.reported) \cap Declared(r) \subseteq Want(r))
Init == l = 1
Next == /\ l <= Len(Tr)
        /\ LET f == Failing(Tr[l]) IN IF f = {} THEN TRUE ELSE PrintT(<<"REJECT", l, f, Want(Tr[l])>>)
        /\ l' = l + 1
Spec == Init /\ [][Next]_l
Accepted == TLCGet("stats").diameter - 1 = Len(Tr)
=============================================================================
