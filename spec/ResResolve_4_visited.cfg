SPECIFICATION Spec
CONSTANTS
  Ids = {1, 2, 3, 4}
  Strs = {"a", "b"}
  Guard = "visited"
  WithBags = FALSE
INVARIANT ReturnsReachable
INVARIANT Bounded
PROPERTY Terminates
CHECK_DEADLOCK FALSE
