SPECIFICATION Spec
INVARIANT MantRange
INVARIANT AbsInvolution
INVARIANT TextShape
CHECK_DEADLOCK FALSE
