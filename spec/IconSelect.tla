------------------------------- MODULE IconSelect -------------------------------
(* Extension X05 (not a listed property): APK.get_app_icon.                                                            *)
(* Which resource names the icon: the main activity's android:icon, else the application's, else the resource           *)
(* mipmap/ic_launcher, else drawable/ic_launcher, else there is none.  Which file of that resource: the one whose        *)
(* density is the largest not greater than max_dpi (densities as numbers: default 0, ldpi 120 ... anydpi 65534,          *)
(* nodpi 65535); none if every density is greater.  The file must not depend on the order of the configurations in the  *)
(* table.  The module is the procedure (one action per source tried, one per candidate scanned); TLC checks the closed   *)
(* form on every combination of sources, every set of densities in every table order, and every max_dpi.                *)
EXTENDS Integers, Sequences, FiniteSets, TLC

Sources == <<"activity", "application", "mipmap", "drawable">>
CONSTANTS Densities,     \* the densities a resource may have files for
          MaxDpis,       \* values of the max_dpi argument
          Orders         \* sequences over Densities: the table orders explored (each a permutation of a subset)
VARIABLES defined,       \* set of sources that name an icon
          cands,         \* densities of the icon resource in table order
          maxdpi, pc, source, i, cur, pick
vars == <<defined, cands, maxdpi, pc, source, i, cur, pick>>

Range(s) == {s[k] : k \in 1..Len(s)}
First(d) == IF d = {} THEN "none" ELSE Sources[CHOOSE k \in 1..4 : Sources[k] \in d /\ \A j \in 1..(k - 1) : Sources[j] \notin d]
Fitting(c, mx) == {x \in Range(c) : x <= mx}
Best(c, mx) == IF Fitting(c, mx) = {} THEN -1 ELSE CHOOSE x \in Fitting(c, mx) : \A y \in Fitting(c, mx) : y <= x
\* closed form of the answer: <<source, density of the file>> (density -1: no file)
Answer(d, c, mx) == IF d = {} THEN <<"none", -1>> ELSE <<First(d), Best(c, mx)>>

Init == /\ defined \in SUBSET Range(Sources) /\ cands \in Orders /\ maxdpi \in MaxDpis
        /\ pc = "activity" /\ source = "none" /\ i = 1 /\ cur = -1 /\ pick = -1
NextSource(s) == CASE s = "activity" -> "application" [] s = "application" -> "mipmap" [] s = "mipmap" -> "drawable" [] OTHER -> "done"
Try == /\ pc \in Range(Sources)
       /\ IF pc \in defined THEN source' = pc /\ pc' = "scan" ELSE source' = source /\ pc' = NextSource(pc)
       /\ UNCHANGED <<defined, cands, maxdpi, i, cur, pick>>
Scan == /\ pc = "scan"
        /\ IF i > Len(cands) THEN pc' = "done" /\ UNCHANGED <<i, cur, pick>>
           ELSE /\ i' = i + 1 /\ pc' = pc
                /\ IF cur < cands[i] /\ cands[i] <= maxdpi THEN cur' = cands[i] /\ pick' = cands[i] ELSE UNCHANGED <<cur, pick>>
        /\ UNCHANGED <<defined, cands, maxdpi, source>>
Next == Try \/ Scan
Spec == Init /\ [][Next]_vars /\ WF_vars(Next)

ClosedForm == pc = "done" => <<source, pick>> = Answer(defined, cands, maxdpi)
PickIsCandidate == pick = -1 \/ (pick \in Range(cands) /\ pick <= maxdpi)
OrderFree == pc = "done" => \A o \in Orders : Range(o) = Range(cands) => Answer(defined, o, maxdpi) = <<source, pick>>
Improves == [][cur <= cur']_vars
Terminates == <>(pc = "done")
=============================================================================
