--------------------------- MODULE DalvikMachine_Trace ---------------------------
(* C->S for C21: one record per (method, argument tuple):                                                              *)
(*   prog, nregs, first, argbytes  the method as assembled into the DEX file and the arguments (little-endian bytes),  *)
(*   steps  the number of instructions the harness' own interpreter executed,                                          *)
(*   java   what the javac-compiled decompiler output did: [kind "value" | "exc" | "nocompile", bytes, name],           *)
(*   ref    what the harness' interpreter computed (same shape).                                                        *)
(* The machine of DalvikMachine executes the method one instruction per TLC step; when it halts the three outcomes      *)
(* are compared.                                                                                                        *)
EXTENDS DalvikMachine, Json, IOUtils, TLCExt
Tr == ndJsonDeserialize(IOEnv.TRACE_FILE)
VARIABLES l, m, n
vars == <<l, m, n>>
Idle == [pc |-> 0, status |-> "idle", val |-> <<>>, exc |-> "", regs |-> <<>>]
LoadRec(ix) == IF ix <= Len(Tr) THEN Load(Tr[ix].nregs, Tr[ix].first, Tr[ix].argbytes) ELSE Idle
Same(mc, oc) == \/ oc.kind = "value" /\ mc.status = "ret" /\ mc.val = oc.bytes
                \/ oc.kind = "exc" /\ mc.status = "exc" /\ mc.exc = oc.name
Check(nm, ok) == IF ok THEN {} ELSE {nm}
Failing(r, mc, cnt) ==
  Check("HARNESS.reference-interpreter-agrees-with-the-machine", mc.status # "run" /\ cnt = r.steps /\ Same(mc, r.ref))
  \cup Check("C21.accepted-by-the-java-compiler", r.java.kind # "nocompile")
  \cup Check("C21.same-value-or-exception", r.java.kind = "nocompile" \/ Same(mc, r.java))
Init == l = 1 /\ m = LoadRec(1) /\ n = 0
StepMachine == /\ l <= Len(Tr) /\ m.status = "run" /\ n < Tr[l].steps
               /\ m' = Step(m, Tr[l].prog[m.pc]) /\ n' = n + 1 /\ l' = l
Finish == /\ l <= Len(Tr) /\ (m.status # "run" \/ n >= Tr[l].steps)
          /\ LET f == Failing(Tr[l], m, n) IN IF f = {} THEN TRUE ELSE PrintT(<<"REJECT", l, f>>)
          /\ l' = l + 1 /\ m' = LoadRec(l + 1) /\ n' = 0
Next == StepMachine \/ Finish
Spec == Init /\ [][Next]_vars
Accepted == TLCGet("stats").diameter >= 1
=============================================================================
