SPECIFICATION Spec
CONSTANTS
  Proc = {1, 2}
  Retry = FALSE
INVARIANT AllCreated
INVARIANT DistinctIds
INVARIANT IdsAreRows

CHECK_DEADLOCK FALSE
