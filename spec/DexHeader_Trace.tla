---------------------------- MODULE DexHeader_Trace ----------------------------
(* C->S for C09: one record per constructor call DEX(buffer): the corruption class of the buffer (or "byte"   *)
(* for a single-byte change at an offset >= 12 of a valid file), the outcome and whether MapList was entered. *)
EXTENDS DexHeader, Json, IOUtils, TLCExt
Tr == ndJsonDeserialize(IOEnv.TRACE_FILE)
VARIABLE l
Failing(r) ==
  LET want == IF r.kind = "byte" THEN "reject" ELSE Verdict(r.magic, r.endian, r.hsize, r.sum, r.len) IN
  (IF want = "reject" /\ r.outcome # "error" THEN {"rejected"} ELSE {})
  \cup (IF want = "reject" /\ r.entered THEN {"before-any-structure-is-parsed"} ELSE {})
  \cup (IF want = "accept" /\ r.outcome # "parsed" THEN {"clean-file-accepted"} ELSE {})
Init == l = 1
Next == /\ l <= Len(Tr)
        /\ LET f == Failing(Tr[l]) IN IF f = {} THEN TRUE ELSE PrintT(<<"REJECT", l, f>>)
        /\ l' = l + 1
Spec == Init /\ [][Next]_l
Accepted == TLCGet("stats").diameter - 1 = Len(Tr)
=============================================================================
