SPECIFICATION Spec
CONSTANTS
  Densities <- D
  MaxDpis <- M
  Orders <- O
INVARIANT ClosedForm
INVARIANT PickIsCandidate
INVARIANT OrderFree
PROPERTY Improves
PROPERTY Terminates
CHECK_DEADLOCK FALSE
