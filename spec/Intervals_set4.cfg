SPECIFICATION Spec
CONSTANTS
  N = 4
  SortByNum = FALSE
INVARIANT Confluent
CHECK_DEADLOCK FALSE
