------------------------- MODULE DalvikFormat_Trace -------------------------
(* C->S for C01: one record per real get_instruction call: the code units and the projected result.         *)
EXTENDS DalvikFormat, Json, IOUtils, TLCExt
Tr == ndJsonDeserialize(IOEnv.TRACE_FILE)
VARIABLE l

MustDecode(u) == LET f == Fmt(Op(u)) IN ~Unused(Op(u)) /\ (ZeroAA(f) => AA(u) = 0) /\ CountOK(u)

Holds(rec) ==
  LET u == rec.u r == rec.r op == Op(u) IN
  IF Unused(op) THEN << <<"unused-opcode-rejected", ~r.ok>> >>
  ELSE IF ~r.ok THEN << <<"valid-instruction-decoded", ~MustDecode(u)>> >>
  ELSE LET d == Decode(u) IN
       << <<"length", r.len = d.len>>,
          <<"mnemonic", r.name = d.name>>,
          <<"reencode", r.raw = SubSeq(u, 1, d.len)>>,
          <<"registers", CountOK(u) => r.regs = d.regs>>,
          <<"literal", r.lit = d.lit /\ (d.lit # <<>> => (r.litfits /\ r.litneg = IsNeg(d.lit)))>>,
          <<"get_literals", r.lits = r.lit>>,
          <<"offset", r.off = d.off /\ (d.off # <<>> => (r.offfits /\ r.offneg = IsNeg(d.off)))>>,
          <<"get_ref_off", d.off # <<>> => r.refoff = r.off>>,
          <<"index", CountOK(u) => (r.idx = d.idx /\ r.idxfits)>>,
          <<"index2", CountOK(u) => r.idx2 = d.idx2>>,
          <<"get_ref_kind", (CountOK(u) /\ d.idx # <<>> /\ d.idx2 = <<>>) => r.refkind = d.idx>> >>

Failing(rec) == LET h == Holds(rec) IN {h[i][1] : i \in {j \in 1..Len(h) : ~h[j][2]}}
Init == l = 1
Next == /\ l <= Len(Tr)
        /\ LET f == Failing(Tr[l]) IN IF f = {} THEN TRUE ELSE PrintT(<<"REJECT", l, f>>)
        /\ l' = l + 1
Spec == Init /\ [][Next]_l
Accepted == TLCGet("stats").diameter - 1 = Len(Tr)
=============================================================================
