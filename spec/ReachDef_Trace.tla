---------------------------- MODULE ReachDef_Trace ----------------------------
(* C->S for C20: one record per graph handed to dataflow.build_def_use: nodes 1..n (1 = entry), edges (normal   *)
(* and catch), per node the statements [def, uses, location] (registers as integers >= 1, def 0 = none),        *)
(* the parameter registers, and the UD map the decompiler returned as triples [register, use, definition].      *)
EXTENDS ReachDef, Json, IOUtils, TLCExt
Tr == ndJsonDeserialize(IOEnv.TRACE_FILE)
VARIABLE l
Range(s) == {s[i] : i \in 1..Len(s)}
Failing(r) ==
  LET N == 1..r.n
      E == {<<r.edges[i][1], r.edges[i][2]>> : i \in 1..Len(r.edges)}
      code == [k \in N |-> [j \in 1..Len(r.code[k]) |-> <<r.code[k][j][1], Range(r.code[k][j][2]), r.code[k][j][3]>>]]
      want == PathUD(E, code, N, r.params)
      got == {<<r.ud[i][1], r.ud[i][2], r.ud[i][3]>> : i \in 1..Len(r.ud)}
  IN (IF got \subseteq want THEN {} ELSE {"C20.links-a-definition-that-does-not-reach"})
     \cup (IF want \subseteq got THEN {} ELSE {"C20.misses-a-reaching-definition"})
Init == l = 1
Next == /\ l <= Len(Tr)
        /\ LET f == Failing(Tr[l]) IN IF f = {} THEN TRUE ELSE PrintT(<<"REJECT", l, f>>)
        /\ l' = l + 1
Spec == Init /\ [][Next]_l
Accepted == TLCGet("stats").diameter - 1 = Len(Tr)
=============================================================================
