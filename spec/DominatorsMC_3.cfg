SPECIFICATION Spec
CONSTANT NN = 3
INVARIANT TreeInv
INVARIANT FastAgrees
INVARIANT DomOrder
INVARIANT SearchExists
CHECK_DEADLOCK FALSE
