SPECIFICATION Spec
CONSTANTS
 K = 128
 Lens = {0, 1, 2, 127, 128, 129, 130, 256, 257}
 Starts = {0, 1, 127, 128, 129}
 EofCheck = TRUE
INVARIANT Bounded
INVARIANT Result
PROPERTY Terminates
CONSTRAINT LimitReads
CHECK_DEADLOCK FALSE
