SPECIFICATION Spec
CONSTANTS
  NNames = 2
  MaxOps = 4
INVARIANT DictIsLastRename
INVARIANT ConstantsUnchanged
INVARIANT HookOnlyLeaksSharedIds
CHECK_DEADLOCK FALSE
