SPECIFICATION Spec
CONSTANTS
  NNames = 2
  MaxOps = 3
INVARIANT HookRefinesDict
CHECK_DEADLOCK FALSE
