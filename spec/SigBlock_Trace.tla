----------------------------- MODULE SigBlock_Trace -----------------------------
(* C->S for C33: one record per (generated APK, query history on a fresh APK object):                                *)
(*   pairs = the id-value pairs written into the APK Signing Block (value = the bytes written),                       *)
(*   hist  = the queries made, in order, with the answers [q, b, bl, sg].                                             *)
(* Every answer must be Expected(q, pairs), the TLA+ reader applied to the written bytes.                            *)
EXTENDS SigBlock, Json, IOUtils, TLCExt
Tr == ndJsonDeserialize(IOEnv.TRACE_FILE)
VARIABLE l
SignerEq(a, e) == /\ a.digests = e.digests /\ a.certs = e.certs /\ a.attrs = e.attrs /\ a.sigs = e.sigs /\ a.key = e.key
                  /\ a.min = e.min /\ a.max = e.max /\ a.smin = e.smin /\ a.smax = e.smax
AnsEq(h, e) == /\ h.b = e.b /\ h.bl = e.bl /\ Len(h.sg) = Len(e.sg) /\ \A i \in 1..Len(e.sg) : SignerEq(h.sg[i], e.sg[i])
Failing(r) == {"C33." \o r.hist[i].q : i \in {j \in 1..Len(r.hist) : ~AnsEq(r.hist[j], Expected(r.hist[j].q, r.pairs))}}
Init == l = 1
Next == /\ l <= Len(Tr)
        /\ LET f == Failing(Tr[l]) IN IF f = {} THEN TRUE ELSE PrintT(<<"REJECT", l, f>>)
        /\ l' = l + 1
Spec == Init /\ [][Next]_l
Accepted == TLCGet("stats").diameter - 1 = Len(Tr)
=============================================================================
