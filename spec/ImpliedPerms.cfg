SPECIFICATION Spec
CONSTANTS
  Targets = {0, 3, 4, 15, 16, 29}
  Mins = {0, 3, 16}
INVARIANT ClosedForm
INVARIANT NeverAsked
INVARIANT Closed
INVARIANT Justified
PROPERTY Grows
PROPERTY Terminates
CHECK_DEADLOCK FALSE
