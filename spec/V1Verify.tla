------------------------------- MODULE V1Verify -------------------------------
(* Which certificate a v1 (JAR) signature block reports (C32), with abstract cryptography:                            *)
(*   certificate = [issuer, serial, key];  a signature is the pair [key, over] of the signing key and the message      *)
(*   signed; it verifies under a certificate iff the keys are equal and `over` is the message the verifier presents;   *)
(*   Digest(alg, m) = <<alg, m>>.                                                                                      *)
(*   signer info = [sid = <<issuer, serial>>, alg, attrs, sig];  attrs = [present, ctype, digest] where ctype is       *)
(*   "data" / "other" / "absent" and digest is a Digest or Absent; a message is [kind, sf, attrs].                       *)
(*   block = [sf, certs (sequence), sis (sequence of signer infos), minsdk]                                             *)
(* The property (ReportedVerifies): the reported certificate is referenced by some signer info, its key verifies       *)
(* that signer info's signature over the signed attributes (whose digest must be the digest of the .SF) or, without     *)
(* signed attributes, over the .SF itself.  The procedure below (one action per step of get_certificate_der) is        *)
(* checked against it on every block of the bounded universe.                                                          *)
EXTENDS Naturals, Sequences, FiniteSets, TLC

Digest(alg, m) == <<alg, m>>
Absent == <<"absent", "">>
\* (order: "der" / "swapped" -- the byte order in which the attributes are stored; a signature over one order does not verify over the other)
NoAttrs == [present |-> FALSE, ctype |-> "", digest |-> <<"", "">>, order |-> ""]
OverSF(sf) == [kind |-> "sf", sf |-> sf, attrs |-> NoAttrs]
OverAttrs(a) == [kind |-> "attrs", sf |-> "", attrs |-> a]
Message(si, sf) == IF ~si.attrs.present THEN OverSF(sf) ELSE OverAttrs(si.attrs)
Matches(c, si) == si.sid = <<c.issuer, c.serial>>
AttrsOK(si, sf) == ~si.attrs.present \/ (si.attrs.ctype = "data" /\ si.attrs.digest = Digest(si.alg, sf))
SigOK(c, si, sf) == si.sig = [key |-> c.key, over |-> Message(si, sf)]
Verifies(c, si, sf) == Matches(c, si) /\ AttrsOK(si, sf) /\ SigOK(c, si, sf)
\* certificates (indices into b.certs) that the property allows to be reported for block b
Reportable(b) == {i \in 1..Len(b.certs) : \E j \in 1..Len(b.sis) : Verifies(b.certs[i], b.sis[j], b.sf)}
Sound(b, reported) == reported = 0 \/ reported \in Reportable(b)

(* ---- the procedure ---- *)
CONSTANT Blocks,         \* the universe of blocks explored
         Variant         \* "ok" | "nodigest" (the digest attribute is not compared with the .SF) | "anycert" (the first certificate of the bag is used)
VARIABLES b, pc, k, cert, result
vars == <<b, pc, k, cert, result>>
ToTry(blk) == IF blk.minsdk < 24 THEN 1 ELSE Len(blk.sis)
Init == b \in Blocks /\ pc = "next" /\ k = 0 /\ cert = 0 /\ result = 0
NextSigner == /\ pc = "next"
              /\ IF k < ToTry(b) THEN k' = k + 1 /\ pc' = "find" ELSE k' = k /\ pc' = "done"
              /\ UNCHANGED <<b, cert, result>>
FindCertificate == /\ pc = "find"
                   /\ LET M == IF Variant = "anycert" THEN {1} ELSE {i \in 1..Len(b.certs) : Matches(b.certs[i], b.sis[k])} IN
                      IF M = {} THEN cert' = 0 /\ pc' = "abort" /\ result' = 0         \* referenced certificate not in the bag
                      ELSE cert' = (CHOOSE i \in M : \A j \in M : i <= j) /\ pc' = "attrs" /\ UNCHANGED result
                   /\ UNCHANGED <<b, k>>
CheckAttributes == /\ pc = "attrs"
                   /\ LET a == b.sis[k].attrs IN
                      IF ~a.present THEN pc' = "sig" /\ UNCHANGED result
                      ELSE IF a.ctype = "absent" \/ a.digest = Absent THEN pc' = "abort" /\ result' = 0
                      ELSE IF a.ctype # "data" \/ (Variant # "nodigest" /\ a.digest # Digest(b.sis[k].alg, b.sf)) THEN pc' = "next" /\ UNCHANGED result
                      ELSE pc' = "sig" /\ UNCHANGED result
                   /\ UNCHANGED <<b, k, cert>>
VerifySignature == /\ pc = "sig"
                   /\ IF SigOK(b.certs[cert], b.sis[k], b.sf) /\ result = 0 THEN result' = cert ELSE UNCHANGED result
                   /\ pc' = "next"
                   /\ UNCHANGED <<b, k, cert>>
Next == NextSigner \/ FindCertificate \/ CheckAttributes \/ VerifySignature
Spec == Init /\ [][Next]_vars /\ WF_vars(Next)

ReportedVerifies == Sound(b, result)
Terminates == <>(pc \in {"done", "abort"})
\* a block whose only signer info is intact reports its certificate (keeps the invariant from holding vacuously)
\* (when two certificates of the bag carry the referenced issuer and serial number, only the first is tried)
UniqueRef(blk) == \A j \in 1..Len(blk.sis) : Cardinality({i \in 1..Len(blk.certs) : Matches(blk.certs[i], blk.sis[j])}) <= 1
IntactReported == (pc = "done" /\ Len(b.sis) = 1 /\ UniqueRef(b) /\ Reportable(b) # {}) => result \in Reportable(b)
=============================================================================
