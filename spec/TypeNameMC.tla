----------------------------- MODULE TypeNameMC -----------------------------
EXTENDS TypeName
CONSTANTS MaxSegs, MaxDims
VARIABLES d, desc, names
Words == {"java", "lang", "language", "javax", "annotation", "invoke", "Foo", "a", "L", "URL"}      \* (names beginning / ending with the letters of the descriptor syntax)
Init == /\ \/ d \in [dims : 0..MaxDims, prim : PrimLetters \ {"V"}, segs : {<<>>}]
           \/ d = [dims |-> 0, prim |-> "V", segs |-> <<>>]
           \/ \E k \in 1..MaxSegs : d \in [dims : 0..MaxDims, prim : {""}, segs : [1..k -> Words]]
        /\ desc = Descriptor(d) /\ names = Names(d)
Next == UNCHANGED <<d, desc, names>>
Spec == Init /\ [][Next]_<<d, desc, names>>
NonEmpty == names # {}
\* look-alike packages never lose a prefix; sub-packages of java.lang keep the full name
OnlyDirectMembers == (d.prim = "" /\ ~DirectJavaLang(d.segs)) => Cardinality(names) = 1
=============================================================================
