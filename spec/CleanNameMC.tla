----------------------------- MODULE CleanNameMC -----------------------------
(* every name of <= MaxRuns runs over the six classes with lengths at the boundaries of the 230 limit           *)
EXTENDS CleanName
CONSTANT MaxRuns
VARIABLES runs, ref
Classes == {"reserved", "control", "sep", "space", "dot", "plain"}
Lens == {1, 2, 3, 227, 228, 229, 230, 231, 300}
Init == /\ \E k \in 0..MaxRuns : runs \in [1..k -> Classes \X Lens]
        /\ \A i \in 1..(Len(runs) - 1) : runs[i][1] # runs[i + 1][1]
        /\ Total(runs) <= 620
        /\ ref = RefClean(runs)
Next == UNCHANGED <<runs, ref>>
Spec == Init /\ [][Next]_<<runs, ref>>
Satisfiable == Portable(ref)
KeepsCleanNames == (Portable(runs) /\ runs = NonEmptyRuns(runs)) => ref = runs
=============================================================================
