SPECIFICATION Spec
INVARIANT AgreesWithIntegers
CHECK_DEADLOCK FALSE
