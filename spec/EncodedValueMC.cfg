SPECIFICATION Spec
INVARIANT RangeOK
INVARIANT CharPos
INVARIANT SignRule
INVARIANT FullWidthIsReinterpretation
CHECK_DEADLOCK FALSE
