----------------------------- MODULE EncodedValue -----------------------------
(* encoded_value of the DEX format: header byte (value_arg << 5 | value_type) followed by value_arg + 1 bytes,  *)
(* little-endian.  BYTE/SHORT/INT/LONG are sign-extended, CHAR and every pool index are zero-extended,           *)
(* BOOLEAN lives in value_arg.  64-bit results are four 16-bit limbs (two's complement).                        *)
EXTENDS Naturals, Integers, Sequences, FiniteSets, TLC

Signed  == {"byte", "short", "int", "long"}
Indexed == {"string", "type", "field", "method", "enum"}
MaxWidth(t) == CASE t = "byte" -> 1 [] t \in {"short", "char"} -> 2 [] t = "int" -> 4 [] t = "long" -> 8 [] t \in Indexed -> 4
Bits(t) == 8 * MaxWidth(t)

ByteAt(bs, i, fill) == IF i <= Len(bs) THEN bs[i] ELSE fill
Limbs4(bs, fill) == [k \in 1..4 |-> ByteAt(bs, 2 * k - 1, fill) + 256 * ByteAt(bs, 2 * k, fill)]
UInt(bs) == Limbs4(bs, 0)
SInt(bs) == Limbs4(bs, IF bs[Len(bs)] >= 128 THEN 255 ELSE 0)
Neg(l) == l[4] >= 32768

Value(t, bs) == IF t \in Signed THEN SInt(bs) ELSE UInt(bs)
\* small unsigned values (pool indices) as a natural number
Index(bs) == LET l == UInt(bs) IN l[1] + 65536 * l[2]

WidthOK(t, bs) == Len(bs) \in 1..MaxWidth(t)
\* the value fits the declared type: sign extension of a w-byte quantity is within the type's range by construction
InRange(t, l) ==
  IF t \notin Signed THEN ~Neg(l)
  ELSE LET w == MaxWidth(t) k0 == (w + 1) \div 2 IN
       IF Neg(l) THEN /\ \A k \in 1..4 : (k > k0 => l[k] = 65535)
                      /\ l[k0] >= (IF w % 2 = 1 THEN 65536 - 128 ELSE 32768)
       ELSE /\ \A k \in 1..4 : (k > k0 => l[k] = 0)
            /\ l[k0] < (IF w % 2 = 1 THEN 128 ELSE 32768)
=============================================================================
