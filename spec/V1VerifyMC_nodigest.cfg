SPECIFICATION Spec
CONSTANTS
 MaxSigners = 1
 Algs = {"sha256"}
 Variant = "nodigest"
INVARIANT ReportedVerifies
INVARIANT IntactReported
PROPERTY Terminates
CHECK_DEADLOCK FALSE
