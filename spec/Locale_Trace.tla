------------------------------ MODULE Locale_Trace ------------------------------
(* C->S for C30: one record per (language, region): the text get_language_and_region() reported for a            *)
(* configuration read from the packed bytes, and the locale bytes of a configuration created from that text.     *)
EXTENDS Naturals, Sequences, FiniteSets, TLC, Json, IOUtils, TLCExt
Tr == ndJsonDeserialize(IOEnv.TRACE_FILE)
VARIABLE l
L == INSTANCE Locale WITH kind <- "lang", code <- <<>>, packed <- <<0, 0>>
Failing(r) == (IF r.reported = L!Text(r.lang, r.region) THEN {} ELSE {"C30.reported-string"})
              \cup (IF r.reencoded = L!PackLocale(r.lang, r.region) THEN {} ELSE {"C30.re-encoding"})
Init == l = 1
Next == /\ l <= Len(Tr)
        /\ LET f == Failing(Tr[l]) IN IF f = {} THEN TRUE ELSE PrintT(<<"REJECT", l, f>>)
        /\ l' = l + 1
Spec == Init /\ [][Next]_l
Accepted == TLCGet("stats").diameter - 1 = Len(Tr)
=============================================================================
