SPECIFICATION Spec
CONSTANTS
  MaxLen = 4
  Alphabet <- Alpha
  Mode = "asm"
INVARIANT Inside
INVARIANT Tiling
INVARIANT CursorRight
INVARIANT AssembleRecovered
INVARIANT AsmNeverInvalid
PROPERTY Terminates
CHECK_DEADLOCK FALSE
