SPECIFICATION Spec
CONSTANTS
  ByteAll = {0,1,2,63,64,65,127,128,129,191,192,193,254,255}
  ByteEdge = {0,1,63,64,127,128,129,191,192,255}
  Vals <- BoundaryVals
INVARIANT TypeOK
INVARIANT ReaderExact
INVARIANT TwoDefs
INVARIANT RoundTrip
INVARIANT Minimal
PROPERTY Terminates
CHECK_DEADLOCK FALSE
