----------------------------- MODULE ReachDefMC -----------------------------
(* Bounded instance: every rooted digraph on NN nodes x every assignment of <= MaxS statements (6 kinds over    *)
(* two registers) per node x <= 1 parameter; the worklist algorithm of BasicReachDef.run runs as actions and its *)
(* fixpoint must equal the path-based definition.                                                              *)
EXTENDS ReachDef
CONSTANTS NN, MaxS
VARIABLES E, code, params, R, A, work, ud
vars == <<E, code, params, R, A, work, ud>>
N == 1..NN
Stmt == { <<1, {}>>, <<1, {2}>>, <<2, {1}>>, <<0, {1}>>, <<0, {1, 2}>>, <<1, {1}>> }
SeqsUpTo(S, n) == UNION {[1..k -> S] : k \in 0..n}
RECURSIVE ReachFrom(_, _, _)
ReachFrom(front, seen, EE) == LET nxt == {e[2] : e \in {x \in EE : x[1] \in front}} \ seen
                              IN IF nxt = {} THEN seen ELSE ReachFrom(nxt, seen \cup nxt, EE)
RECURSIVE SetToSeq(_)
SetToSeq(S) == IF S = {} THEN <<>> ELSE LET x == CHOOSE y \in S : TRUE IN <<x>> \o SetToSeq(S \ {x})
\* node 0 = the dummy entry holding the parameters
AllDefLocs(r) == UNION {{Loc(code, k, j) : j \in Defs(code, k, r)} : k \in N}
ParamLocs(r) == {0 - p : p \in {q \in 1..Len(params) : params[q] = r}}
DefToLoc(r) == AllDefLocs(r) \cup ParamLocs(r)
DB(k) == {Loc(code, k, LastDef(code, k, r)) : r \in {x \in 1..2 : ~Clean(code, k, x)}}
Init == /\ E \in SUBSET (N \X N) /\ ReachFrom({1}, {1}, E) = N
        /\ \E c \in [N -> SeqsUpTo(Stmt, MaxS)] : code = WithLocs(c, N)
        /\ params \in {<<>>, <<1>>, <<2>>}
        /\ R = [k \in N |-> {}]
        /\ A = [k \in 0..NN |-> IF k = 0 THEN {0 - p : p \in 1..Len(params)} ELSE {}]
        /\ work = [i \in 1..NN |-> i]                    \* graph.rpo order; any order reaches the same fixpoint
        /\ ud = {}
PredsOf(k) == Pred(E, k) \cup (IF k = 1 THEN {0} ELSE {})
Step == /\ work # <<>>
        /\ LET k == Head(work)
               newR == UNION {A[p] : p \in PredsOf(k)}
               R2 == IF newR # {} /\ newR # R[k] THEN newR ELSE R[k]
               killed == UNION {DefToLoc(r) : r \in {x \in 1..2 : ~Clean(code, k, x)}}
               newA == (R2 \ killed) \cup DB(k)
               changed == (R2 # R[k]) \/ (newA # A[k])
               rest == Tail(work)
               add == IF changed THEN {s \in Succ(E, k) : \A i \in 1..Len(rest) : rest[i] # s} ELSE {}
           IN /\ R' = [R EXCEPT ![k] = R2]
              /\ A' = [A EXCEPT ![k] = newA]
              /\ work' = rest \o SetToSeq(add)
        /\ UNCHANGED <<E, code, params, ud>>
\* build_def_use: read the chains off the fixpoint
Finish == /\ work = <<>> /\ ud = {}
          /\ ud' = UNION {UNION {UNION {
                     {<<r, Loc(code, k, j), d>> :
                        d \in (LET prior == {i \in Defs(code, k, r) : i < j} IN
                               IF prior # {} THEN {Loc(code, k, CHOOSE i \in prior : \A x \in prior : x <= i)}
                               ELSE DefToLoc(r) \cap R[k])}
                     : r \in code[k][j][2] \cap Regs(code, N, params)} : j \in 1..Len(code[k])} : k \in N}
             \cup {<<0, 0, 0>>}                        \* marker: chains built
          /\ UNCHANGED <<E, code, params, R, A, work>>
Next == Step \/ Finish
Spec == Init /\ [][Next]_vars /\ WF_vars(Next)
Built == <<0, 0, 0>> \in ud
WorklistEqualsPaths == Built => (ud \ {<<0, 0, 0>>}) = PathUD(E, code, N, params)
Terminates == <>Built
=============================================================================
