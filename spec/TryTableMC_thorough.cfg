SPECIFICATION Spec
CONSTANTS
  MaxTries = 3
  MaxHandlers = 2
INVARIANT Aligned
INVARIANT OffsOK
INVARIANT ReportOK
CHECK_DEADLOCK FALSE
