SPECIFICATION Spec
CONSTANTS
  MaxUnits = 2
  MaxText = 5
INVARIANT RoundTrip
INVARIANT Total
INVARIANT Spot
CHECK_DEADLOCK FALSE
