------------------------------ MODULE V1VerifyMC ------------------------------
(* The universe of signature blocks for C32: one or two signer infos, each intact or altered in one way, over an     *)
(* intact or altered .SF, with four certificate bags, two digest algorithms, with and without signed attributes.     *)
EXTENDS Naturals, Sequences, FiniteSets, TLC
CONSTANTS MaxSigners, Algs
VARIABLES b, pc, k, cert, result
C1 == [issuer |-> "i1", serial |-> 1, key |-> "k1"]
C2 == [issuer |-> "i2", serial |-> 2, key |-> "k2"]
C1b == [issuer |-> "i1", serial |-> 1, key |-> "k3"]       \* another certificate with the issuer and serial number of C1
Bags == {<<C1>>, <<C1, C2>>, <<C2, C1>>, <<C1b, C1>>}
Absent == <<"absent", "">>
NoAttrs == [present |-> FALSE, ctype |-> "", digest |-> <<"", "">>, order |-> ""]
A(ctype, digest) == [present |-> TRUE, ctype |-> ctype, digest |-> digest, order |-> "der"]
Over(a, sf) == IF a.present THEN [kind |-> "attrs", sf |-> "", attrs |-> a] ELSE [kind |-> "sf", sf |-> sf, attrs |-> NoAttrs]
SI(sid, alg, a, key, signed) == [sid |-> sid, alg |-> alg, attrs |-> a, sig |-> [key |-> key, over |-> Over(signed, "sf0")]]
Tampers == {"none", "sig", "sid_serial", "sid_other", "attr_digest", "attr_digest_resigned", "attr_ctype_resigned", "attr_noctype_resigned", "attr_nodigest_resigned", "signed_by_other", "attr_reordered", "attr_reordered_signed"}
\* the signer info a signer holding k1 produced for .SF "sf0", then altered as named
Signer(t, alg, withAttrs) ==
  LET good == IF withAttrs THEN A("data", <<alg, "sf0">>) ELSE NoAttrs
      id1 == <<"i1", 1>>
  IN CASE t = "none" -> SI(id1, alg, good, "k1", good)
       [] t = "sig" -> SI(id1, alg, good, "garbage", good)
       [] t = "sid_serial" -> SI(<<"i1", 9>>, alg, good, "k1", good)
       [] t = "sid_other" -> SI(<<"i2", 2>>, alg, good, "k1", good)
       [] t = "signed_by_other" -> SI(id1, alg, good, "k2", good)
       [] t = "attr_digest" -> SI(id1, alg, A("data", <<alg, "sf1">>), "k1", good)
       [] t = "attr_digest_resigned" -> SI(id1, alg, A("data", <<alg, "sf1">>), "k1", A("data", <<alg, "sf1">>))
       [] t = "attr_ctype_resigned" -> SI(id1, alg, A("other", <<alg, "sf0">>), "k1", A("other", <<alg, "sf0">>))
       [] t = "attr_noctype_resigned" -> SI(id1, alg, A("absent", <<alg, "sf0">>), "k1", A("absent", <<alg, "sf0">>))
       [] t = "attr_reordered" -> SI(id1, alg, [good EXCEPT !.order = "swapped"], "k1", good)                                   \* same attributes, stored in another order
       [] t = "attr_reordered_signed" -> SI(id1, alg, [good EXCEPT !.order = "swapped"], "k1", [good EXCEPT !.order = "swapped"])   \* signed in that order: verifies
       [] t = "attr_nodigest_resigned" -> SI(id1, alg, A("data", Absent), "k1", A("data", Absent))
Applicable(t, withAttrs) == withAttrs \/ t \in {"none", "sig", "sid_serial", "sid_other", "signed_by_other"}
SignerLists(alg, wa) == LET T == {t \in Tampers : Applicable(t, wa)} IN
  {<<Signer(t, alg, wa)>> : t \in T} \cup (IF MaxSigners < 2 THEN {} ELSE {<<Signer(t, alg, wa), Signer(u, alg, wa2)>> : t \in T, u \in {"none", "sig", "sid_serial"}, wa2 \in BOOLEAN})
Blocks == {[sf |-> sf, certs |-> bag, sis |-> sis, minsdk |-> m] :
             sf \in {"sf0", "sf1"}, bag \in Bags, m \in {21, 24}, sis \in UNION {SignerLists(alg, wa) : alg \in Algs, wa \in BOOLEAN}}
CONSTANT Variant
V == INSTANCE V1Verify
Spec == V!Spec
ReportedVerifies == V!ReportedVerifies
IntactReported == V!IntactReported
Terminates == V!Terminates
=============================================================================
