SPECIFICATION MCSpec
CONSTANT Rich = TRUE
INVARIANT ParsesToTheDocument
PROPERTY CursorAdvances
PROPERTY Terminates
CHECK_DEADLOCK FALSE
