SPECIFICATION Spec
CONSTANTS
 MaxPairs = 1
 MaxHist = 1
 DupLoads = TRUE
 V31NeedsV3 = FALSE
 FirstOnly = TRUE
INVARIANT AnswersAsEncoded
INVARIANT RoundTrip
INVARIANT FirstBlockWins
CHECK_DEADLOCK FALSE
