------------------------------ MODULE CleanName ------------------------------
(* Portable file names (C38).  A file name is run-length encoded: Seq(<<class, length>>) with character        *)
(* classes "reserved" (one of the characters forbidden on Windows), "control" (U+0000..U+001F), "sep" (slash     *)
(* or backslash), "space", "dot", "plain".  The property is a conjunction of predicates on the cleaned name;     *)
(* RefClean is a reference cleaner showing that the predicates are jointly satisfiable for every input.          *)
EXTENDS Naturals, Integers, Sequences, FiniteSets, TLC
MAXLEN == 230
Bad == {"reserved", "control", "sep"}
RECURSIVE Total(_)
Total(runs) == IF runs = <<>> THEN 0 ELSE Head(runs)[2] + Total(Tail(runs))
NonEmptyRuns(runs) == SelectSeq(runs, LAMBDA r : r[2] > 0)
NoBadChars(runs) == \A i \in 1..Len(runs) : runs[i][2] = 0 \/ runs[i][1] \notin Bad
EndOK(runs) == LET ne == NonEmptyRuns(runs) IN ne = <<>> \/ ne[Len(ne)][1] \notin {"space", "dot"}
LenOK(runs) == Total(runs) <= MAXLEN
Portable(runs) == NoBadChars(runs) /\ EndOK(runs) /\ LenOK(runs)

(* ---- reference cleaner: replace bad characters, cut to MAXLEN, then repair the end ---- *)
Replace(runs) == [i \in 1..Len(runs) |-> IF runs[i][1] \in Bad THEN <<"plain", runs[i][2]>> ELSE runs[i]]
RECURSIVE Cut(_, _)
Cut(runs, n) == IF runs = <<>> \/ n = 0 THEN <<>>
                ELSE IF Head(runs)[2] <= n THEN <<Head(runs)>> \o Cut(Tail(runs), n - Head(runs)[2])
                ELSE << <<Head(runs)[1], n>> >>
FixEnd(runs) == LET ne == NonEmptyRuns(runs) IN
                IF ne = <<>> \/ ne[Len(ne)][1] \notin {"space", "dot"} THEN ne
                ELSE LET last == ne[Len(ne)] IN
                     SubSeq(ne, 1, Len(ne) - 1) \o (IF last[2] > 1 THEN << <<last[1], last[2] - 1>> >> ELSE <<>>) \o << <<"plain", 1>> >>
RefClean(runs) == FixEnd(Cut(Replace(runs), MAXLEN))
=============================================================================
