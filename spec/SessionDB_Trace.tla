--------------------------- MODULE SessionDB_Trace ---------------------------
(* C->S for C36: real processes create Session objects on one SQLite file under an imposed schedule; the harness  *)
(* wraps dataset's row count and insert of table 'session' with barriers and logs                                 *)
(*   begin | {p, act: "count", val} | {p, act: "insert", id, ok} | {p, act: "end", ok, sid} | finish              *)
(* The model's table is advanced with every event; counts and insert outcomes must be explained by it, and at     *)
(* `finish` the property itself is evaluated: every session created, identifiers pairwise distinct.               *)
EXTENDS Naturals, Integers, Sequences, FiniteSets, TLC, Json, IOUtils, TLCExt
Tr == ndJsonDeserialize(IOEnv.TRACE_FILE)
VARIABLES l, rows, seen, ended
Reject(w) == PrintT(<<"REJECT", l, w>>)
Init == l = 1 /\ rows = {} /\ seen = <<>> /\ ended = <<>>
Next == /\ l <= Len(Tr) /\ l' = l + 1
        /\ LET r == Tr[l] IN
           CASE r.act = "begin" -> rows' = {} /\ seen' = [p \in 1..r.n |-> -1] /\ ended' = [p \in 1..r.n |-> <<FALSE, FALSE, -1>>]
             [] r.act = "count" -> /\ (IF r.val = Cardinality(rows) THEN TRUE ELSE Reject({"model.count-equals-number-of-rows"}))
                                   /\ seen' = [seen EXCEPT ![r.p] = r.val] /\ UNCHANGED <<rows, ended>>
             [] r.act = "insert" -> /\ (IF r.ok = (r.id \notin rows) THEN TRUE ELSE Reject({"model.insert-fails-iff-key-exists"}))
                                    /\ rows' = (IF r.ok THEN rows \cup {r.id} ELSE rows) /\ UNCHANGED <<seen, ended>>
             [] r.act = "end" -> ended' = [ended EXCEPT ![r.p] = <<TRUE, r.ok, r.sid>>] /\ UNCHANGED <<rows, seen>>
             [] r.act = "finish" ->
                  /\ LET P == DOMAIN ended
                         bad == (IF \A p \in P : ended[p][1] /\ ended[p][2] THEN {} ELSE {"C36.every-session-is-created"})
                                \cup (IF \A p, q \in P : (p # q /\ ended[p][2] /\ ended[q][2]) => ended[p][3] # ended[q][3] THEN {} ELSE {"C36.identifiers-are-distinct"})
                                \cup (IF \A p \in P : ended[p][2] => ended[p][3] \in rows THEN {} ELSE {"C36.identifier-is-a-row-of-the-table"})
                     IN IF bad = {} THEN TRUE ELSE Reject(bad)
                  /\ UNCHANGED <<rows, seen, ended>>
Spec == Init /\ [][Next]_<<l, rows, seen, ended>>
Accepted == TLCGet("stats").diameter - 1 = Len(Tr)
=============================================================================
