SPECIFICATION Spec
CONSTANT MaxActs = 1
INVARIANT CompletionIsQualified
INVARIANT TargetPositive
CHECK_DEADLOCK FALSE
