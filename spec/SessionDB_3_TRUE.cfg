SPECIFICATION Spec
CONSTANTS
  Proc = {1, 2, 3}
  Retry = TRUE
INVARIANT AllCreated
INVARIANT DistinctIds
INVARIANT IdsAreRows
PROPERTY EveryoneFinishes
CHECK_DEADLOCK FALSE
