----------------------------- MODULE AccessFlags -----------------------------
(* Extension X01 (beyond the listed properties): the access_flags bit field of classes, fields and methods as the      *)
(* DEX format defines it, and the words it is rendered with.  A bit means different things for different kinds         *)
(* (0x40 volatile / bridge, 0x80 transient / varargs); bits not defined for a kind have no name.                        *)
EXTENDS Naturals, Sequences, FiniteSets, Bitwise, TLC
Kinds == {"class", "field", "method"}
\* <<bit, name, kinds>> in ascending bit order
Table == << <<1, "public", Kinds>>, <<2, "private", Kinds>>, <<4, "protected", Kinds>>, <<8, "static", Kinds>>, <<16, "final", Kinds>>,
            <<32, "synchronized", {"method"}>>, <<64, "volatile", {"field"}>>, <<64, "bridge", {"method"}>>,
            <<128, "transient", {"field"}>>, <<128, "varargs", {"method"}>>, <<256, "native", {"method"}>>, <<512, "interface", {"class"}>>,
            <<1024, "abstract", {"class", "method"}>>, <<2048, "strictfp", {"method"}>>, <<4096, "synthetic", Kinds>>,
            <<8192, "annotation", {"class"}>>, <<16384, "enum", {"class", "field"}>>, <<65536, "constructor", {"method"}>>,
            <<131072, "synchronized", {"method"}>> >>          \* declared-synchronized
RECURSIVE WordsFrom(_, _, _)
WordsFrom(kind, value, ix) == IF ix > Len(Table) THEN <<>>
                              ELSE (IF (value & Table[ix][1]) # 0 /\ kind \in Table[ix][3] THEN <<Table[ix][2]>> ELSE <<>>) \o WordsFrom(kind, value, ix + 1)
Words(kind, value) == WordsFrom(kind, value, 1)
Defined(kind) == {Table[ix][1] : ix \in {jx \in 1..Len(Table) : kind \in Table[jx][3]}}
\* bounded universe: every single defined bit, every pair of defined bits, and the combinations compilers emit
VARIABLES kind, value, words
RECURSIVE SumSet(_)
SumSet(bits) == IF bits = {} THEN 0 ELSE LET b == CHOOSE x \in bits : TRUE IN b + SumSet(bits \ {b})
Init == /\ kind \in Kinds
        /\ value \in {SumSet(sb) : sb \in {s \in SUBSET Defined(kind) : Cardinality(s) <= 2}} \cup {25, 4121, 1537, 9729, 16409, 65537, 4168, 196609}
        /\ words = Words(kind, value)
Next == UNCHANGED <<kind, value, words>>
Spec == Init /\ [][Next]_<<kind, value, words>>
OneWordPerDefinedBit == Len(words) = Cardinality({b \in Defined(kind) : (value & b) # 0})
=============================================================================
