SPECIFICATION Spec
CONSTANT AASet <- AllAA
INVARIANT RoundTrip
INVARIANT Shape
INVARIANT UnusedSet
CHECK_DEADLOCK FALSE
