SPECIFICATION Spec
CONSTANT MaxOps = 3
INVARIANT SetDetermined
CHECK_DEADLOCK FALSE
