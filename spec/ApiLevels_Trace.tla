--------------------------- MODULE ApiLevels_Trace ---------------------------
(* C->S for C39: one record per load: which resource, the available level files, the requested level (also     *)
(* passed as a string when asstr), the default level, and the set of levels whose file content equals the        *)
(* data that was returned.                                                                                      *)
EXTENDS Naturals, Integers, Sequences, FiniteSets, TLC, Json, IOUtils, TLCExt
Tr == ndJsonDeserialize(IOEnv.TRACE_FILE)
VARIABLE l
A == INSTANCE ApiLevels WITH Universe <- {}, Requests <- {}, levels <- {}, req <- 0, cur <- 0, hops <- 0
Range(s) == {s[i] : i \in 1..Len(s)}
Failing(r) ==
  LET want == IF r.kind = "permissions" THEN A!Pick(Range(r.levels), r.req) ELSE A!PickMapping(Range(r.levels), r.req, r.default) IN
  IF want \in Range(r.got) THEN {} ELSE {"C39." \o r.kind \o "-" \o r.api}
Init == l = 1
Next == /\ l <= Len(Tr)
        /\ LET f == Failing(Tr[l]) IN IF f = {} THEN TRUE ELSE PrintT(<<"REJECT", l, f>>)
        /\ l' = l + 1
Spec == Init /\ [][Next]_l
Accepted == TLCGet("stats").diameter - 1 = Len(Tr)
=============================================================================
