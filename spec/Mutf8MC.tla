------------------------------ MODULE Mutf8MC ------------------------------
(* (1) strings of <= MaxLen code units over boundary units: Dec(Enc(s)) = s, no NUL byte inside, and the     *)
(*     decoder as a byte-wise transition system reaches exactly s.                                           *)
(* (2) the 128-byte chunked scan for the terminating NUL (read_null_terminated_string) as a transition       *)
(*     system over an abstract file: length FileLen, string start, first NUL at z.                           *)
EXTENDS Mutf8
CONSTANTS MaxLen, Units, FileLen, Chunk
VARIABLES mode, us, bs, pos, out, start, z, acc, done

vars == <<mode, us, bs, pos, out, start, z, acc, done>>
BoundaryUnits == {0, 1, 127, 128, 2047, 2048, 55295, 55296, 56319, 56320, 57343, 57344, 65535}
SeqsUpTo(S, n) == UNION {[1..k -> S] : k \in 0..n}
Starts == {0, 1, 2, Chunk - 1, Chunk, Chunk + 1}

Init == \/ /\ mode = "dec" /\ us \in SeqsUpTo(Units, MaxLen) /\ bs = Enc(us) /\ pos = 0 /\ out = <<>>
           /\ start = 0 /\ z = 0 /\ acc = 0 /\ done = FALSE
        \/ /\ mode = "scan" /\ us = <<>> /\ bs = <<>> /\ out = <<>>
           /\ start \in Starts /\ z \in start..(FileLen - 1) /\ pos = start /\ acc = 0 /\ done = FALSE

\* one decoder step: consume one encoded code unit
DecStep == /\ mode = "dec" /\ ~done
           /\ IF pos >= Len(bs) THEN done' = TRUE /\ UNCHANGED <<pos, out>>
              ELSE LET n == SeqLen(bs[pos + 1]) IN
                   /\ n > 0
                   /\ out' = Append(out, Unit(bs, pos + 1, n)) /\ pos' = pos + n /\ done' = FALSE
           /\ UNCHANGED <<mode, us, bs, start, z, acc>>
\* one iteration of the scan loop: read up to Chunk bytes at pos; NUL inside => stop behind it, else keep everything
ScanStep == /\ mode = "scan" /\ ~done
            /\ LET n == IF FileLen - pos < Chunk THEN FileLen - pos ELSE Chunk IN
               IF z >= pos /\ z < pos + n
               THEN acc' = acc + (z - pos) /\ pos' = z + 1 /\ done' = TRUE
               ELSE acc' = acc + n /\ pos' = pos + n /\ done' = FALSE
            /\ UNCHANGED <<mode, us, bs, out, start, z>>
Next == DecStep \/ ScanStep
Spec == Init /\ [][Next]_vars /\ WF_vars(Next)

RoundTrip  == mode = "dec" => (Dec(bs) = us /\ NoNul(bs))
DecExact   == (mode = "dec" /\ done) => out = us
ScanExact  == (mode = "scan" /\ done) => (acc = z - start /\ pos = z + 1)
Terminates == <>done
=============================================================================
