-------------------------------- MODULE Xref --------------------------------
(* Cross-reference construction of the analysis over one or several DEX files (C13, C14, C15, C16) as a       *)
(* transition system shaped like Analysis.add / create_xref:                                                  *)
(*   Add(d)        registers the classes, methods (method hash table) and fields of DEX d                      *)
(*   XrefMethod(m) after all Adds, walks the xref-relevant instructions of one method                          *)
(* A program is a map  method -> Seq([op, cls, name])  over a small universe:                                  *)
(*   classes A, B (defined), X (never defined), array classes "[A", "[B", "[I";                                *)
(*   methods A.m, B.n (defined, carry code), A.zz, X.x, "[A".clone, "[I".clone (referenced only);             *)
(*   fields A.f, B.g (defined), X.h (referenced only); strings s1, s2.                                         *)
(* op in {"inv", "rd", "wr", "str", "new", "cls"}; invoke = 6 bytes, the others 4 bytes.                       *)
EXTENDS Naturals, Sequences, FiniteSets, TLC

Methods == {<<"A", "m">>, <<"B", "n">>}                  \* defined methods (keys <<class, name>>)
Fields  == {<<"A", "f">>, <<"B", "g">>}                  \* defined fields
Internal == {"A", "B"}
ClassOf(k) == k[1]
Elem(c) == IF c = "[A" THEN "A" ELSE IF c = "[B" THEN "B" ELSE c       \* element class of an array class
IsClassType(c) == c # "[I"                                               \* "[I" has no element class
Size(i) == IF i.op = "inv" THEN 6 ELSE 4
RECURSIVE OffOf(_, _)
OffOf(code, k) == IF k = 1 THEN 0 ELSE OffOf(code, k - 1) + Size(code[k - 1])
Ins(prog, m) == {<<prog[m][k], OffOf(prog[m], k)>> : k \in 1..Len(prog[m])}

(* ---- what the properties demand, by definition from the whole program (independent of split and order) ---- *)
Sel(prog, m, ops) == {q \in Ins(prog, m) : q[1].op \in ops}
Key(p) == <<p[1].cls, p[1].name>>
\* C13: callee edges <<caller, callee key, offset>>; the callee is the invoke's own (class, name)
Calls(prog)   == UNION {{<<m, Key(p), p[2]>> : p \in Sel(prog, m, {"inv"})} : m \in Methods}
External(k)   == k \notin Methods
CallGraph(prog) == {<<e[1], e[2]>> : e \in Calls(prog)}
\* C14: accesses of *defined* fields, recorded on the field: <<field key, method, offset>>
Reads(prog)   == UNION {{<<Key(p), m, p[2]>> : p \in {q \in Sel(prog, m, {"rd"}) : Key(q) \in Fields}} : m \in Methods}
Writes(prog)  == UNION {{<<Key(p), m, p[2]>> : p \in {q \in Sel(prog, m, {"wr"}) : Key(q) \in Fields}} : m \in Methods}
\* C15
StrRefs(prog) == UNION {{<<p[1].name, m, p[2]>> : p \in Sel(prog, m, {"str"})} : m \in Methods}
ClsRefs(prog, op) == UNION {{<<Elem(p[1].cls), m, p[2]>> :
                               p \in {q \in Sel(prog, m, {op}) : IsClassType(q[1].cls) /\ Elem(q[1].cls) # ClassOf(m)}} : m \in Methods}
NewRefs(prog)   == ClsRefs(prog, "new")
ConstRefs(prog) == ClsRefs(prog, "cls")
Canon(prog) == [calls |-> Calls(prog), reads |-> Reads(prog), writes |-> Writes(prog), strs |-> StrRefs(prog),
                news |-> NewRefs(prog), consts |-> ConstRefs(prog),
                stubs |-> {e[2] : e \in {c \in Calls(prog) : External(c[2])}}]

RECURSIVE SetToSeq(_)
SetToSeq(S) == IF S = {} THEN <<>> ELSE LET x == CHOOSE y \in S : TRUE IN <<x>> \o SetToSeq(S \ {x})

(* ---- the algorithm ---- *)
VARIABLES prog, dexes, pending, added, mhash, fhash, todo, st, phase
vars == <<prog, dexes, pending, added, mhash, fhash, todo, st, phase>>
\* dexes: sequence (add order) of sets of class names, a partition of Internal
MethodsOf(cs) == {m \in Methods : ClassOf(m) \in cs}
Empty == [calls |-> {}, reads |-> {}, writes |-> {}, strs |-> {}, news |-> {}, consts |-> {}, stubs |-> {}]

Add == /\ phase = "add" /\ pending # <<>>
       /\ LET d == Head(pending) IN
            /\ added' = added \cup d
            /\ mhash' = mhash \cup MethodsOf(d)
            /\ fhash' = fhash \cup {f \in Fields : ClassOf(f) \in d}
            /\ todo' = todo \o SetToSeq(MethodsOf(d))
       /\ pending' = Tail(pending)
       /\ UNCHANGED <<prog, dexes, st, phase>>
BeginXref == /\ phase = "add" /\ pending = <<>> /\ phase' = "xref" /\ UNCHANGED <<prog, dexes, pending, added, mhash, fhash, todo, st>>
Effect(s, m, p) ==
  LET i == p[1] off == p[2] k == <<i.cls, i.name>> IN
  CASE i.op = "inv" -> [s EXCEPT !.calls = @ \cup {<<m, k, off>>}, !.stubs = @ \cup (IF k \in mhash THEN {} ELSE {k})]
    [] i.op = "rd"  -> IF k \in fhash THEN [s EXCEPT !.reads = @ \cup {<<k, m, off>>}] ELSE s
    [] i.op = "wr"  -> IF k \in fhash THEN [s EXCEPT !.writes = @ \cup {<<k, m, off>>}] ELSE s
    [] i.op = "str" -> [s EXCEPT !.strs = @ \cup {<<i.name, m, off>>}]
    [] i.op \in {"new", "cls"} ->
         IF ~IsClassType(i.cls) \/ Elem(i.cls) = ClassOf(m) THEN s
         ELSE IF i.op = "new" THEN [s EXCEPT !.news = @ \cup {<<Elem(i.cls), m, off>>}]
              ELSE [s EXCEPT !.consts = @ \cup {<<Elem(i.cls), m, off>>}]
RECURSIVE Fold(_, _, _, _)
Fold(s, m, code, k) == IF k > Len(code) THEN s ELSE Fold(Effect(s, m, <<code[k], OffOf(code, k)>>), m, code, k + 1)
XrefMethod == /\ phase = "xref" /\ todo # <<>>
              /\ st' = Fold(st, Head(todo), prog[Head(todo)], 1)
              /\ todo' = Tail(todo)
              /\ UNCHANGED <<prog, dexes, pending, added, mhash, fhash, phase>>
Finish == /\ phase = "xref" /\ todo = <<>> /\ phase' = "done" /\ UNCHANGED <<prog, dexes, pending, added, mhash, fhash, todo, st>>
Next == Add \/ BeginXref \/ XrefMethod \/ Finish

(* ---- properties ---- *)
Done == phase = "done"
C13_CallsExact   == Done => (st.calls = Calls(prog) /\ st.stubs = Canon(prog).stubs)
C13_Symmetric    == Done => \A e \in st.calls : \E f \in st.calls : f = e          \* callers are read off the same edge set (mirror image by construction)
C14_FieldOwner   == Done => (st.reads = Reads(prog) /\ st.writes = Writes(prog))
C15_Exact        == Done => (st.strs = StrRefs(prog) /\ st.news = NewRefs(prog) /\ st.consts = ConstRefs(prog))
C16_OrderFree    == Done => st = Canon(prog)
Terminates       == <>Done
=============================================================================
