----------------------------- MODULE ApkFiles_Trace -----------------------------
(* C->S for C34: one record per generated archive: entry names (character codes) and what the APK object answered.  *)
EXTENDS Naturals, Sequences, FiniteSets, TLC, Json, IOUtils, TLCExt
Tr == ndJsonDeserialize(IOEnv.TRACE_FILE)
VARIABLE l
A == INSTANCE ApkFiles WITH names <- {}, dex <- {}, multi <- FALSE
Range(s) == {s[i] : i \in 1..Len(s)}
Check(n, ok) == IF ok THEN {} ELSE {n}
Failing(r) ==
  LET N == Range(r.names) IN
  Check("C34.listed-names-are-the-entries", Range(r.listed) = N /\ Len(r.listed) = Cardinality(N))
  \cup Check("C34.content-of-every-entry", r.content_ok)
  \cup Check("C34.missing-entry-raises-FileNotPresent", r.missing_ok)
  \cup Check("C34.dex-listing", Range(r.dexnames) = A!DexNames(N) /\ Len(r.dexnames) = Cardinality(A!DexNames(N)))
  \cup Check("C34.all-dex-contents", r.alldex_ok)
  \cup Check("C34.multidex-flag", r.multidex = A!Multidex(N))
Init == l = 1
Next == /\ l <= Len(Tr)
        /\ LET f == Failing(Tr[l]) IN IF f = {} THEN TRUE ELSE PrintT(<<"REJECT", l, f>>)
        /\ l' = l + 1
Spec == Init /\ [][Next]_l
Accepted == TLCGet("stats").diameter - 1 = Len(Tr)
=============================================================================
