SPECIFICATION Spec
CONSTANTS
 MaxSigners = 1
 Algs = {"sha256"}
 Variant = "ok"
INVARIANT ReportedVerifies
INVARIANT IntactReported
PROPERTY Terminates
CHECK_DEADLOCK FALSE
