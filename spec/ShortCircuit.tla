---------------------------- MODULE ShortCircuit ----------------------------
(* Merging chains of conditional branches into && / || / ! conditions (C25) as graph rewriting.               *)
(*   A graph G maps live condition nodes to [expr, t, f]: the node's condition and its true / false successor  *)
(*   (another condition node or an exit).  Expressions are shaped like the decompiler's objects:               *)
(*     leaf  [k |-> "leaf", v, neg]                      a single comparison, neg toggled by neg()             *)
(*     sc    [k |-> "sc", isand, isnot, c1, c2]          Condition(cond1, cond2, isand, isnot)                 *)
(*   NegExpr is Condition.neg / CondBlock.neg; Printed is what the writer emits (a set isnot flag negates cond1 *)
(*   while printing).  The four Merge rules are those of short_circuit_struct; NegNode is the writer's          *)
(*   "cond.neg(); swap true/false".  Property: the exit reached for every truth assignment never changes.      *)
EXTENDS Naturals, Sequences, FiniteSets, TLC
CONSTANTS K, Exits                     \* condition nodes 1..K, exits (integers > K)
Conds == 1..K
Leaf(v) == [k |-> "leaf", v |-> v, neg |-> FALSE]
SC(a, n, c1, c2) == [k |-> "sc", isand |-> a, isnot |-> n, c1 |-> c1, c2 |-> c2]

RECURSIVE NegExpr(_)
NegExpr(e) == IF e.k = "leaf" THEN [e EXCEPT !.neg = ~@]
              ELSE [e EXCEPT !.isand = ~@, !.c1 = NegExpr(@), !.c2 = NegExpr(@)]
\* the expression as printed: <<"var", v, negated>> | <<"and"|"or", left, right>>
RECURSIVE Printed(_)
Printed(e) == IF e.k = "leaf" THEN <<"var", e.v, e.neg>>
              ELSE <<(IF e.isand THEN "and" ELSE "or"), Printed(IF e.isnot THEN NegExpr(e.c1) ELSE e.c1), Printed(e.c2)>>
RECURSIVE EvalP(_, _)
EvalP(p, asg) == IF p[1] = "var" THEN (asg[p[2]] # p[3])
                 ELSE IF p[1] = "and" THEN EvalP(p[2], asg) /\ EvalP(p[3], asg)
                 ELSE EvalP(p[2], asg) \/ EvalP(p[3], asg)
Val(e, asg) == EvalP(Printed(e), asg)

RECURSIVE Route(_, _, _, _)
Route(G, n, asg, fuel) == IF n \in Exits THEN n
                          ELSE IF fuel = 0 THEN 0                                  \* 0 = does not leave the conditions
                          ELSE Route(G, (IF Val(G[n].expr, asg) THEN G[n].t ELSE G[n].f), asg, fuel - 1)
Assignments == [Conds -> BOOLEAN]
Behaviour(G, entry) == [asg \in Assignments |-> Route(G, entry, asg, K + 1)]

VARIABLES G, entry, G0
vars == <<G, entry, G0>>
Live == DOMAIN G
Preds(n) == {m \in Live : G[m].t = n \/ G[m].f = n}
IsCond(n) == n \in Live

\* all chain graphs: successors of node i are later nodes or exits; every node reachable from node 1
RECURSIVE Reach(_, _)
Reach(g, S) == LET more == (UNION {{g[n].t, g[n].f} : n \in S \cap Conds}) \ S IN IF more = {} THEN S ELSE Reach(g, S \cup more)
Init == /\ G \in {g \in [Conds -> [expr : {Leaf(0)}, t : Conds \cup Exits, f : Conds \cup Exits]] :
                     /\ \A i \in Conds : (g[i].t \in Conds => g[i].t > i) /\ (g[i].f \in Conds => g[i].f > i)
                     /\ Conds \subseteq Reach(g, {1})}
        /\ entry = 1 /\ G0 = G
\* leaves are numbered after Init (the record set above cannot depend on i)
Cond(n) == IF G[n].expr = Leaf(0) THEN Leaf(n) ELSE G[n].expr
Norm(g) == [n \in DOMAIN g |-> [g[n] EXCEPT !.expr = IF @ = Leaf(0) THEN Leaf(n) ELSE @]]

Merge(node, other, isand, isnot, newT, newF) ==
  /\ G' = [n \in Live \ {other} |-> IF n = node THEN [expr |-> SC(isand, isnot, Cond(node), Cond(other)), t |-> newT, f |-> newF] ELSE G[n]]
  /\ UNCHANGED <<entry, G0>>
MergeRules ==
  \E node \in Live :
    LET then == G[node].t els == G[node].f IN
    /\ node # then /\ node # els
    /\ \/ /\ IsCond(then) /\ Preds(then) = {node} /\ node \notin {G[then].t, G[then].f}
          /\ \/ G[then].f = els /\ Merge(node, then, TRUE, FALSE, G[then].t, els)            \* node && then
             \/ G[then].t = els /\ Merge(node, then, FALSE, TRUE, els, G[then].f)            \* !node || then
       \/ /\ IsCond(els) /\ Preds(els) = {node} /\ node \notin {G[els].t, G[els].f}
          /\ \/ G[els].f = then /\ Merge(node, els, TRUE, TRUE, G[els].t, then)              \* !node && els
             \/ G[els].t = then /\ Merge(node, els, FALSE, FALSE, then, G[els].f)            \* node || els
\* the writer may negate a condition and swap its branches before printing it
NegNode == \E n \in Live : /\ G' = [G EXCEPT ![n] = [expr |-> NegExpr(Cond(n)), t |-> G[n].f, f |-> G[n].t]]
                           /\ UNCHANGED <<entry, G0>>
Next == MergeRules \/ NegNode
Spec == Init /\ [][Next]_vars

SameRouting == Behaviour(Norm(G), entry) = Behaviour(Norm(G0), entry)
NoLoop == \A asg \in Assignments : Route(Norm(G), entry, asg, K + 1) # 0
=============================================================================
