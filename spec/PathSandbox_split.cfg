SPECIFICATION Spec
CONSTANTS
  Mode = "split"
  Parts = {"a", "..", ".", "", "long"}
  MaxSegs = 4
INVARIANT StaysInside
CHECK_DEADLOCK FALSE
