-------------------------- MODULE ShortCircuit_Trace --------------------------
(* C->S for C25: one record per condition-chain graph given to the real short_circuit_struct + Writer:           *)
(*   k       number of original condition nodes (variables 1..k),  succ[i] = <<true, false>> successor of node i *)
(*           (a node number, or an exit >= 100)                                                                 *)
(*   merged  the condition nodes that exist afterwards: <<id, printed condition, true, false>> where the printed *)
(*           condition is the text the Writer emitted, parsed into <<"var", v, negated>> | <<"and"|"or", l, r>>  *)
(*           | <<"not", x>>, and true/false are ids of merged nodes or exits                                     *)
(*   entry   id of the merged node that contains node 1                                                         *)
(* The printed conditions must route every truth assignment to the exit the original chain reaches.             *)
EXTENDS Naturals, Sequences, FiniteSets, TLC, Json, IOUtils, TLCExt
Tr == ndJsonDeserialize(IOEnv.TRACE_FILE)
VARIABLE l
RECURSIVE Ev(_, _)
Ev(p, asg) == IF p[1] = "var" THEN (asg[p[2]] # p[3])
              ELSE IF p[1] = "not" THEN ~Ev(p[2], asg)
              ELSE IF p[1] = "and" THEN Ev(p[2], asg) /\ Ev(p[3], asg)
              ELSE Ev(p[2], asg) \/ Ev(p[3], asg)
RECURSIVE Orig(_, _, _, _)
Orig(r, n, asg, fuel) == IF n >= 100 THEN n ELSE IF fuel = 0 THEN 0 ELSE Orig(r, (IF asg[n] THEN r.succ[n][1] ELSE r.succ[n][2]), asg, fuel - 1)
NodeOf(r, id) == CHOOSE m \in {r.merged[i] : i \in 1..Len(r.merged)} : m[1] = id
RECURSIVE New(_, _, _, _)
New(r, id, asg, fuel) == IF id >= 100 THEN id ELSE IF fuel = 0 THEN 0
                         ELSE LET m == NodeOf(r, id) IN New(r, (IF Ev(m[2], asg) THEN m[3] ELSE m[4]), asg, fuel - 1)
Failing(r) == LET A == [1..r.k -> BOOLEAN]
                  bad == {asg \in A : Orig(r, 1, asg, r.k + 1) # New(r, r.entry, asg, r.k + 1)} IN
              IF bad = {} THEN {} ELSE {"C25.same-successor-for-every-assignment"}
Init == l = 1
Next == /\ l <= Len(Tr)
        /\ LET f == Failing(Tr[l]) IN IF f = {} THEN TRUE ELSE PrintT(<<"REJECT", l, f>>)
        /\ l' = l + 1
Spec == Init /\ [][Next]_l
Accepted == TLCGet("stats").diameter - 1 = Len(Tr)
=============================================================================
