SPECIFICATION Spec
CONSTANTS
  N = 3
  TryMode = "one"
  TryEnds = FALSE
INVARIANT ModelInDomain
INVARIANT C12
CHECK_DEADLOCK FALSE
