------------------------------ MODULE SessionStore ------------------------------
(* Extension X02 (beyond the listed properties): what a Session holds after a history of add / reset calls.            *)
(*   files: "D1", "D2" (DEX files with string sets Str["D1"], Str["D2"]),  "A" (an APK holding D1 and D2),  "B" (an APK  *)
(*   holding D1).  The session is a dictionary: one analysis per added APK (over all its DEX files) and one per DEX file   *)
(*   added on its own; adding a file again changes nothing; reset forgets everything.  The answers of the queries          *)
(*   depend on the *set* of files added since the last reset, not on the order of the calls.                               *)
EXTENDS Naturals, Sequences, FiniteSets, TLC
CONSTANTS MaxOps
Dex == {"D1", "D2"}
Apk == {"A", "B"}
Inside(a) == IF a = "A" THEN {"D1", "D2"} ELSE {"D1"}
\* strings of the generated DEX files (the harness builds them with exactly these many distinct strings, S12 of them shared)
NStr(d) == IF d = "D1" THEN 5 ELSE 6
Shared == 3
NStrApk(a) == IF a = "A" THEN NStr("D1") + NStr("D2") - Shared ELSE NStr("D1")
VARIABLES hist, added
vars == <<hist, added>>
Init == hist = <<>> /\ added = {}
Add(f) == Len(hist) < MaxOps /\ hist' = Append(hist, <<"add", f>>) /\ added' = added \cup {f}
Reset == Len(hist) < MaxOps /\ hist' = Append(hist, <<"reset", "">>) /\ added' = {}
Next == (\E f \in Dex \cup Apk : Add(f)) \/ Reset
Spec == Init /\ [][Next]_vars
\* the queries
IsOpen(S) == S # {}
DexFiles(S) == (S \cap Dex) \cup UNION {Inside(a) : a \in S \cap Apk}
Apks(S) == S \cap Apk
RECURSIVE Sum(_, _)
Sum(F(_), X) == IF X = {} THEN 0 ELSE LET x == CHOOSE y \in X : TRUE IN F(x) + Sum(F, X \ {x})
NbStrings(S) == Sum(NStrApk, S \cap Apk) + Sum(NStr, S \cap Dex)
\* a set-determined state: the same set of files reached by different histories is one state (checked by TLC through the variable added)
RECURSIVE AddedBy(_)
AddedBy(h) == IF h = <<>> THEN {} ELSE LET e == h[Len(h)] r == AddedBy(SubSeq(h, 1, Len(h) - 1)) IN IF e[1] = "reset" THEN {} ELSE r \cup {e[2]}
SetDetermined == added = AddedBy(hist)
=============================================================================
