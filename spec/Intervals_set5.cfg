SPECIFICATION Spec
CONSTANTS
  N = 5
  SortByNum = FALSE
INVARIANT Confluent
CHECK_DEADLOCK FALSE
