SPECIFICATION Spec
CONSTANTS
  MaxUnits = 3
  MaxText = 6
INVARIANT RoundTrip
INVARIANT Total
INVARIANT Spot
CHECK_DEADLOCK FALSE
