SPECIFICATION Spec
CONSTANTS
  N = 3
  TryMode = "one"
  TryEnds = TRUE
INVARIANT ModelInDomain
INVARIANT C10
INVARIANT C11
INVARIANT C12
INVARIANT C40
PROPERTY Terminates
CHECK_DEADLOCK FALSE
