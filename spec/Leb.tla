------------------------------- MODULE Leb -------------------------------
(* LEB128 as the DEX format defines it: 7 payload bits per byte, least significant group first, *)
(* bit 7 = "more bytes follow"; at most five bytes encode one 32-bit quantity.                  *)
(* 32-bit results are pairs of 16-bit limbs <<lo, hi>> (TLC integers are 32-bit signed).       *)
EXTENDS Naturals, Integers, Sequences, FiniteSets, TLC

Bit(b, k) == (b \div (2^k)) % 2

RECURSIVE PayloadBits(_)
PayloadBits(bs) == IF bs = <<>> THEN <<>>
                   ELSE [k \in 1..7 |-> Bit(Head(bs), k-1)] \o PayloadBits(Tail(bs))

Pad(bits, n, fill) == [i \in 1..n |-> IF i <= Len(bits) THEN bits[i] ELSE fill]

RECURSIVE BitsToNat(_, _, _)
BitsToNat(bits, from, to) == IF from > to THEN 0 ELSE bits[from] + 2 * BitsToNat(bits, from+1, to)

Limbs(b32) == <<BitsToNat(b32, 1, 16), BitsToNat(b32, 17, 32)>>
ToBits32(l) == [i \in 1..32 |-> IF i <= 16 THEN Bit(l[1], i-1) ELSE Bit(l[2], i-17)]

WellFormed(bs) == /\ Len(bs) \in 1..5
                  /\ \A i \in 1..Len(bs)-1 : bs[i] >= 128
                  /\ bs[Len(bs)] < 128

\* a fifth byte may only carry bits 28..31 (unsigned) or bits 28..31 plus their sign extension (signed)
InDomainU(bs) == Len(bs) < 5 \/ bs[5] <= 15
\* (fifth byte 8..15: bit 31 set by an unsigned-style encoding -- still a 32-bit quantity, negative as an int)
InDomainS(bs) == Len(bs) < 5 \/ bs[5] \in (0..15) \cup (120..127)

ULeb(bs) == Limbs(Pad(PayloadBits(bs), 32, 0))
SLeb(bs) == LET p == PayloadBits(bs) IN Limbs(Pad(p, 32, p[Len(p)]))
\* uleb128p1: the encoded value minus one; the only negative result is -1 (encoded as 0)
P1(bs)   == LET u == ULeb(bs) IN
            IF u = <<0, 0>> THEN [neg |-> TRUE, v |-> <<65535, 65535>>]
            ELSE [neg |-> FALSE, v |-> IF u[1] = 0 THEN <<65535, u[2] - 1>> ELSE <<u[1] - 1, u[2]>>]

\* second, arithmetic definition, usable below 2^28 (four bytes): sum of 7-bit digits
RECURSIVE Digits(_)
Digits(bs) == IF bs = <<>> THEN 0 ELSE (Head(bs) % 128) + 128 * Digits(Tail(bs))
NatLimbs(n) == <<n % 65536, n \div 65536>>

(* ---------- canonical encoders (shortest form) ---------- *)
RECURSIVE Groups(_, _, _)      \* bits i.. in groups of seven, n groups
Groups(bits, i, n) == IF n = 0 THEN <<>>
                      ELSE <<BitsToNat([k \in 1..7 |-> IF i + k - 1 <= Len(bits) THEN bits[i+k-1] ELSE bits[Len(bits)]], 1, 7)>>
                           \o Groups(bits, i + 7, n - 1)
WithCont(gs) == [i \in 1..Len(gs) |-> IF i < Len(gs) THEN gs[i] + 128 ELSE gs[i]]

HighBit(bits) == IF \E i \in 1..32 : bits[i] = 1 THEN CHOOSE i \in 1..32 : bits[i] = 1 /\ \A j \in (i+1)..32 : bits[j] = 0 ELSE 0
EncU(l) == LET bits == ToBits32(l) hb == HighBit(bits) n == IF hb = 0 THEN 1 ELSE (hb + 6) \div 7
           IN WithCont(Groups(Pad(bits, 35, 0), 1, n))
\* signed: smallest n such that bits 7n..32 all equal bit 7n (the sign bit of the last group)
FitsS(bits, n) == n = 5 \/ \A j \in (7*n)..32 : bits[j] = bits[32]
EncS(l) == LET bits == ToBits32(l) n == CHOOSE k \in 1..5 : FitsS(bits, k) /\ \A m \in 1..(k-1) : ~FitsS(bits, m)
           IN WithCont(Groups(Pad(bits, 35, bits[32]), 1, n))
=============================================================================
