----------------------------- MODULE TryTableMC -----------------------------
EXTENDS TryTable
CONSTANTS MaxTries, MaxHandlers
VARIABLES insns, tries, hs, exp

Addrs == {0, 3, 130}
Pairs == {<<t, a>> : t \in {1, 2}, a \in Addrs}
Typed == {<<>>} \cup {<<p>> : p \in Pairs} \cup {<<p, q>> : p \in {<<1, 0>>, <<2, 130>>}, q \in {<<2, 3>>, <<1, 130>>}}
Handler == {h \in [typed : Typed, all : {-1, 0, 130}] : Len(h.typed) > 0 \/ h.all >= 0}
SeqsFrom(S, lo, hi) == UNION {[1..k -> S] : k \in lo..hi}
\* small representative handler lists: every single handler, and pairs drawn from a 6-element subset
H6 == { [typed |-> <<>>, all |-> 0], [typed |-> << <<1, 3>> >>, all |-> -1], [typed |-> << <<2, 130>> >>, all |-> 130],
        [typed |-> << <<1, 0>>, <<2, 3>> >>, all |-> -1], [typed |-> << <<2, 130>>, <<1, 130>> >>, all |-> 3], [typed |-> <<>>, all |-> 130] }
HandlerLists == {<<h>> : h \in Handler} \cup (IF MaxHandlers >= 2 THEN {<<a, b>> : a \in H6, b \in H6} ELSE {})
Try(nh) == [start : {0, 1, 4}, count : {1, 2}, h : 1..nh]

Init == /\ insns \in {133, 134}
        /\ hs \in HandlerLists
        /\ tries \in SeqsFrom(Try(Len(hs)), 1, MaxTries)
        /\ exp = [rep |-> Report(tries, hs), hoff |-> HandlerOffs(hs), pad |-> Padding(insns)]
Next == UNCHANGED <<insns, tries, hs, exp>>
Spec == Init /\ [][Next]_<<insns, tries, hs, exp>>

Aligned    == TriesAt(insns) % 4 = 0
OffsOK     == LET o == HandlerOffs(hs) IN /\ o[1] = 1 /\ \A i \in 1..(Len(o) - 1) : o[i] < o[i + 1]
ReportOK   == /\ WellFormed(tries, hs) /\ Len(exp.rep) = Len(tries)
              /\ \A i \in 1..Len(tries) : exp.rep[i].hi - exp.rep[i].lo + 1 = 2 * tries[i].count /\ Len(exp.rep[i].hl) >= 1
=============================================================================
