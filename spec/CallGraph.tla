------------------------------- MODULE CallGraph -------------------------------
(* Extension X03 (not a listed property): Analysis.get_call_graph.                                                   *)
(* The call relation `calls` (caller, callee) is what the cross-references say (C13 decides those); a query selects   *)
(* a set of methods by its filters and may ask for isolated methods to be left out.  The graph of the query is        *)
(*    sources = selected methods (with no_isolated: only those that call something)                                   *)
(*    nodes   = sources and everything a source calls,   edges = the calls of the sources, each once.                 *)
(* The module is a transition system over queries (select one more method, toggle no_isolated) so that TLC checks     *)
(* the state invariants on every query and the action property that selecting more never removes anything.           *)
EXTENDS Naturals, FiniteSets, TLC

CONSTANTS Internal,      \* methods with code (may call)
          External       \* methods that are only called
Methods == Internal \cup External

Sources(c, s, ni) == {m \in s : ~ni \/ \E e \in c : e[1] = m}
Nodes(c, s, ni) == Sources(c, s, ni) \cup {e[2] : e \in {f \in c : f[1] \in Sources(c, s, ni)}}
Edges(c, s, ni) == {e \in c : e[1] \in s}

VARIABLES calls, selected, noIso
vars == <<calls, selected, noIso>>
Init == calls \in SUBSET (Internal \X Methods) /\ selected = {} /\ noIso \in BOOLEAN
Select(m) == m \notin selected /\ selected' = selected \cup {m} /\ UNCHANGED <<calls, noIso>>
Toggle == noIso' = ~noIso /\ UNCHANGED <<calls, selected>>
Next == (\E m \in Methods : Select(m)) \/ Toggle
Spec == Init /\ [][Next]_vars

N == Nodes(calls, selected, noIso)
E == Edges(calls, selected, noIso)
EdgesAreCalls == E \subseteq calls
EndpointsAreNodes == \A e \in E : e[1] \in N /\ e[2] \in N
\* every node is a selected method or is called by one
NodesJustified == \A x \in N : x \in selected \/ \E e \in E : e[2] = x
\* with no_isolated every node has an edge; without it every selected method is a node
NoIsolated == noIso => \A x \in N : \E e \in E : e[1] = x \/ e[2] = x
AllSelected == ~noIso => selected \subseteq N
\* the whole program: all methods selected, nothing left out -> the graph is the call relation
Whole == (selected = Methods /\ ~noIso) => (N = Methods /\ E = calls)
\* selecting one more method only adds nodes and edges
Monotone == [][(noIso' = noIso) => (N \subseteq Nodes(calls', selected', noIso') /\ E \subseteq Edges(calls', selected', noIso'))]_vars
=============================================================================
