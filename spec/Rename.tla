------------------------------- MODULE Rename -------------------------------
(* Renaming of classes, methods and fields (C17).                                                            *)
(*   RenameDict : the property -- a dictionary item -> current name; constants never change.                 *)
(*   RenameHook : shaped like the code -- ClassManager.hook_strings is keyed by *string id*, names are cached *)
(*                in the id items (MethodIdItem / FieldIdItem) and in the encoded items, and refreshed only   *)
(*                by reload(); a class rename reloads every method id item and the class' own members.        *)
(* Universe (realised as a generated DEX file by the harness):                                                *)
(*   1 A.foo() 2 B.foo() 3 A.foo:I 4 A.bar() 5 class A 6 class B 7 const-string "foo" 8 const-string "La/A;" *)
(*   string ids: "foo" is shared by 1, 2, 3, 7;  the descriptor of A is shared by 5 and 8.                    *)
(* Names are 0 (original) or a new-name index 1..NNames.                                                      *)
EXTENDS Naturals, Sequences, FiniteSets, TLC
CONSTANTS NNames, MaxOps
Items == 1..8
Kind(i) == CASE i \in {1, 2, 4} -> "method" [] i = 3 -> "field" [] i \in {5, 6} -> "class" [] i \in {7, 8} -> "const"
Sid(i)  == CASE i \in {1, 2, 3, 7} -> "foo" [] i = 4 -> "bar" [] i \in {5, 8} -> "A" [] i = 6 -> "B"
ClassOf(i) == CASE i \in {1, 3, 4} -> 5 [] i = 2 -> 6 [] OTHER -> 0
Renamable == {i \in Items : Kind(i) # "const"}
Strs == {"foo", "bar", "A", "B"}

VARIABLES hist, truth, hook, idc, enc
vars == <<hist, truth, hook, idc, enc>>
\* hist: Seq(<<op, item, name>>);  truth: dictionary;  hook: string id -> name;  idc / enc: id-item and encoded-item caches
Init == /\ hist = <<>> /\ truth = [i \in Items |-> 0]
        /\ hook = [s \in Strs |-> 0] /\ idc = [i \in Items |-> 0] /\ enc = [i \in Items |-> 0]

Look(h, i) == h[Sid(i)]
\* ---- the dictionary model (the property) ----
DictRename(i, n) == truth' = [truth EXCEPT ![i] = n]
\* ---- the hook model ----
HookRename(i, n) ==
  LET h2 == [hook EXCEPT ![Sid(i)] = n] IN
  /\ hook' = h2
  /\ IF Kind(i) = "class"
     THEN \* class_def.reload(); METHOD_ID_ITEM.reload() (every method id); reload of the class' own methods and fields
          /\ idc' = [j \in Items |-> IF Kind(j) = "method" THEN Look(h2, j) ELSE idc[j]]
          /\ enc' = [j \in Items |-> IF j = i THEN Look(h2, j)
                                     ELSE IF ClassOf(j) = i /\ Kind(j) = "method" THEN Look(h2, j)
                                     ELSE IF ClassOf(j) = i /\ Kind(j) = "field" THEN idc[j]
                                     ELSE enc[j]]
     ELSE \* the id item of i and the encoded item i are reloaded
          /\ idc' = [idc EXCEPT ![i] = Look(h2, i)]
          /\ enc' = [enc EXCEPT ![i] = Look(h2, i)]
HookReload(i) == /\ hook' = hook /\ idc' = idc
                 /\ enc' = [enc EXCEPT ![i] = IF Kind(i) = "class" THEN Look(hook, i) ELSE idc[i]]
Observe(i) == IF Kind(i) = "const" THEN Look(hook, i) ELSE enc[i]

Rename(i, n) == /\ Len(hist) < MaxOps /\ hist' = Append(hist, <<"rename", i, n>>) /\ DictRename(i, n) /\ HookRename(i, n)
Reload(i)    == /\ Len(hist) < MaxOps /\ hist' = Append(hist, <<"reload", i, 0>>) /\ UNCHANGED truth /\ HookReload(i)
Next == \/ \E i \in Renamable, n \in 0..NNames : Rename(i, n)          \* n = 0: renamed back to the original name
        \/ \E i \in Renamable : Reload(i)
Spec == Init /\ [][Next]_vars

(* ---- properties ---- *)
\* of the dictionary model (always hold): the truth is "last rename of that very item", constants keep their value
RECURSIVE LastRename(_, _)
LastRename(h, i) == IF h = <<>> THEN 0
                    ELSE LET e == h[Len(h)] IN IF e[1] = "rename" /\ e[2] = i THEN e[3] ELSE LastRename(SubSeq(h, 1, Len(h) - 1), i)
DictIsLastRename == \A i \in Items : truth[i] = LastRename(hist, i)
ConstantsUnchanged == \A i \in Items : Kind(i) = "const" => truth[i] = 0
\* refinement: what the hook-keyed implementation shows equals the dictionary -- EXPECTED TO FAIL (documented counterexample)
HookRefinesDict == \A i \in Items : Observe(i) = truth[i]
\* names that a shared string id may leak into item i (the recorded known deviation)
SharedNames(h, i) == {e[3] : e \in {h[k] : k \in {x \in 1..Len(h) : h[x][1] = "rename" /\ h[x][2] # i /\ Sid(h[x][2]) = Sid(i)}}}
HookOnlyLeaksSharedIds == \A i \in Items : Observe(i) = truth[i] \/ Observe(i) \in SharedNames(hist, i) \/ Observe(i) = 0
=============================================================================
