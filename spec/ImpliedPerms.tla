------------------------------ MODULE ImpliedPerms ------------------------------
(* Extension X04 (not a listed property): APK.get_uses_implied_permission_list.                                       *)
(* Android adds permissions to a package that did not ask for them:                                                     *)
(*   new permissions   : WRITE_EXTERNAL_STORAGE and READ_PHONE_STATE exist since API 4; a package targeting an older   *)
(*                       level gets them implicitly;                                                                    *)
(*   split permissions : a package holding the root (asked for or implicit) and targeting a level below the split       *)
(*                       gets the new one: WRITE_EXTERNAL_STORAGE -> READ_EXTERNAL_STORAGE (every level),               *)
(*                       READ_CONTACTS -> READ_CALL_LOG and WRITE_CONTACTS -> WRITE_CALL_LOG (below 16).                *)
(* The target level is the effective one (Manifest!EffectiveTarget: target, else min, else 1).                          *)
(* The module is the package parser's procedure (new permissions first, then the split rules one at a time in any        *)
(* order); TLC checks that every order ends in the closed form `Implied`, that nothing asked for is reported as         *)
(* implied, and that the result is closed under the rules.                                                               *)
EXTENDS Naturals, FiniteSets, TLC

WES == "WRITE_EXTERNAL_STORAGE"  RES == "READ_EXTERNAL_STORAGE"  RPS == "READ_PHONE_STATE"
RC == "READ_CONTACTS"  WC == "WRITE_CONTACTS"  RCL == "READ_CALL_LOG"  WCL == "WRITE_CALL_LOG"
Perms == {WES, RES, RPS, RC, WC, RCL, WCL}
NewPerms == {[perm |-> WES, since |-> 4], [perm |-> RPS, since |-> 4]}
Always == 10001
Splits == {[root |-> WES, new |-> RES, below |-> Always], [root |-> RC, new |-> RCL, below |-> 16], [root |-> WC, new |-> WCL, below |-> 16]}
Effective(target, minsdk) == IF target # 0 THEN target ELSE IF minsdk # 0 THEN minsdk ELSE 1

ImpliedNew(asked, t) == {n.perm : n \in {x \in NewPerms : t < x.since /\ x.perm \notin asked}}
Implied(asked, t) == LET held == asked \cup ImpliedNew(asked, t) IN
   ImpliedNew(asked, t) \cup {s.new : s \in {x \in Splits : t < x.below /\ x.root \in held /\ x.new \notin held}}

CONSTANTS Targets, Mins
VARIABLES asked, target, minsdk, pc, implicit, todo
vars == <<asked, target, minsdk, pc, implicit, todo>>
T == Effective(target, minsdk)
Init == asked \in SUBSET Perms /\ target \in Targets /\ minsdk \in Mins /\ pc = "new" /\ implicit = {} /\ todo = Splits
AddNew == /\ pc = "new"
          /\ implicit' = ImpliedNew(asked, T)
          /\ pc' = "split"
          /\ UNCHANGED <<asked, target, minsdk, todo>>
ApplySplit(s) == /\ pc = "split" /\ s \in todo
                 /\ todo' = todo \ {s}
                 /\ implicit' = IF T < s.below /\ s.root \in asked \cup implicit /\ s.new \notin asked \cup implicit THEN implicit \cup {s.new} ELSE implicit
                 /\ UNCHANGED <<asked, target, minsdk, pc>>
Finish == pc = "split" /\ todo = {} /\ pc' = "done" /\ UNCHANGED <<asked, target, minsdk, implicit, todo>>
Next == AddNew \/ (\E s \in Splits : ApplySplit(s)) \/ Finish
Spec == Init /\ [][Next]_vars /\ WF_vars(Next)

ClosedForm == pc = "done" => implicit = Implied(asked, T)
NeverAsked == implicit \cap asked = {}
Closed == pc = "done" => /\ \A n \in NewPerms : T < n.since => n.perm \in asked \cup implicit
                         /\ \A s \in Splits : (T < s.below /\ s.root \in asked \cup implicit) => s.new \in asked \cup implicit
Justified == \A p \in implicit : \/ \E n \in NewPerms : n.perm = p /\ T < n.since
                                 \/ \E s \in Splits : s.new = p /\ T < s.below /\ s.root \in asked \cup implicit
Grows == [][implicit \subseteq implicit']_vars
Terminates == <>(pc = "done")
=============================================================================
