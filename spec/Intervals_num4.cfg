SPECIFICATION Spec
CONSTANTS
  N = 4
  SortByNum = TRUE
INVARIANT Confluent
CHECK_DEADLOCK FALSE
