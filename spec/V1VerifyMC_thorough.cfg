SPECIFICATION Spec
CONSTANTS
 MaxSigners = 2
 Algs = {"sha1", "sha256"}
 Variant = "ok"
INVARIANT ReportedVerifies
INVARIANT IntactReported
PROPERTY Terminates
CHECK_DEADLOCK FALSE
