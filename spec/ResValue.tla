------------------------------- MODULE ResValue -------------------------------
(* How Android interprets a typed resource value (Res_value: dataType + 32-bit data), C27.                        *)
(* data is a pair of 16-bit limbs <<lo, hi>>.  Complex values (dimension, fraction) are exact dyadic rationals:    *)
(* mantissa = signed 24 bits (data bits 8..31), radix (bits 4..5) selects the shift 0 / 7 / 15 / 23, unit = bits 0..3, *)
(* value = mantissa * 2^-shift  (AOSP complex_to_float: (int32)(data & 0xffffff00) * {2^-8, 2^-15, 2^-23, 2^-31}). *)
EXTENDS Naturals, Integers, Sequences, FiniteSets, TLC
TYPE_REFERENCE == 1   TYPE_ATTRIBUTE == 2   TYPE_STRING == 3   TYPE_FLOAT == 4   TYPE_DIMENSION == 5   TYPE_FRACTION == 6
TYPE_INT_DEC == 16    TYPE_INT_HEX == 17    TYPE_INT_BOOLEAN == 18
ColorTypes == 28..31
Mant24(d) == d[2] * 256 + d[1] \div 256                       \* bits 8..31 as an unsigned 24-bit number
MantNeg(d) == Mant24(d) >= 8388608
MantAbs(d) == IF MantNeg(d) THEN 16777216 - Mant24(d) ELSE Mant24(d)
Shift(d) == LET r == (d[1] \div 16) % 4 IN CASE r = 0 -> 0 [] r = 1 -> 7 [] r = 2 -> 15 [] r = 3 -> 23
Unit(d) == d[1] % 16
DimUnits == <<"px", "dip", "sp", "pt", "in", "mm">>
FracUnits == <<"%", "%p">>
HexDigit(v) == IF v < 10 THEN 48 + v ELSE 55 + v                \* upper case
Hex4(x) == <<HexDigit(x \div 4096), HexDigit((x \div 256) % 16), HexDigit((x \div 16) % 16), HexDigit(x % 16)>>
Hex8(d) == Hex4(d[2]) \o Hex4(d[1])
IntNeg(d) == d[2] >= 32768
\* magnitude of the signed 32-bit value as limbs (two's complement negation on limbs)
IntAbs(d) == IF ~IntNeg(d) THEN d ELSE (IF d[1] = 0 THEN <<0, (65536 - d[2]) % 65536>> ELSE <<65536 - d[1], 65535 - d[2]>>)
AndroidPkg(d) == d[2] \div 256 = 1                              \* package id 0x01 = the framework
Chars(s) == s          \* strings are sequences of character codes in the trace; literal prefixes below as codes
Prefix(ch, d) == <<ch>> \o (IF AndroidPkg(d) THEN <<97, 110, 100, 114, 111, 105, 100, 58>> ELSE <<>>)   \* "android:"
\* exact text where the property fixes it
Text(t, d) == CASE t = TYPE_REFERENCE -> Prefix(64, d) \o Hex8(d)                    \* @[android:]XXXXXXXX
                [] t = TYPE_ATTRIBUTE -> Prefix(63, d) \o Hex8(d)                    \* ?[android:]XXXXXXXX
                [] t = TYPE_INT_HEX -> <<48, 120>> \o Hex8(d)                        \* 0xXXXXXXXX
                [] t = TYPE_INT_BOOLEAN -> IF d = <<0, 0>> THEN <<102, 97, 108, 115, 101>> ELSE <<116, 114, 117, 101>>
                [] t \in ColorTypes -> <<35>> \o Hex8(d)                             \* #XXXXXXXX
                [] OTHER -> <<>>
\* how far a printed decimal (six digits) scaled back by 2^shift may be from the mantissa
Tolerance(d) == 2 + (2 ^ Shift(d)) \div 500000
Abs(x) == IF x < 0 THEN 0 - x ELSE x
=============================================================================
