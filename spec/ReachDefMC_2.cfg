SPECIFICATION Spec
CONSTANTS
  NN = 2
  MaxS = 2
INVARIANT WorklistEqualsPaths
PROPERTY Terminates
CHECK_DEADLOCK FALSE
