SPECIFICATION Spec
CONSTANTS
  Universe <- SmallUniverse
  Requests <- SmallRequests
INVARIANT LoadsThePick
INVARIANT OneHop
INVARIANT PickIsAvailable
INVARIANT Monotone
PROPERTY Terminates
CHECK_DEADLOCK FALSE
