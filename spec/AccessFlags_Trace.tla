--------------------------- MODULE AccessFlags_Trace ---------------------------
(* C->S for extension X01: {kind, value, words}: the words androguard renders for an item of that kind.               *)
EXTENDS Naturals, Sequences, FiniteSets, TLC, Json, IOUtils, TLCExt
Tr == ndJsonDeserialize(IOEnv.TRACE_FILE)
VARIABLE l
A == INSTANCE AccessFlags WITH kind <- "", value <- 0, words <- <<>>
Failing(r) == IF r.words = A!Words(r.kind, r.value) THEN {} ELSE {"X01.flags-rendered-for-their-kind"}
Init == l = 1
Next == /\ l <= Len(Tr)
        /\ LET f == Failing(Tr[l]) IN IF f = {} THEN TRUE ELSE PrintT(<<"REJECT", l, f, A!Words(Tr[l].kind, Tr[l].value)>>)
        /\ l' = l + 1
Spec == Init /\ [][Next]_l
Accepted == TLCGet("stats").diameter - 1 = Len(Tr)
=============================================================================
