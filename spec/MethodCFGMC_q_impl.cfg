SPECIFICATION Spec
CONSTANTS
  N = 3
  TryMode = "one"
  TryEnds = FALSE
INVARIANT ModelInDomain
INVARIANT C10
INVARIANT C11
INVARIANT C40
PROPERTY Terminates
CHECK_DEADLOCK FALSE
