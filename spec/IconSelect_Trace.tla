--------------------------- MODULE IconSelect_Trace ---------------------------
(* C->S for extension X05: one record per get_app_icon call: the sources that name an icon, the densities of the icon  *)
(* resource in table order, max_dpi, and (read back from the file name returned) the source and density of the file;    *)
(* pick = -1 when None was returned.                                                                                    *)
EXTENDS Integers, Sequences, FiniteSets, TLC, Json, IOUtils, TLCExt
Tr == ndJsonDeserialize(IOEnv.TRACE_FILE)
VARIABLE l
S == INSTANCE IconSelect WITH Densities <- {}, MaxDpis <- {}, Orders <- {}, defined <- {}, cands <- <<>>, maxdpi <- 0, pc <- "", source <- "", i <- 0, cur <- 0, pick <- 0
Range(s) == {s[k] : k \in 1..Len(s)}
Check(name, ok) == IF ok THEN {} ELSE {name}
Failing(r) == LET a == S!Answer(Range(r.defined), r.cands, r.maxdpi) IN
   IF r.pick = -1 THEN Check("X05.no-file-only-when-none-fits", a[2] = -1)
   ELSE Check("X05.source", r.source = a[1]) \cup Check("X05.density", r.pick = a[2])
Init == l = 1
Next == /\ l <= Len(Tr)
        /\ LET f == Failing(Tr[l]) IN IF f = {} THEN TRUE ELSE PrintT(<<"REJECT", l, f, S!Answer(Range(Tr[l].defined), Tr[l].cands, Tr[l].maxdpi)>>)
        /\ l' = l + 1
Spec == Init /\ [][Next]_l
Accepted == TLCGet("stats").diameter - 1 = Len(Tr)
=============================================================================
