--------------------------- MODULE DexModel_Trace ---------------------------
(* C->S for C05: one record per generated DEX file of a random class model: the declared members (as ranks  *)
(* in the sorted string / type / proto tables), what the parser reported, and the results of the lookup     *)
(* helpers; the specification recomputes every expected set with DexModel's operators.                      *)
EXTENDS DexModel, Json, IOUtils, TLCExt
Tr == ndJsonDeserialize(IOEnv.TRACE_FILE)
VARIABLE l
Range(s) == {s[i] : i \in 1..Len(s)}
FSet(s) == {[cls |-> x[1], name |-> x[2], type |-> x[3], static |-> x[4], flags |-> x[5]] : x \in Range(s)}
MSet(s) == {[cls |-> x[1], name |-> x[2], proto |-> x[3], direct |-> x[4], code |-> x[5], flags |-> x[6]] : x \in Range(s)}

Expected(q, F, M) ==
  CASE q.k = "mclass" -> MethodsOfClass(q.a[1], M)
    [] q.k = "fclass" -> FieldsOfClass(q.a[1], F)
    [] q.k = "mname"  -> MethodsNamed(q.a[1], M)
    [] q.k = "fname"  -> FieldsNamed(q.a[1], F)
    [] q.k = "mdesc"  -> MethodByDescriptor(<<q.a[1], q.a[2], q.a[3]>>, M)
    [] q.k = "fdesc"  -> FieldByDescriptor(<<q.a[1], q.a[2], q.a[3]>>, F)

Failing(r) ==
  LET F == FSet(r.fields) M == MSet(r.methods) IN
  (IF WellFormed(F, M) THEN {} ELSE {"generator-model-wellformed"})
  \cup (IF Range(r.rep_fields) = ReportedFields(F) THEN {} ELSE {"fields-reported"})
  \cup (IF Range(r.rep_methods) = ReportedMethods(M) THEN {} ELSE {"methods-reported"})
  \cup (IF Len(r.rep_fields) = Cardinality(F) /\ Len(r.rep_methods) = Cardinality(M) THEN {} ELSE {"no-duplicates"})
  \cup {r.q[i].k : i \in {j \in 1..Len(r.q) : Range(r.q[j].r) # Expected(r.q[j], F, M) \/ Len(r.q[j].r) # Cardinality(Expected(r.q[j], F, M))}}

Init == l = 1
Next == /\ l <= Len(Tr)
        /\ LET f == Failing(Tr[l]) IN IF f = {} THEN TRUE ELSE PrintT(<<"REJECT", l, f>>)
        /\ l' = l + 1
Spec == Init /\ [][Next]_l
Accepted == TLCGet("stats").diameter - 1 = Len(Tr)
=============================================================================
