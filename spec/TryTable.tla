------------------------------ MODULE TryTable ------------------------------
(* try_item / encoded_catch_handler_list of a code_item, and the exception table a parser must report.       *)
(*   try     = [start, count, h]          start/count in code units, h = index (1-based) into the handler list *)
(*   handler = [typed |-> Seq(<<type, addr>>), all |-> -1 | addr]                                             *)
EXTENDS Naturals, Integers, Sequences, FiniteSets, TLC

ULebLen(v) == IF v < 128 THEN 1 ELSE IF v < 16384 THEN 2 ELSE IF v < 2097152 THEN 3 ELSE IF v < 268435456 THEN 4 ELSE 5
SLebLen(v) == IF v >= -64 /\ v < 64 THEN 1 ELSE IF v >= -8192 /\ v < 8192 THEN 2 ELSE 3
HasAll(h) == h.all >= 0
SizeField(h) == IF HasAll(h) THEN 0 - Len(h.typed) ELSE Len(h.typed)      \* sleb128: non-positive <=> catch-all follows

RECURSIVE PairBytes(_)
PairBytes(ps) == IF ps = <<>> THEN 0 ELSE ULebLen(Head(ps)[1]) + ULebLen(Head(ps)[2]) + PairBytes(Tail(ps))
HandlerBytes(h) == SLebLen(SizeField(h)) + PairBytes(h.typed) + (IF HasAll(h) THEN ULebLen(h.all) ELSE 0)
\* byte offset of every handler from the start of the encoded_catch_handler_list
RECURSIVE OffsFrom(_, _)
OffsFrom(hs, at) == IF hs = <<>> THEN <<>> ELSE <<at>> \o OffsFrom(Tail(hs), at + HandlerBytes(Head(hs)))
HandlerOffs(hs) == OffsFrom(hs, ULebLen(Len(hs)))

\* two bytes of padding make the tries four-byte aligned when the instruction count is odd
Padding(insns) == IF insns % 2 = 1 THEN 2 ELSE 0
TriesAt(insns) == 16 + 2 * insns + Padding(insns)                          \* from the start of the code_item

\* the reported table: one entry per try_item: inclusive byte range, ordered typed handlers, then the catch-all as Throwable (type 0)
Throwable == 0
Entry(t, hs) == LET h == hs[t.h] IN
   [lo |-> 2 * t.start, hi |-> 2 * (t.start + t.count) - 1,
    hl |-> [i \in 1..Len(h.typed) |-> <<h.typed[i][1], 2 * h.typed[i][2]>>] \o (IF HasAll(h) THEN << <<Throwable, 2 * h.all>> >> ELSE <<>>)]
Report(tries, hs) == [i \in 1..Len(tries) |-> Entry(tries[i], hs)]
WellFormed(tries, hs) == /\ \A i \in 1..Len(hs) : Len(hs[i].typed) > 0 \/ HasAll(hs[i])
                         /\ \A i \in 1..Len(tries) : tries[i].h \in 1..Len(hs) /\ tries[i].count > 0
=============================================================================
