------------------------------ MODULE ApiLevels ------------------------------
(* Fallback rule for API-level specific resources (C39).                                                       *)
EXTENDS Naturals, Integers, FiniteSets, TLC
Max(S) == CHOOSE x \in S : \A y \in S : y <= x
Min(S) == CHOOSE x \in S : \A y \in S : x <= y
\* permission data: the level itself, else the highest available below it, else (outside the range) the lowest / highest
Pick(levels, req) == IF req \in levels THEN req
                     ELSE IF req > Max(levels) THEN Max(levels)
                     ELSE IF req < Min(levels) THEN Min(levels)
                     ELSE Max({l \in levels : l < req})
\* permission mappings: the level itself, else the default level
PickMapping(levels, req, default) == IF req \in levels THEN req ELSE default

(* the loader as the code runs it: a chain of re-requests (load_permissions calls itself with the replacement level) *)
CONSTANTS Universe, Requests
VARIABLES levels, req, cur, hops
Init == /\ levels \in (SUBSET Universe) \ {{}} /\ req \in Requests /\ cur = req /\ hops = 0
Hop == /\ cur \notin levels
       /\ cur' = (IF cur > Max(levels) THEN Max(levels) ELSE IF cur < Min(levels) THEN Min(levels) ELSE Max({l \in levels : l < cur}))
       /\ hops' = hops + 1 /\ UNCHANGED <<levels, req>>
Next == Hop
Spec == Init /\ [][Next]_<<levels, req, cur, hops>> /\ WF_<<levels, req, cur, hops>>(Hop)
Loaded == cur \in levels
LoadsThePick == Loaded => cur = Pick(levels, req)
OneHop == hops <= 1
PickIsAvailable == Pick(levels, req) \in levels
Monotone == \A r2 \in Requests : (r2 <= req) => Pick(levels, r2) <= Pick(levels, req)
Terminates == <>Loaded
SmallUniverse == 1..8
SmallRequests == (0 - 2)..10
=============================================================================
