----------------------------- MODULE LinearSweep -----------------------------
(* Linear-sweep disassembly of a code array (non-ODEX) as a transition system: one Step per loop iteration  *)
(* of LinearSweepAlgorithm.get_instructions.  `code` is a sequence of 16-bit code units, `idx` the cursor   *)
(* (in units), `out` the emitted instructions <<offset, length>> (units), status in {"run","done","invalid"}.*)
EXTENDS DalvikFormat

IsPayloadIdent(x) == x \in {256, 512, 768}          \* 0x0100 packed-switch, 0x0200 sparse-switch, 0x0300 fill-array-data
At(code, i) == code[i + 1]                            \* unit at 0-based index
Has(code, i, n) == i + n <= Len(code)

\* size of a payload in code units, from its header (header must be inside the code)
HeaderUnits(id) == IF id = 768 THEN 4 ELSE 2
PayloadUnits(code, i) ==
  LET id == At(code, i) IN
  CASE id = 256 -> 4 + 2 * At(code, i + 1)
    [] id = 512 -> 2 + 4 * At(code, i + 1)
    [] id = 768 -> LET w == At(code, i + 1) lo == At(code, i + 2) hi == At(code, i + 3) IN
                   \* (size * width + 1) \div 2 + 4 with size = lo + 65536 * hi; SmallFill (below) guarantees w = 0 or hi = 0 here
                   IF w = 0 THEN 4 ELSE 4 + (lo * w + 1) \div 2

\* guard against 32-bit overflow in TLC: a fill-array payload that could fit has size*width <= 2 * Len(code)
SmallFill(code, i) == LET w == At(code, i + 1) lo == At(code, i + 2) hi == At(code, i + 3) IN
                      w = 0 \/ (hi = 0 /\ (lo = 0 \/ (w <= 2 * Len(code) /\ lo <= 2 * Len(code))))
FitsPayload(code, i) == /\ Has(code, i, HeaderUnits(At(code, i)))
                        /\ (At(code, i) = 768 => SmallFill(code, i))
                        /\ Has(code, i, PayloadUnits(code, i))

\* first units for which the documents leave the outcome open: a format with a "00" high byte whose high byte is not zero
\* or a 35c/45cc argument count above 5
Ambiguous(x) == /\ ~IsPayloadIdent(x) /\ ~Unused(x % 256)
                /\ \/ ZeroAA(Fmt(x % 256)) /\ x \div 256 # 0
                   \/ Fmt(x % 256) \in {"35c", "45cc"} /\ x \div 4096 > 5

\* the instruction that may be emitted at cursor i has n units
CanEmit(code, i, n) ==
  LET x == At(code, i) IN
  IF IsPayloadIdent(x) THEN FitsPayload(code, i) /\ n = PayloadUnits(code, i)
  ELSE ~Unused(x % 256) /\ n = Units(x % 256) /\ Has(code, i, n)
\* sweeping may stop with "invalid instruction" at cursor i
CanInvalid(code, i) ==
  LET x == At(code, i) IN
  IF IsPayloadIdent(x) THEN ~FitsPayload(code, i)
  ELSE Unused(x % 256) \/ ~Has(code, i, Units(x % 256)) \/ Ambiguous(x)
MustEmit(code, i) == ~CanInvalid(code, i)

VARIABLES code, idx, out, status
vars == <<code, idx, out, status>>

Step == /\ status = "run"
        /\ IF idx >= Len(code)
           THEN status' = "done" /\ UNCHANGED <<code, idx, out>>
           ELSE \/ \E n \in 1..(Len(code) - idx) :
                      /\ CanEmit(code, idx, n) /\ ~Ambiguous(At(code, idx))
                      /\ out' = Append(out, <<idx, n>>) /\ idx' = idx + n /\ UNCHANGED <<code, status>>
                \/ /\ CanInvalid(code, idx) /\ status' = "invalid" /\ UNCHANGED <<code, idx, out>>

(* ---- properties (C02) ---- *)
Ends(o) == o[1] + o[2]
Inside      == \A k \in 1..Len(out) : Ends(out[k]) <= Len(code)
Tiling      == /\ (Len(out) > 0 => out[1][1] = 0)
               /\ \A k \in 1..(Len(out) - 1) : Ends(out[k]) = out[k + 1][1]
               /\ (status = "done" => (IF Len(out) = 0 THEN Len(code) = 0 ELSE Ends(out[Len(out)]) = Len(code)))
CursorRight == idx = (IF Len(out) = 0 THEN 0 ELSE Ends(out[Len(out)]))
Progress    == [][idx' >= idx /\ (out' # out => idx' > idx)]_vars
Terminates  == <>(status # "run")
=============================================================================
