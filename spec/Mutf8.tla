------------------------------- MODULE Mutf8 -------------------------------
(* Modified UTF-8 as the DEX format defines it: every UTF-16 code unit is encoded on its own (1, 2 or 3     *)
(* bytes), U+0000 as C0 80, supplementary characters as two 3-byte surrogates; no 4-byte forms.             *)
EXTENDS Naturals, Integers, Sequences, FiniteSets, TLC

Enc1(u) == IF u = 0 THEN <<192, 128>>
           ELSE IF u < 128 THEN <<u>>
           ELSE IF u < 2048 THEN <<192 + u \div 64, 128 + (u % 64)>>
           ELSE <<224 + u \div 4096, 128 + ((u \div 64) % 64), 128 + (u % 64)>>
RECURSIVE Enc(_)
Enc(us) == IF us = <<>> THEN <<>> ELSE Enc1(Head(us)) \o Enc(Tail(us))

\* length of the sequence introduced by lead byte b (0 = not a lead byte of MUTF-8)
SeqLen(b) == IF b < 128 THEN 1 ELSE IF b >= 192 /\ b < 224 THEN 2 ELSE IF b >= 224 /\ b < 240 THEN 3 ELSE 0
Cont(b) == b >= 128 /\ b < 192
Unit(bs, i, n) == IF n = 1 THEN bs[i]
                  ELSE IF n = 2 THEN (bs[i] % 32) * 64 + (bs[i+1] % 64)
                  ELSE (bs[i] % 16) * 4096 + (bs[i+1] % 64) * 64 + (bs[i+2] % 64)
\* decoding as iteration over the bytes; <<-1>> marks malformed input
RECURSIVE DecFrom(_, _)
DecFrom(bs, i) == IF i > Len(bs) THEN <<>>
                  ELSE LET n == SeqLen(bs[i]) IN
                       IF n = 0 \/ i + n - 1 > Len(bs) \/ \E k \in 1..(n-1) : ~Cont(bs[i+k]) THEN <<-1>>
                       ELSE <<Unit(bs, i, n)>> \o DecFrom(bs, i + n)
Dec(bs) == DecFrom(bs, 1)
NoNul(bs) == \A i \in 1..Len(bs) : bs[i] # 0
=============================================================================
