---------------------------- MODULE LebReader ----------------------------
(* Bounded instance: the LEB128 reader as a transition system (one action per byte, as readuleb128 /      *)
(* readsleb128 proceed), enumerating byte sequences and boundary values; the invariants are the C03      *)
(* statements on the model, and every state is a replayable case for the implementation (-dump).         *)
EXTENDS Leb
CONSTANTS ByteAll, ByteEdge, Vals      \* enumeration bounds: bytes for lengths 1..2, boundary bytes for 3..5, limb pairs for encoders
VARIABLES kind, bs, pos, acc, done, val

vars == <<kind, bs, pos, acc, done, val>>

Last(k, len) == IF len < 5 THEN {b \in ByteEdge : b < 128}
                ELSE IF k = "u" THEN 0..15 ELSE (0..15) \cup (120..127)
Inputs(k) == {<<b>> : b \in {x \in ByteAll : x < 128}}
             \cup {<<a, b>> : a \in {x \in ByteAll : x >= 128}, b \in {x \in ByteAll : x < 128}}
             \cup UNION {{c \o <<z>> : c \in [1..(n-1) -> {x \in ByteEdge : x >= 128}], z \in Last(k, n)} : n \in 3..5}

Init == /\ kind \in {"u", "s", "eu", "es"}
        /\ IF kind \in {"u", "s"} THEN bs \in Inputs(kind) /\ val = <<0, 0>>
           ELSE val \in Vals /\ bs = (IF kind = "eu" THEN EncU(val) ELSE EncS(val))
        /\ pos = 0 /\ acc = <<>> /\ done = FALSE

ReadByte == /\ ~done /\ pos < Len(bs)
            /\ pos' = pos + 1
            /\ acc' = acc \o [k \in 1..7 |-> Bit(bs[pos+1], k-1)]
            /\ done' = (bs[pos+1] < 128)
            /\ UNCHANGED <<kind, bs, val>>
Next == ReadByte
Spec == Init /\ [][Next]_vars /\ WF_vars(Next)

Signed == kind \in {"s", "es"}
Result == IF Signed THEN Limbs(Pad(acc, 32, acc[Len(acc)])) ELSE Limbs(Pad(acc, 32, 0))
Expected == IF Signed THEN SLeb(bs) ELSE ULeb(bs)

TypeOK      == WellFormed(bs) /\ pos \in 0..Len(bs)
ReaderExact == done => (pos = Len(bs) /\ Result = Expected)
TwoDefs     == (kind = "u" /\ Len(bs) <= 4) => ULeb(bs) = NatLimbs(Digits(bs))
RoundTrip   == kind \in {"eu", "es"} => (WellFormed(bs) /\ Expected = val /\ (kind = "eu" => InDomainU(bs)) /\ (kind = "es" => InDomainS(bs)))
\* canonical = no shorter well-formed sequence of the same kind denotes the same value
Minimal     == (kind \in {"eu", "es"} /\ Len(bs) > 1) =>
                  LET shorter == WithCont([i \in 1..(Len(bs)-1) |-> bs[i] % 128])
                  IN (IF Signed THEN SLeb(shorter) ELSE ULeb(shorter)) # val
Terminates  == <>done


\* enumeration bounds used by the .cfg files (cfg syntax has no tuples)
BoundaryVals ==
  { <<0,0>>, <<1,0>>, <<63,0>>, <<64,0>>, <<127,0>>, <<128,0>>, <<8191,0>>, <<8192,0>>, <<16383,0>>, <<16384,0>>,
    <<65535,0>>, <<0,1>>, <<65535,15>>, <<0,16>>, <<65535,31>>, <<0,32>>, <<65535,2047>>, <<0,2048>>, <<65535,4095>>, <<0,4096>>,
    <<65535,32767>>, <<0,32768>>, <<65535,65535>>, <<65534,65535>>, <<65472,65535>>, <<65471,65535>>, <<57344,65535>>, <<57343,65535>>,
    <<0,65520>>, <<65535,65519>>, <<0,63488>>, <<65535,63487>>, <<1,32768>>, <<0,49152>>, <<21845,21845>>, <<43690,43690>> }
AllBytes == 0..255
=============================================================================
