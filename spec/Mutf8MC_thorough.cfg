SPECIFICATION Spec
CONSTANTS
  MaxLen = 3
  Units <- BoundaryUnits
  FileLen = 520
  Chunk = 128
INVARIANT RoundTrip
INVARIANT DecExact
INVARIANT ScanExact
PROPERTY Terminates
CHECK_DEADLOCK FALSE
