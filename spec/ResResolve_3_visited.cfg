SPECIFICATION Spec
CONSTANTS
  Ids = {1, 2, 3}
  Strs = {"a", "b"}
  Guard = "visited"
  WithBags = TRUE
INVARIANT ReturnsReachable
INVARIANT Bounded
PROPERTY Terminates
CHECK_DEADLOCK FALSE
