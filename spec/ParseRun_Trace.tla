----------------------------- MODULE ParseRun_Trace -----------------------------
(* C->S for C35: one record per parser run on one input: parser, input size, work done (call events) and how the run  *)
(* ended: "result" | "error" (both are fine) | "budget" (aborted by the harness at the budget) | "timeout" | "died".  *)
(* The work bound is linear in the input size: every loop of the parsers (NullTerm, ResHeader, ChunkWalk) consumes     *)
(* input or ends, so the work per input byte is bounded; the constants leave three orders of magnitude above what      *)
(* intact files need (1-5 call events per byte).                                                                       *)
EXTENDS Naturals, Sequences, FiniteSets, TLC, Json, IOUtils, TLCExt
Tr == ndJsonDeserialize(IOEnv.TRACE_FILE)
VARIABLE l
Base(p) == IF p = "apk" THEN 900000 ELSE IF p = "dex" THEN 400000 ELSE 200000
PerByte(p) == IF p \in {"apk", "dex"} THEN 4000 ELSE 2000
Budget(p, size) == Base(p) + PerByte(p) * size
Check(n, ok) == IF ok THEN {} ELSE {n}
Failing(r) == Check("C35.finishes-with-result-or-error", r.outcome \in {"result", "error"})
              \cup Check("C35.work-bounded-by-input-size", r.outcome \notin {"result", "error"} \/ r.calls <= Budget(r.parser, r.size))
Init == l = 1
Next == /\ l <= Len(Tr)
        /\ LET f == Failing(Tr[l]) IN IF f = {} THEN TRUE ELSE PrintT(<<"REJECT", l, f>>)
        /\ l' = l + 1
Spec == Init /\ [][Next]_l
Accepted == TLCGet("stats").diameter - 1 = Len(Tr)
=============================================================================
