SPECIFICATION Spec
CONSTANTS
 MaxPairs = 2
 MaxHist = 1
 DupLoads = TRUE
 V31NeedsV3 = TRUE
 FirstOnly = FALSE
INVARIANT AnswersAsEncoded
INVARIANT RoundTrip
INVARIANT FirstBlockWins
CHECK_DEADLOCK FALSE
