------------------------------ MODULE Intervals ------------------------------
(* The part of the decompiler's loop structuring in which set-iteration order is observable (C22):              *)
(* interval partition of the control-flow graph, Interval.compute_end, the derived (interval) graph and the     *)
(* latch assigned to second-level loops.  compute_end keeps the *last* node of the interval (in the iteration    *)
(* order of a Python set of objects hashed by identity) that has a successor outside the interval, so its        *)
(* result is modelled as a nondeterministic choice among the candidates; Outcomes collects the latch maps of     *)
(* all choices.  Determinism of the decompiler requires Outcomes to be a singleton for every graph.              *)
(* With SortByNum = TRUE compute_end iterates in reverse-post-order number (the repaired implementation).        *)
EXTENDS Naturals, Sequences, FiniteSets, TLC
CONSTANTS N, SortByNum
Nodes == 1..N
Succ(E, n) == {e[2] : e \in {x \in E : x[1] = n}}
Pred(E, n) == {e[1] : e \in {x \in E : x[2] = n}}
AscSeq(S) == [i \in 1..Cardinality(S) |-> CHOOSE x \in S : Cardinality({y \in S : y < x}) = i - 1]

(* ---- reverse post-order numbers: depth-first search taking successors in increasing order ---- *)
RECURSIVE DfsFrom(_, _, _), FoldS(_, _, _, _)
FoldS(E, ss, vis, acc) == IF ss = <<>> THEN <<vis, acc>>
                          ELSE IF Head(ss) \in vis THEN FoldS(E, Tail(ss), vis, acc)
                          ELSE LET r == DfsFrom(E, Head(ss), vis) IN FoldS(E, Tail(ss), r[1], acc \o r[2])
DfsFrom(E, n, vis) == LET r == FoldS(E, AscSeq(Succ(E, n)), vis \cup {n}, <<>>) IN <<r[1], r[2] \o <<n>>>>
PostOrder(E) == DfsFrom(E, 1, {})[2]
Num(E) == LET po == PostOrder(E) IN [n \in Nodes |-> Len(po) + 1 - (CHOOSE i \in 1..Len(po) : po[i] = n)]

(* ---- interval partition (heads processed first-in first-out, as control_flow.intervals does) ---- *)
RECURSIVE Grow(_, _)
Grow(E, I) == LET more == {n \in Nodes \ I : n # 1 /\ Pred(E, n) # {} /\ Pred(E, n) \subseteq I} IN IF more = {} THEN I ELSE Grow(E, I \cup more)
\* returns the sequence of <<head, interval, heads recorded as successors while processing it>>.
\* As in the code, a node is appended to the queue (and recorded as a successor) unless it is *currently queued*;
\* an already processed head is queued again and skipped when popped, which is how back edges between intervals get recorded.
RECURSIVE Partition(_, _, _, _)
Partition(E, queue, processed, acc) ==
  IF queue = <<>> THEN acc
  ELSE LET h == Head(queue) rest == Tail(queue) IN
       IF h \in processed THEN Partition(E, rest, processed, acc)
       ELSE LET I == Grow(E, {h})
                queued == {rest[i] : i \in 1..Len(rest)}
                fresh == {n \in Nodes \ I : n \notin queued /\ Pred(E, n) \cap I # {}}
            IN Partition(E, rest \o AscSeq(fresh), processed \cup {h}, Append(acc, <<h, I, fresh>>))
Parts(E) == Partition(E, <<1>>, {}, <<>>)
IntervalOf(P, n) == CHOOSE k \in 1..Len(P) : n \in P[k][2]
\* nodes of an interval with a successor outside of it: compute_end keeps one of them (or the head if there is none)
ExitNodes(E, I) == {n \in I : Succ(E, n) \ I # {}}

(* ---- derived graph: one node per interval (named by its index), edges recorded when a new head is discovered ---- *)
IntervalOfHead(P, h) == CHOOSE j \in 1..Len(P) : P[j][1] = h
DerivedEdges(P) == UNION {{<<k, IntervalOfHead(P, h)>> : h \in P[k][3]} : k \in 1..Len(P)}

\* second level: intervals of the derived graph (its node 1 is the interval of the entry)
RECURSIVE Grow2(_, _, _)
Grow2(E2, M, I) == LET more == {n \in (1..M) \ I : n # 1 /\ {e[1] : e \in {x \in E2 : x[2] = n}} # {} /\ {e[1] : e \in {x \in E2 : x[2] = n}} \subseteq I}
                   IN IF more = {} THEN I ELSE Grow2(E2, M, I \cup more)
RECURSIVE Partition2(_, _, _, _, _)
Partition2(E2, M, queue, processed, acc) ==
  IF queue = <<>> THEN acc
  ELSE LET h == Head(queue) rest == Tail(queue) IN
       IF h \in processed THEN Partition2(E2, M, rest, processed, acc)
       ELSE LET I == Grow2(E2, M, {h})
                queued == {rest[i] : i \in 1..Len(rest)}
                fresh == {n \in (1..M) \ I : n \notin queued /\ {e[1] : e \in {x \in E2 : x[2] = n}} \cap I # {}}
            IN Partition2(E2, M, rest \o AscSeq(fresh), processed \cup {h}, Append(acc, <<h, I>>))

(* ---- latches of the loops visible at the second level: a back edge P -> H between two first-level intervals of ---- *)
(* ---- the same second-level interval makes  end(P)  the latch of the loop headed by the head block of H        ---- *)
Level2Loops(E) ==
  LET P == Parts(E) M == Len(P) E2 == DerivedEdges(P)
      P2 == Partition2(E2, M, <<1>>, {}, <<>>)
      same(a, b) == \E k \in 1..Len(P2) : a \in P2[k][2] /\ b \in P2[k][2]
      heads2 == {P2[k][1] : k \in 1..Len(P2)}
  IN {<<H, Q>> : H \in heads2, Q \in 1..M} \cap {e2 \in {<<x[2], x[1]>> : x \in E2} : same(e2[1], e2[2])}
\* the possible ends of first-level interval k
Ends(E, P, k) == LET c == ExitNodes(E, P[k][2]) num == Num(E) IN
                 IF c = {} THEN {P[k][1]}
                 ELSE IF SortByNum THEN {CHOOSE n \in c : \A m \in c : num[m] <= num[n]}      \* the last one in number order
                 ELSE c                                                                        \* any: set iteration order
Outcomes(E) ==
  LET P == Parts(E) loops == Level2Loops(E)
      choices == [1..Len(P) -> Nodes]
      ok(ch) == \A k \in 1..Len(P) : ch[k] \in Ends(E, P, k)
  IN {{<<P[l[1]][1], ch[l[2]]>> : l \in loops} : ch \in {c \in choices : ok(c)}}

VARIABLES E, outcomes
Rooted(EE) == LET R == DfsFrom(EE, 1, {})[1] IN R = Nodes
Init == /\ E \in SUBSET (Nodes \X Nodes)
        /\ \A n \in Nodes : Cardinality(Succ(E, n)) <= 2
        /\ Rooted(E)
        /\ outcomes = Outcomes(E)
Next == UNCHANGED <<E, outcomes>>
Spec == Init /\ [][Next]_<<E, outcomes>>
Confluent == Cardinality(outcomes) = 1
=============================================================================
