---------------------------- MODULE DalvikFormat ----------------------------
(* What a Dalvik instruction *is*, per the "Dalvik bytecode" and "instruction formats" documents:           *)
(* length, mnemonic, registers, literal (sign-extended to its semantic width, high16 forms shifted),       *)
(* branch offset (signed), pool indices (unsigned), and the inverse (Encode).                              *)
(* Code units are integers 0..65535; 32/64-bit quantities are little-endian sequences of 16-bit limbs.     *)
EXTENDS Naturals, Integers, Sequences, FiniteSets, TLC, DalvikTable

Op(u)  == u[1] % 256
AA(u)  == u[1] \div 256
NibA(u) == AA(u) % 16          \* bits 8..11
NibB(u) == AA(u) \div 16       \* bits 12..15
Fmt(op)  == FmtSeq[op + 1]
Mnem(op) == MnemSeq[op + 1]
RefKind(op) == RefSeq[op + 1]
FlowKind(op) == KindSeq[op + 1]
Unused(op) == Fmt(op) = ""
FmtUnits(f) == CASE f \in {"10x", "12x", "11n", "11x", "10t"} -> 1
                 [] f \in {"20t", "22x", "21t", "21s", "21h", "21c", "23x", "22b", "22t", "22s", "22c"} -> 2
                 [] f \in {"30t", "32x", "31i", "31t", "31c", "35c", "3rc"} -> 3
                 [] f \in {"45cc", "4rcc"} -> 4
                 [] f = "51l" -> 5
                 [] OTHER -> 0            \* unused opcode: no length
Units(op) == FmtUnits(Fmt(op))

WideLit(op) == Mnem(op) \in {"const-wide/16", "const-wide/32", "const-wide", "const-wide/high16"}

\* sign-extend the low `bits` (<= 16) of v to n limbs
Sext(v, bits, n) == LET neg == v >= 2^(bits-1)
                        lo == IF neg THEN v + (65536 - 2^bits) ELSE v
                    IN [i \in 1..n |-> IF i = 1 THEN lo ELSE IF neg THEN 65535 ELSE 0]
\* sign-extend a 32-bit value <<lo, hi>> to n limbs
Sext32(lo, hi, n) == [i \in 1..n |-> IF i = 1 THEN lo ELSE IF i = 2 THEN hi ELSE IF hi >= 32768 THEN 65535 ELSE 0]
IsNeg(l) == l # <<>> /\ l[Len(l)] >= 32768
LitLimbs(op) == IF WideLit(op) THEN 4 ELSE 2

None == <<>>
Rec(op, regs, lit, off, idx, idx2) ==
  [len |-> Units(op), name |-> Mnem(op), regs |-> regs, lit |-> lit, off |-> off, idx |-> idx, idx2 |-> idx2]

Nib(x, k) == (x \div (16^k)) % 16
RegList35(u) == LET all == <<Nib(u[3], 0), Nib(u[3], 1), Nib(u[3], 2), Nib(u[3], 3), NibA(u)>>
                IN SubSeq(all, 1, IF NibB(u) <= 5 THEN NibB(u) ELSE 5)   \* count > 5 is outside the format (CountOK)
RegRange(first, count) == [i \in 1..count |-> first + i - 1]

\* arguments of 35c/45cc: count in the high nibble must be 0..5
CountOK(u) == Fmt(Op(u)) \in {"35c", "45cc"} => NibB(u) <= 5
\* formats whose first unit's high byte is "00" in the format table
ZeroAA(f) == f \in {"10x", "20t", "30t", "32x"}

Decode(u) ==
  LET op == Op(u) f == Fmt(op) n == LitLimbs(op) IN
  CASE f = "10x" -> Rec(op, <<>>, None, None, None, None)
    [] f = "12x" -> Rec(op, <<NibA(u), NibB(u)>>, None, None, None, None)
    [] f = "11n" -> Rec(op, <<NibA(u)>>, Sext(NibB(u), 4, 2), None, None, None)
    [] f = "11x" -> Rec(op, <<AA(u)>>, None, None, None, None)
    [] f = "10t" -> Rec(op, <<>>, None, Sext(AA(u), 8, 2), None, None)
    [] f = "20t" -> Rec(op, <<>>, None, Sext(u[2], 16, 2), None, None)
    [] f = "30t" -> Rec(op, <<>>, None, <<u[2], u[3]>>, None, None)
    [] f = "22x" -> Rec(op, <<AA(u), u[2]>>, None, None, None, None)
    [] f = "32x" -> Rec(op, <<u[2], u[3]>>, None, None, None, None)
    [] f = "21t" -> Rec(op, <<AA(u)>>, None, Sext(u[2], 16, 2), None, None)
    [] f = "21s" -> Rec(op, <<AA(u)>>, Sext(u[2], 16, n), None, None, None)
    [] f = "21h" -> Rec(op, <<AA(u)>>, [i \in 1..n |-> IF i = n THEN u[2] ELSE 0], None, None, None)
    [] f = "21c" -> Rec(op, <<AA(u)>>, None, None, <<u[2], 0>>, None)
    [] f = "23x" -> Rec(op, <<AA(u), u[2] % 256, u[2] \div 256>>, None, None, None, None)
    [] f = "22b" -> Rec(op, <<AA(u), u[2] % 256>>, Sext(u[2] \div 256, 8, 2), None, None, None)
    [] f = "22t" -> Rec(op, <<NibA(u), NibB(u)>>, None, Sext(u[2], 16, 2), None, None)
    [] f = "22s" -> Rec(op, <<NibA(u), NibB(u)>>, Sext(u[2], 16, 2), None, None, None)
    [] f = "22c" -> Rec(op, <<NibA(u), NibB(u)>>, None, None, <<u[2], 0>>, None)
    [] f = "31i" -> Rec(op, <<AA(u)>>, Sext32(u[2], u[3], n), None, None, None)
    [] f = "31t" -> Rec(op, <<AA(u)>>, None, <<u[2], u[3]>>, None, None)
    [] f = "31c" -> Rec(op, <<AA(u)>>, None, None, <<u[2], u[3]>>, None)
    [] f = "35c" -> Rec(op, RegList35(u), None, None, <<u[2], 0>>, None)
    [] f = "3rc" -> Rec(op, RegRange(u[3], AA(u)), None, None, <<u[2], 0>>, None)
    [] f = "45cc" -> Rec(op, RegList35(u), None, None, <<u[2], 0>>, <<u[4], 0>>)
    [] f = "4rcc" -> Rec(op, RegRange(u[3], AA(u)), None, None, <<u[2], 0>>, <<u[4], 0>>)
    [] f = "51l" -> Rec(op, <<AA(u)>>, <<u[2], u[3], u[4], u[5]>>, None, None, None)

(* ---- the inverse: code units from the decoded fields (first unit needs the opcode) ---- *)
Low(l, bits) == l[1] % (2^bits)
Pack4(rs) == LET r(i) == IF i <= Len(rs) THEN rs[i] ELSE 0 IN r(1) + 16 * r(2) + 256 * r(3) + 4096 * r(4)
Encode(op, d) ==
  LET f == Fmt(op) r == d.regs IN
  CASE f = "10x" -> <<op>>
    [] f = "12x" -> <<op + 256 * (r[1] + 16 * r[2])>>
    [] f = "11n" -> <<op + 256 * (r[1] + 16 * Low(d.lit, 4))>>
    [] f = "11x" -> <<op + 256 * r[1]>>
    [] f = "10t" -> <<op + 256 * Low(d.off, 8)>>
    [] f = "20t" -> <<op, d.off[1]>>
    [] f = "30t" -> <<op, d.off[1], d.off[2]>>
    [] f = "22x" -> <<op + 256 * r[1], r[2]>>
    [] f = "32x" -> <<op, r[1], r[2]>>
    [] f = "21t" -> <<op + 256 * r[1], d.off[1]>>
    [] f = "21s" -> <<op + 256 * r[1], d.lit[1]>>
    [] f = "21h" -> <<op + 256 * r[1], d.lit[Len(d.lit)]>>
    [] f = "21c" -> <<op + 256 * r[1], d.idx[1]>>
    [] f = "23x" -> <<op + 256 * r[1], r[2] + 256 * r[3]>>
    [] f = "22b" -> <<op + 256 * r[1], r[2] + 256 * Low(d.lit, 8)>>
    [] f = "22t" -> <<op + 256 * (r[1] + 16 * r[2]), d.off[1]>>
    [] f = "22s" -> <<op + 256 * (r[1] + 16 * r[2]), d.lit[1]>>
    [] f = "22c" -> <<op + 256 * (r[1] + 16 * r[2]), d.idx[1]>>
    [] f = "31i" -> <<op + 256 * r[1], d.lit[1], d.lit[2]>>
    [] f = "31t" -> <<op + 256 * r[1], d.off[1], d.off[2]>>
    [] f = "31c" -> <<op + 256 * r[1], d.idx[1], d.idx[2]>>
    [] f = "35c" -> <<op + 256 * ((IF Len(r) = 5 THEN r[5] ELSE 0) + 16 * Len(r)), d.idx[1], Pack4(r)>>
    [] f = "3rc" -> <<op + 256 * Len(r), d.idx[1], IF Len(r) > 0 THEN r[1] ELSE 0>>
    [] f = "45cc" -> <<op + 256 * ((IF Len(r) = 5 THEN r[5] ELSE 0) + 16 * Len(r)), d.idx[1], Pack4(r), d.idx2[1]>>
    [] f = "4rcc" -> <<op + 256 * Len(r), d.idx[1], IF Len(r) > 0 THEN r[1] ELSE 0, d.idx2[1]>>
    [] f = "51l" -> <<op + 256 * r[1], d.lit[1], d.lit[2], d.lit[3], d.lit[4]>>

\* Encode is an inverse of Decode exactly when no information is lost: unused register nibbles of 35c/45cc are zero,
\* the first register of an empty range is zero, and the "00" byte is zero
Canonical(u) == LET f == Fmt(Op(u)) IN
   /\ ZeroAA(f) => AA(u) = 0
   /\ f \in {"35c", "45cc"} => /\ NibB(u) <= 5
                                /\ \A k \in 0..3 : (k >= NibB(u) => Nib(u[3], k) = 0)
                                /\ (NibB(u) < 5 => NibA(u) = 0)
   /\ f \in {"3rc", "4rcc"} => (AA(u) = 0 => u[3] = 0)
=============================================================================
