SPECIFICATION Spec
CONSTANTS
  MaxSegs = 4
  MaxDims = 3
INVARIANT NonEmpty
INVARIANT OnlyDirectMembers
CHECK_DEADLOCK FALSE
