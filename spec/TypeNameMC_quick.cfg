SPECIFICATION Spec
CONSTANTS
  MaxSegs = 3
  MaxDims = 2
INVARIANT NonEmpty
INVARIANT OnlyDirectMembers
CHECK_DEADLOCK FALSE
