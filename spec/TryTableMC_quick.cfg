SPECIFICATION Spec
CONSTANTS
  MaxTries = 2
  MaxHandlers = 2
INVARIANT Aligned
INVARIANT OffsOK
INVARIANT ReportOK
CHECK_DEADLOCK FALSE
