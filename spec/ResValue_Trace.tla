----------------------------- MODULE ResValue_Trace -----------------------------
(* C->S for C27: one record per formatted value: type, data limbs, the text as character codes, and what the      *)
(* harness read back from the text: for integers sign + magnitude limbs; for complex values sign, unit string and  *)
(* the printed number scaled by 2^shift and rounded (scaled, an integer).                                         *)
EXTENDS ResValue, Json, IOUtils, TLCExt
Tr == ndJsonDeserialize(IOEnv.TRACE_FILE)
VARIABLE l
Failing(r) ==
  LET t == r.t d == r.d IN
  IF t \in {TYPE_REFERENCE, TYPE_ATTRIBUTE, TYPE_INT_HEX, TYPE_INT_BOOLEAN} \cup ColorTypes
  THEN (IF r.text = Text(t, d) THEN {} ELSE {"C27.text-" \o r.kind})
  ELSE IF t = TYPE_INT_DEC THEN (IF r.ok /\ r.neg = IntNeg(d) /\ r.mag = IntAbs(d) THEN {} ELSE {"C27.signed-decimal"})
  ELSE IF t \in {TYPE_DIMENSION, TYPE_FRACTION}
  THEN (IF r.ok /\ r.unit = (IF t = TYPE_DIMENSION THEN DimUnits[Unit(d) + 1] ELSE FracUnits[Unit(d) + 1]) THEN {} ELSE {"C27.unit-" \o r.kind})
       \cup (IF r.ok /\ (MantAbs(d) = 0 \/ r.neg = MantNeg(d)) THEN {} ELSE {"C27.sign-" \o r.kind})
       \cup (IF r.ok /\ Abs(r.scaled - MantAbs(d)) <= Tolerance(d) THEN {} ELSE {"C27.magnitude-" \o r.kind})
  ELSE {}
Init == l = 1
Next == /\ l <= Len(Tr)
        /\ LET f == Failing(Tr[l]) IN IF f = {} THEN TRUE ELSE PrintT(<<"REJECT", l, f>>)
        /\ l' = l + 1
Spec == Init /\ [][Next]_l
Accepted == TLCGet("stats").diameter - 1 = Len(Tr)
=============================================================================
