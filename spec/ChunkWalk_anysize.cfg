SPECIFICATION Spec
CONSTANTS
 L = 4
 MinSize = 0
INVARIANT Bounded
PROPERTY Terminates
CONSTRAINT Limit
CHECK_DEADLOCK FALSE
