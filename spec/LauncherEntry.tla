--------------------------- MODULE LauncherEntry ---------------------------
(* Extension X06 (not a listed property): APK.get_main_activities as a scan over the activities and their           *)
(* intent-filters.  An intent-filter is a number 0..3: bit 0 = declares action MAIN, bit 1 = declares category       *)
(* LAUNCHER.  On the platform an activity is a launcher entry iff it is enabled and ONE of its filters declares      *)
(* both (an intent is matched against one filter at a time).  The scan has two variants:                             *)
(*   PerFilter = TRUE  : the platform's rule: an activity is recorded when a filter with both is met;                *)
(*   PerFilter = FALSE : what androguard does: MAIN and LAUNCHER are collected in two sets over all the filters      *)
(*                       of the activity and intersected at the end (a deliberate deviation, named here).            *)
EXTENDS Naturals, Sequences, FiniteSets
CONSTANTS Acts,          \* sequence of activity names (manifest order)
          MaxFilters,    \* filters per activity explored
          PerFilter
VARIABLES enabled,       \* [name -> BOOLEAN]
          filters,       \* [name -> Seq(0..3)]
          pc, i, j,      \* position of the scan: activity i, filter j
          x, y,          \* names seen with MAIN / with LAUNCHER
          result
vars == <<enabled, filters, pc, i, j, x, y, result>>
ActsMC == <<"A", "B">>
Names == {Acts[k] : k \in 1..Len(Acts)}
HasMain(f) == f % 2 = 1
HasLauncher(f) == f \div 2 = 1
FilterSeqs == UNION {[1..n -> 0..3] : n \in 0..MaxFilters}
\* the platform's meaning, a function of the declaration alone
IsEntry(en, fs) == en /\ \E k \in 1..Len(fs) : HasMain(fs[k]) /\ HasLauncher(fs[k])
Entries == {a \in Names : IsEntry(enabled[a], filters[a])}
DeclaresBoth(a) == (\E k \in 1..Len(filters[a]) : HasMain(filters[a][k])) /\ (\E k \in 1..Len(filters[a]) : HasLauncher(filters[a][k]))
Aligned == \A a \in Names : \A k \in 1..Len(filters[a]) : HasMain(filters[a][k]) = HasLauncher(filters[a][k])

Init == /\ enabled \in [Names -> BOOLEAN]
        /\ filters \in [Names -> FilterSeqs]
        /\ pc = "activity" /\ i = 1 /\ j = 1 /\ x = {} /\ y = {} /\ result = {}
NextActivity == /\ pc = "activity"
                /\ IF i > Len(Acts) THEN /\ pc' = "done" /\ result' = x \cap y /\ UNCHANGED <<i, j>>
                   ELSE IF ~enabled[Acts[i]] THEN /\ i' = i + 1 /\ UNCHANGED <<pc, j, result>>          \* android:enabled="false": skipped
                   ELSE /\ pc' = "filter" /\ j' = 1 /\ UNCHANGED <<i, result>>
                /\ UNCHANGED <<enabled, filters, x, y>>
NextFilter == /\ pc = "filter"
              /\ LET a == Acts[i] IN
                 IF j > Len(filters[a]) THEN /\ pc' = "activity" /\ i' = i + 1 /\ UNCHANGED <<j, x, y>>
                 ELSE LET f == filters[a][j] IN
                      /\ j' = j + 1 /\ UNCHANGED <<pc, i>>
                      /\ IF PerFilter THEN /\ x' = IF HasMain(f) /\ HasLauncher(f) THEN x \cup {a} ELSE x
                                           /\ y' = IF HasMain(f) /\ HasLauncher(f) THEN y \cup {a} ELSE y
                         ELSE /\ x' = IF HasMain(f) THEN x \cup {a} ELSE x
                              /\ y' = IF HasLauncher(f) THEN y \cup {a} ELSE y
              /\ UNCHANGED <<enabled, filters, result>>
Next == NextActivity \/ NextFilter
Spec == Init /\ [][Next]_vars /\ WF_vars(Next)

TypeOK == /\ pc \in {"activity", "filter", "done"} /\ i \in 1..Len(Acts) + 1 /\ x \subseteq Names /\ y \subseteq Names /\ result \subseteq Names
\* the platform's rule, exactly (holds for the PerFilter scan only)
Exact == pc = "done" => result = Entries
\* what both scans guarantee
NoEntryMissed == pc = "done" => Entries \subseteq result
Justified == pc = "done" => \A a \in result : enabled[a] /\ DeclaresBoth(a)
DisabledNeverReported == \A a \in x \cup y \cup result : enabled[a]
AlignedExact == (pc = "done" /\ Aligned) => result = Entries
\* the sets only grow while scanning, and only with the activity under the cursor
Grows == [][x \subseteq x' /\ y \subseteq y' /\ (x' \cup y') \ (x \cup y) \subseteq (IF i <= Len(Acts) THEN {Acts[i]} ELSE {})]_vars
Terminates == <>(pc = "done")
=============================================================================
