--------------------------------- MODULE Arsc ---------------------------------
(* What a resource table contains and what its queries must return (C28), and what resolving an id returns (C29).  *)
(*   entry = [pkg, pid, type, tid, idx, cfg, kind, val, key]                                                       *)
(*     pkg / pid   package name and id;  type / tid   type name and id (1-based);  idx   entry index               *)
(*     cfg         configuration label "<language-and-region>|<density>" ("|0" style label for the default)         *)
(*     kind, val   "str" character codes | "int" number (< 2^31) | "ref" resource id | "bag" Seq(<<kind, val>>)     *)
(*     key         the entry's name                                                                                *)
(* A table is a set of entries with distinct (pid, tid, idx, cfg).                                                  *)
EXTENDS Naturals, Integers, Sequences, FiniteSets, TLC
Rid(e) == e.pid * 16777216 + e.tid * 65536 + e.idx
WellFormed(T) == \A e, f \in T : (Rid(e) = Rid(f) /\ e.cfg = f.cfg) => e = f
Rids(T) == {Rid(e) : e \in T}
Packages(T) == {e.pkg : e \in T}
Configs(T, rid) == {e \in T : Rid(e) = rid}
\* what get_res_configs(rid) must report: one <<configuration, kind, value>> per configuration that stores the id
Stored(e) == <<Rid(e), e.cfg, e.kind, (IF e.kind = "bag" THEN Len(e.val) ELSE e.val)>>
StoredAll(T) == {Stored(e) : e \in T}
KeyToId(T) == {<<e.pkg, e.type, e.key, Rid(e)>> : e \in T}
LocaleOf(cfg) == cfg      \* the harness labels configurations by locale and density; listing by locale uses the first part (see trace)
TypesOf(T, pkg) == {e.type : e \in {x \in T : x.pkg = pkg}}

(* ---- resolution: the concrete values reachable from an id through references (all configurations) ---- *)
Range(s) == {s[i] : i \in 1..Len(s)}
ItemsOf(e) == IF e.kind = "bag" THEN Range(e.val) ELSE {<<e.kind, e.val>>}
RefsOf(T, S) == {it[2] : it \in UNION {{x \in ItemsOf(e) : x[1] = "ref"} : e \in {y \in T : Rid(y) \in S}}}
RECURSIVE Reach(_, _)
Reach(T, S) == LET next == (RefsOf(T, S) \ S) \ {0} IN IF next = {} THEN S ELSE Reach(T, S \cup next)
RECURSIVE Digits(_)
Digits(n) == IF n < 10 THEN <<48 + n>> ELSE Digits(n \div 10) \o <<48 + (n % 10)>>
Concrete(it) == IF it[1] = "str" THEN {it[2]} ELSE IF it[1] = "int" THEN {Digits(it[2])} ELSE {}
ResolvedValues(T, rid) == UNION {UNION {Concrete(it) : it \in ItemsOf(e)} : e \in {y \in T : Rid(y) \in Reach(T, {rid})}}
=============================================================================
