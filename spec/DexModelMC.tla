----------------------------- MODULE DexModelMC -----------------------------
(* Bounded instance of DexModel: class 1 ("A") carries every member set up to MaxF fields / MaxM methods   *)
(* over NN names x NT types x NP prototypes; optionally a second class and "ghost" ids (members that are    *)
(* referenced but not defined, so that index differences > 1 occur).  Each state carries the layout the     *)
(* specification computes (sorted id tables, per-list index differences) for comparison with the generated  *)
(* file and with what the parser reports.                                                                    *)
EXTENDS DexModel
CONSTANTS NN, NT, NP, MaxF, MaxM
VARIABLES fields, methods, ghosts, withB, lay

FFlags(static, name) == (IF static THEN 9 ELSE 2) + (IF name = 2 THEN 16 ELSE 0)
MFlags(direct, code, name) == IF direct THEN (IF code THEN 10 ELSE 266) ELSE (IF code THEN 1 ELSE 1025) + (IF name = 2 THEN 16 ELSE 0)
FU == {[cls |-> 1, name |-> n, type |-> t, static |-> s, flags |-> FFlags(s, n)] : n \in 1..NN, t \in 1..NT, s \in BOOLEAN}
MU == {[cls |-> 1, name |-> n, proto |-> p, direct |-> d, code |-> c, flags |-> MFlags(d, c, n)] : n \in 1..NN, p \in 1..NP, d \in BOOLEAN, c \in BOOLEAN}
RECURSIVE KSub(_, _)
KSub(U, k) == IF k = 0 THEN {{}} ELSE LET P == KSub(U, k - 1) IN P \cup {S \cup {x} : S \in P, x \in U}

BFields  == {[cls |-> 2, name |-> 1, type |-> 1, static |-> TRUE, flags |-> 9]}
BMethods == {[cls |-> 2, name |-> 1, proto |-> 1, direct |-> FALSE, code |-> TRUE, flags |-> 1]}
AllF == fields \cup (IF withB THEN BFields ELSE {})
AllM == methods \cup (IF withB THEN BMethods ELSE {})
GhostF == IF ghosts THEN {<<1, n, t>> : n \in 1..NN, t \in 1..NT} ELSE {}
GhostM == IF ghosts THEN {<<1, n, p>> : n \in 1..NN, p \in 1..NP} \cup {<<2, 2, 1>>} ELSE {}

Lists(c, F, M, fids, mids) ==
  LET sf == SortKeys({FKey(f) : f \in StaticFields(c, F)})     inf == SortKeys({FKey(f) : f \in InstanceFields(c, F)})
      dm == SortKeys({MKey(m) : m \in DirectMethods(c, M)})    vm  == SortKeys({MKey(m) : m \in VirtualMethods(c, M)})
  IN [sf |-> sf, sfd |-> Diffs(sf, fids), inf |-> inf, infd |-> Diffs(inf, fids),
      dm |-> dm, dmd |-> Diffs(dm, mids), vm |-> vm, vmd |-> Diffs(vm, mids)]
Layout(F, M) == LET fids == FieldIds(F, GhostF) mids == MethodIds(M, GhostM)
                IN [fids |-> fids, mids |-> mids, c1 |-> Lists(1, F, M, fids, mids), c2 |-> Lists(2, F, M, fids, mids)]

Init == /\ fields \in {S \in KSub(FU, MaxF) : \A f, g \in S : FKey(f) = FKey(g) => f = g}
        /\ methods \in {S \in KSub(MU, MaxM) : \A m, n \in S : MKey(m) = MKey(n) => m = n}
        /\ ghosts \in BOOLEAN /\ withB \in BOOLEAN
        /\ lay = Layout(AllF, AllM)
Next == UNCHANGED <<fields, methods, ghosts, withB, lay>>
Spec == Init /\ [][Next]_<<fields, methods, ghosts, withB, lay>>

Sorted(s) == \A i \in 1..(Len(s) - 1) : Less3(s[i], s[i + 1])
LayoutOK == /\ WellFormed(AllF, AllM)
            /\ Sorted(lay.fids) /\ Sorted(lay.mids)
            /\ \A L \in {lay.c1, lay.c2} :
                 /\ ListOK(L.sf, lay.fids) /\ ListOK(L.inf, lay.fids) /\ ListOK(L.dm, lay.mids) /\ ListOK(L.vm, lay.mids)
LookupsOK == /\ UNION {MethodsOfClass(c, AllM) : c \in 1..2} = {MKey(m) : m \in AllM}
             /\ \A m \in AllM : MethodByDescriptor(MKey(m), AllM) = {MKey(m)}
             /\ \A f \in AllF : FieldByDescriptor(FKey(f), AllF) = {FKey(f)}
             /\ \A n \in 1..NN : MethodsNamed(n, AllM) \subseteq {MKey(m) : m \in AllM}
=============================================================================
