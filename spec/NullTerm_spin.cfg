SPECIFICATION Spec
CONSTANTS
 K = 128
 Lens = {0, 1, 129}
 Starts = {0, 1, 127, 128, 129}
 EofCheck = FALSE
INVARIANT Bounded
INVARIANT Result
PROPERTY Terminates
CONSTRAINT LimitReads
CHECK_DEADLOCK FALSE
