---------------------------- MODULE JavaLiteralMC ----------------------------
(* (1) unit strings over boundary units: Lex(Write(s)) = s for the spec's reference writer;                      *)
(* (2) every text of <= MaxText characters over a lexically interesting alphabet is lexed to units or rejected   *)
(*     (totality), and quotes / backslash parity behave as JLS 3.3 says on spot checks.                          *)
EXTENDS JavaLiteral
CONSTANTS MaxUnits, MaxText
VARIABLES mode, us, text, out
Units == {0, 8, 10, 13, 31, 32, 34, 39, 65, 92, 117, 126, 127, 128, 255, 256, 4095, 4096, 55296, 56320, 57343, 65535}
Alpha == {34, 92, 117, 110, 48, 52, 97, 49}       \* " \ u n 0 4 a 1
SeqsUpTo(S, n) == UNION {[1..k -> S] : k \in 0..n}
Init == \/ /\ mode = "roundtrip" /\ us \in SeqsUpTo(Units, MaxUnits) /\ text = Write(us) /\ out = Lex(text)
        \/ /\ mode = "total" /\ us = <<>> /\ text \in SeqsUpTo(Alpha, MaxText) /\ out = Lex(text)
Next == UNCHANGED <<mode, us, text, out>>
Spec == Init /\ [][Next]_<<mode, us, text, out>>
RoundTrip == mode = "roundtrip" => out = us
Total == mode = "total" => (IsErr(out) \/ \A k \in 1..Len(out) : out[k] \in 0..65535)
\* spot checks: "\\u0041" is backslash + u0041 (odd parity), "A" is A, """ closes the literal early -> error
Spot == /\ Lex(<<34, 92, 92, 117, 48, 48, 52, 49, 34>>) = <<92, 117, 48, 48, 52, 49>>
        /\ Lex(<<34, 92, 117, 48, 48, 52, 49, 34>>) = <<65>>
        /\ Lex(<<34, 92, 117, 117, 48, 48, 52, 49, 34>>) = <<65>>
        /\ IsErr(Lex(<<34, 92, 117, 48, 48, 50, 50, 34>>))
        /\ Lex(<<34, 92, 49, 48, 49, 34>>) = <<65>>
        /\ Lex(<<34, 92, 52, 48, 49, 34>>) = <<32, 49>>
=============================================================================
