SPECIFICATION Spec
CONSTANTS
  NN = 2
  NT = 2
  NP = 2
  MaxF = 2
  MaxM = 2
INVARIANT LayoutOK
INVARIANT LookupsOK
CHECK_DEADLOCK FALSE
