------------------------------- MODULE Manifest -------------------------------
(* What the queries on an APK's AndroidManifest.xml must return (C31).                                             *)
(*   name       = [lead, segs]   lead: the written name starts with "."; segs: its dot-separated parts              *)
(*   manifest   = [pkg (segs), vcode, vname, perms (Seq of [name (string), maxsdk (0 = none)]),                      *)
(*                 acts / svcs / rcvs / prvs (Seq of [name, enabled, main, launcher]), minsdk, target (0 = absent),  *)
(*                 features, libraries (Seq of strings)]                                                             *)
EXTENDS Naturals, Sequences, FiniteSets, TLC
RECURSIVE Join(_, _)
Join(segs, sep) == IF Len(segs) = 0 THEN "" ELSE IF Len(segs) = 1 THEN segs[1] ELSE segs[1] \o sep \o Join(Tail(segs), sep)
Written(n) == (IF n.lead THEN "." ELSE "") \o Join(n.segs, ".")
\* Android's completion rule: a name that starts with a dot, or contains no dot at all, is relative to the package
Complete(pkg, n) == IF n.lead THEN Join(pkg, ".") \o "." \o Join(n.segs, ".")
                    ELSE IF Len(n.segs) = 1 THEN Join(pkg, ".") \o "." \o n.segs[1]
                    ELSE Join(n.segs, ".")
Range(s) == {s[i] : i \in 1..Len(s)}
Names(pkg, comps) == [i \in 1..Len(comps) |-> Complete(pkg, comps[i].name)]
\* bag equality of two sequences
Count(s, x) == Cardinality({i \in 1..Len(s) : s[i] = x})
SameBag(a, b) == Len(a) = Len(b) /\ \A i \in 1..Len(a) : Count(a, a[i]) = Count(b, a[i])
PermissionSet(m) == {m.perms[i].name : i \in 1..Len(m.perms)}
PermissionsWithMax(m) == [i \in 1..Len(m.perms) |-> <<m.perms[i].name, m.perms[i].maxsdk>>]
MainCandidates(m) == {Complete(m.pkg, a.name) : a \in {x \in Range(m.acts) : x.enabled /\ x.main /\ x.launcher}}
\* activity-alias elements (m.aliases, same shape as components) may carry the MAIN / LAUNCHER filter too; an alias is not an activity:
\* it is the main entry only when no activity is
AliasCandidates(m) == {Complete(m.pkg, a.name) : a \in {x \in Range(m.aliases) : x.enabled /\ x.main /\ x.launcher}}
MainOK(m, main) == IF MainCandidates(m) # {} THEN main \in MainCandidates(m)
                   ELSE IF AliasCandidates(m) # {} THEN main \in AliasCandidates(m) ELSE main = ""
EffectiveTarget(m) == IF m.target # 0 THEN m.target ELSE IF m.minsdk # 0 THEN m.minsdk ELSE 1
=============================================================================
